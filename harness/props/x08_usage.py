"""X08 helper — how clematis/engine/orchestrator/parallel.py uses the read-only snapshot.

_run_agents_parallel_batch takes ONE snapshot of the live state before the compute phase, _run_turn_compute wraps it
once more per agent and hands that to Orchestrator.run_turn; apply_changes (commit phase) alone gets the live state.

contract variant   the batch driver with the gate open, two agents on disjoint graphs; run_turn is a double that follows
                   the documented dry-run contract AND behaves like stage code that tries to write into the state it was
                   given (every spelling the module promises to block).  The live state is made of watching containers
                   (dict / list subclasses, a watching attribute object) that record every structural mutation together
                   with the phase in which it happened.
real variant       the REAL run_turn for two agents through the real _run_turn_compute on a watching attribute+dict state
                   (boot flag and cache manager preset: the read-only view cannot take them, open finding C10-real-pipeline).
Clause ComputePhaseLeavesLiveStateAlone: no structural mutation of the live state in the compute phase, the compute
gets a ReadOnlyState (never the live object), the commit phase gets the live object and does write it.
"""
from __future__ import annotations

import os
import shutil
import tempfile
from types import SimpleNamespace
from typing import Any, Dict, List, Tuple

PHASE = {"p": "idle"}
EVENTS: List[Tuple[str, str, str]] = []


def _log(name: str, op: str) -> None:
    EVENTS.append((PHASE["p"], name, op))


def _watching(base, names):
    ns = {}
    for m in names:
        def mk(m=m):
            def f(self, *a, **k):
                _log(getattr(self, "_x08_name", base.__name__), m)
                return getattr(base, m)(self, *a, **k)
            f.__name__ = m
            return f
        ns[m] = mk()
    return ns


WDict = type("WDict", (dict,), _watching(dict, ["__setitem__", "__delitem__", "update", "pop", "popitem", "clear", "setdefault", "__ior__"]))
WList = type("WList", (list,), _watching(list, ["__setitem__", "__delitem__", "append", "extend", "insert", "pop", "remove", "clear", "sort", "reverse", "__iadd__", "__imul__"]))


class WState(WDict):
    """attribute + dict access (what the real stages need of a non-dict-typed state is `.get`)"""
    _x08_name = "state"

    def __getattr__(self, name):
        try:
            return self[name]
        except KeyError as e:
            raise AttributeError(name) from e


class WNs:
    """attribute-style state object that records attribute writes"""

    def __setattr__(self, k, v):
        _log("state", f"setattr {k}")
        object.__setattr__(self, k, v)

    def __delattr__(self, k):
        _log("state", f"delattr {k}")
        object.__delattr__(self, k)


def _named(c, name):
    try:
        object.__setattr__(c, "_x08_name", name)
    except Exception:
        pass
    return c


def sig(x, depth=0) -> Any:
    """deep structural signature: containers by structure, everything by identity"""
    if depth > 8:
        return ("deep", id(x))
    if isinstance(x, dict):
        return ("dict", id(x), tuple((repr(k), sig(v, depth + 1)) for k, v in x.items()))
    if isinstance(x, (list, tuple)):
        return ("seq", id(x), tuple(sig(v, depth + 1) for v in x))
    if isinstance(x, (WNs, SimpleNamespace)):
        return ("ns", id(x), tuple((k, sig(v, depth + 1)) for k, v in vars(x).items()))
    if isinstance(x, (str, int, float, bool, type(None))):
        return ("val", repr(x))
    return ("obj", id(x))


def store_sig(store) -> Any:
    inner = getattr(store, "inner", store)
    out = []
    for gid in sorted(getattr(inner, "_graphs", {}) or {}):
        g = inner.get_graph(gid)
        out.append((gid, tuple((k, n.label) for k, n in g.nodes.items()), tuple((k, e.src, e.dst, e.weight, e.rel) for k, e in g.edges.items())))
    return (tuple(out), tuple(sorted(getattr(store, "applied", {}).items())))


def underlying(view) -> Any:
    """follow the facade(s) down to the object they were made from"""
    seen = 0
    while type(view).__name__ == "ReadOnlyState" and seen < 5:
        view = view._orig_state
        seen += 1
    return view


def _attempts(st, style: str, live) -> Tuple[List[str], int]:
    """what stage code might try on the state it was given; -> (accepted writes, rejected count)"""
    accepted: List[str] = []
    rejected = 0

    def tryit(label, fn):
        nonlocal rejected
        try:
            fn()
            accepted.append(label)
        except (TypeError, AttributeError):
            rejected += 1

    tryit("state.x08 = 1", lambda: setattr(st, "x08", 1))
    tryit("state.version_etag = 'z'", lambda: setattr(st, "version_etag", "z"))
    tryit("del state.version_etag", lambda: delattr(st, "version_etag"))
    tryit("state['x08'] = 1", lambda: exec("s['x08'] = 1", {"s": st}))
    tryit("del state['version_etag']", lambda: exec("del s['version_etag']", {"s": st}))
    if style == "attr":
        g = st.graphs_by_agent
        tryit("state.graphs_by_agent['A'] = []", lambda: exec("g['A'] = []", {"g": g}))
        tryit("del state.graphs_by_agent['A']", lambda: exec("del g['A']", {"g": g}))
        tryit("state.graphs_by_agent.update(..)", lambda: g.update({"Z": []}))
        tryit("state.graphs_by_agent.pop('A')", lambda: g.pop("A"))
        tryit("state.graphs_by_agent['A'].append('g9')", lambda: g["A"].append("g9"))
        tryit("state.graphs_by_agent['A'][0] = 'g9'", lambda: exec("l[0] = 'g9'", {"l": g["A"]}))
        tryit("state.graphs_by_agent['A'] += ['g9']", lambda: exec("l += ['g9']", {"l": g["A"]}))
        tryit("state.graphs_by_agent['A'].sort()", lambda: g["A"].sort())
        tryit("state.meta['nested']['k'] = 1", lambda: exec("m['k'] = 1", {"m": st.meta["nested"]}))
        tryit("state.meta['nested']['l'].append(1)", lambda: st.meta["nested"]["l"].append(1))
        tryit("state.meta.setdefault('k', 1)", lambda: st.meta.setdefault("k", 1))
        tryit("state.meta.clear()", lambda: st.meta.clear())
    return accepted, rejected


def _reads_ok(st, style: str, live_get) -> List[str]:
    bad = []
    if style == "attr":
        if list(st.graphs_by_agent) != ["A", "B"] or list(st.graphs_by_agent["A"]) != ["g1"] or len(st.graphs_by_agent["B"]) != 1:
            bad.append("graphs_by_agent read through the view differs from the live content")
        if st.store is not live_get("store"):
            bad.append("state.store read through the view is not the live store object")
        if st.version_etag != live_get("version_etag"):
            bad.append("version_etag differs")
        if st.meta["nested"]["leaf"] is not live_get("meta")["nested"]["leaf"]:
            bad.append("a heavy object below two mappings is not shared by identity")
    else:
        if st.get("store") is not live_get("store"):
            bad.append("state.get('store') through the view is not the live store object")
    return bad


def contract_case(case) -> List[Tuple[str, str]]:
    from .. import engine as E
    import clematis.engine.orchestrator as orch
    import clematis.engine.orchestrator.core as core
    import clematis.engine.orchestrator.parallel as par
    from clematis.io.log import append_jsonl
    from clematis.engine.apply import apply_changes as real_apply
    from clematis.engine.types import ProposedDelta
    from clematis.engine.orchestrator.types import TurnResult
    from clematis.engine.cache import CacheManager
    import numpy as np
    os.environ["CI"] = "true"
    style = case["style"]
    fails: List[Tuple[str, str]] = []
    work = tempfile.mkdtemp(prefix="x08u_", dir=case["workdir"])
    del EVENTS[:]
    PHASE["p"] = "build"
    try:
        cfg = E.validated_cfg({"t4": {"enabled": True, "snapshot_dir": os.path.join(work, "snaps"), "snapshot_every_n_turns": 1},
                               "perf": {"enabled": True, "parallel": {"enabled": True, "agents": True, "max_workers": 2}}})
        store = E.RecordingStore()
        leaf = np.arange(4.0)
        content = {"store": store, "version_etag": "0", "_boot_loaded": True,
                   "graphs_by_agent": _named(WDict({"A": _named(WList(["g1"]), "graphs_by_agent[A]"), "B": _named(WList(["g2"]), "graphs_by_agent[B]")}), "graphs_by_agent"),
                   "meta": _named(WDict({"nested": _named(WDict({"l": _named(WList([_named(WDict({"w": 1}), "meta.nested.l[0]")]), "meta.nested.l"), "leaf": leaf}), "meta.nested")}), "meta"),
                   "_cache_mgr": CacheManager(max_entries=8, ttl_sec=600, time_fn=lambda: 1000.0)}
        if style == "attr":
            live: Any = WNs()
            for k, v in content.items():
                object.__setattr__(live, k, v)
            live_get = lambda k: getattr(live, k)      # noqa: E731
        else:
            live = _named(WDict(content), "state")
            live_get = lambda k: dict.get(live, k)     # noqa: E731
        ctx = E.mk_ctx(cfg, "driver", 7, now=None)
        recv: List[Any] = []
        accepted_all: List[str] = []
        rejected_all = [0]
        read_problems: List[str] = []
        commit_seen: List[Any] = []
        pre = (tuple((k, sig(v)) for k, v in (vars(live) if style == "attr" else live).items()), store_sig(store))
        at_first_commit: List[Any] = []

        def double(self, c, st, text):
            PHASE["p"] = "compute"
            try:
                recv.append(st)
                acc, rej = _attempts(st, style, live)
                accepted_all.extend(f"{c.agent_id}: {a}" for a in acc)
                rejected_all[0] += rej
                read_problems.extend(_reads_ok(st, style, live_get))
                append_jsonl("t1.jsonl", {"turn": c.turn_id, "agent": str(c.agent_id), "stream": "t1"})
                utter = f"utter-{c.agent_id}-{text}"
                c._dryrun_t4 = SimpleNamespace(approved_deltas=[ProposedDelta("node", f"n:{c.agent_id}", "weight", 0.125, op_idx=None, idx=0)])
                c._dryrun_utter = utter
                c._dryrun_t1 = {"graphs_touched": []}
                c._dryrun_t2 = {}
                c._dryrun_plan_reflection = False
                return TurnResult(line=utter, events=[])
            finally:
                PHASE["p"] = "between"

        def apply_wrap(c, st, t4):
            if not at_first_commit:
                at_first_commit.append((tuple((k, sig(v)) for k, v in (vars(live) if style == "attr" else live).items()), store_sig(store)))
            PHASE["p"] = "commit"
            try:
                commit_seen.append(st)
                return real_apply(c, st, t4)
            finally:
                PHASE["p"] = "between"

        old = os.environ.get("CLEMATIS_LOG_DIR")
        os.environ["CLEMATIS_LOG_DIR"] = os.path.join(work, "logs")
        os.makedirs(os.environ["CLEMATIS_LOG_DIR"], exist_ok=True)
        PHASE["p"] = "between"
        raised = None
        results: List[Any] = []
        try:
            with E.patched_attr(core.Orchestrator, run_turn=double), E.patched_attr(orch, apply_changes=apply_wrap):
                results = par._run_agents_parallel_batch(ctx, live, [("A", "t0"), ("B", "t1")])
        except Exception as e:      # noqa: BLE001
            raised = f"{type(e).__name__}: {e}"
        finally:
            try:
                from clematis.engine.util.io_logging import disable_staging
                disable_staging()
            except Exception:
                pass
            if old is None:
                os.environ.pop("CLEMATIS_LOG_DIR", None)
            else:
                os.environ["CLEMATIS_LOG_DIR"] = old
        where = f"batch driver, {style}-style state"
        if raised:
            out = [("ViewRejectsEveryStructuralMutation", f"{where}: stage code could run `{a}` on the state it was given in the compute phase") for a in accepted_all[:3]]
            ev = [e for e in EVENTS if e[0] == "compute"]
            return out + [("ComputePhaseLeavesLiveStateAlone", f"{where}: the driver raised {raised}" + (f"; live containers were mutated in the compute phase: {ev[:4]}" if ev else ""))]
        if len(results) != 2 or len(recv) != 2 or len(commit_seen) != 2:
            return [("ComputePhaseLeavesLiveStateAlone", f"{where}: {len(recv)} computes, {len(commit_seen)} commits, {len(results)} results (2 agents on disjoint graphs)")]
        for st in recv:
            if st is live:
                fails.append(("ComputePhaseLeavesLiveStateAlone", f"{where}: the compute phase was handed the LIVE state object"))
            elif type(st).__name__ != "ReadOnlyState" or underlying(st) is not live:
                fails.append(("ComputePhaseLeavesLiveStateAlone", f"{where}: the compute phase got a {type(st).__name__} that is not a read-only view of the live state"))
        for a in accepted_all:
            fails.append(("ViewRejectsEveryStructuralMutation", f"{where}: stage code could run `{a}` on the state it was given in the compute phase"))
        for m in read_problems:
            fails.append(("ReadsAgreeWithModel", f"{where}: {m}"))
        compute_events = [e for e in EVENTS if e[0] == "compute"]
        if compute_events:
            fails.append(("ComputePhaseLeavesLiveStateAlone", f"{where}: live containers were mutated in the compute phase: {compute_events[:4]}"))
        if at_first_commit and at_first_commit[0] != pre:
            fails.append(("ComputePhaseLeavesLiveStateAlone", f"{where}: the live state at the first commit differs from the state before the batch"))
        if any(st is not live for st in commit_seen):
            fails.append(("ComputePhaseLeavesLiveStateAlone", f"{where}: the commit phase did not get the live state object"))
        commit_events = [e for e in EVENTS if e[0] == "commit"]
        if not commit_events or str(live_get("version_etag")) != "2" or sum(store.applied.values()) != 2:
            fails.append(("ComputePhaseLeavesLiveStateAlone", f"{where}: the commit phase did not write the live state (watch events {commit_events[:3]}, "
                                                              f"version {live_get('version_etag')!r}, applied {dict(store.applied)}) - the watchers would be vacuous"))
        if rejected_all[0] == 0:
            fails.append(("ViewRejectsEveryStructuralMutation", f"{where}: no write attempt was rejected (vacuous)"))
        return fails
    finally:
        PHASE["p"] = "idle"
        shutil.rmtree(work, ignore_errors=True)


def real_case(case) -> Dict[str, Any]:
    """the real run_turn through the real _run_turn_compute for two agents on a watching state"""
    from .. import engine as E
    import clematis.engine.orchestrator.core as core
    import clematis.engine.orchestrator.parallel as par
    from clematis.engine.cache import CacheManager
    os.environ["CI"] = "true"
    fails: List[Tuple[str, str]] = []
    notes: List[str] = []
    work = tempfile.mkdtemp(prefix="x08r_", dir=case["workdir"])
    del EVENTS[:]
    PHASE["p"] = "build"
    try:
        cfg = E.validated_cfg({"t4": {"snapshot_dir": os.path.join(work, "snaps")}, "t1": {"cache": {"enabled": False}},
                               "t2": {"cache": {"enabled": False}, "sim_threshold": -1.0},
                               "perf": {"enabled": True, "parallel": {"enabled": True, "agents": True, "max_workers": 3}}})
        graphs = dict(E.DEFAULT_GRAPHS)
        graphs["g:b"] = {"nodes": [("m:apple", "apple", [])], "edges": []}
        base_state = E.mk_state(graphs, E.default_episodes())
        base_state["graphs_by_agent"] = _named(WDict({"A": _named(WList(["g:surface"]), "graphs_by_agent[A]"), "B": _named(WList(["g:b"]), "graphs_by_agent[B]")}), "graphs_by_agent")
        base_state["active_graphs"] = _named(WList(base_state["active_graphs"]), "active_graphs")
        base_state["_cache_mgr"] = CacheManager(max_entries=64, ttl_sec=600)
        live = WState(base_state)
        ctx = E.mk_ctx(cfg, "driver", 1)
        E.reset_global_caches()
        real_run_turn = core.Orchestrator.run_turn
        recv: List[Any] = []
        finished: List[str] = []
        inside: List[str] = []

        def wrapped(self, c, st, text):
            PHASE["p"] = "compute"
            recv.append(st)
            try:
                out = real_run_turn(self, c, st, text)
                finished.append(str(c.agent_id))
                return out
            except Exception as e:      # noqa: BLE001
                inside.append(f"{type(e).__name__}: {e}")
                raise
            finally:
                PHASE["p"] = "between"

        pre = (tuple((k, sig(v)) for k, v in live.items()), store_sig(live["store"]), len(getattr(live["mem_index"], "_eps", []) or []))
        PHASE["p"] = "between"
        after_compute: List[str] = []
        with E.LogCapture(write_through=False, log_dir=os.path.join(work, "logs")) as cap, E.patched_attr(core.Orchestrator, run_turn=wrapped):
            base = par._make_readonly_snapshot(live)
            for aid, text in (("A", "apple"), ("B", "banana")):
                try:
                    par._run_turn_compute(ctx, base, aid, text)
                except Exception as e:      # noqa: BLE001
                    after_compute.append(f"{type(e).__name__}: {e}")
        streams = [s for s, _ in cap.records]
        post = (tuple((k, sig(v)) for k, v in live.items()), store_sig(live["store"]), len(getattr(live["mem_index"], "_eps", []) or []))
        if inside:
            # the real pipeline could not run on the view at all: nothing to assess here (open finding C10-real-pipeline)
            notes.append(f"real run_turn raised on the read-only view: {inside[0]}")
            return {"fails": fails, "notes": notes, "ran": False}
        if after_compute:
            notes.append(f"_run_turn_compute raised AFTER run_turn returned: {after_compute[0]} (the compute itself completed; see C10-real-pipeline)")
        if sorted(finished) != ["A", "B"]:
            notes.append(f"real run_turn finished for {finished} only")
            return {"fails": fails, "notes": notes, "ran": False}
        where = "real run_turn through _run_turn_compute (two agents)"
        for st in recv:
            if st is live or type(st).__name__ != "ReadOnlyState" or underlying(st) is not live:
                fails.append(("ComputePhaseLeavesLiveStateAlone", f"{where}: run_turn was handed a {type(st).__name__} that is not a read-only view of the live state"))
        ev = [e for e in EVENTS if e[0] == "compute"]
        if ev:
            fails.append(("ComputePhaseLeavesLiveStateAlone", f"{where}: live containers were mutated in the compute phase: {ev[:4]}"))
        if post != pre:
            which = [n for n, a, b in zip(("state containers", "graph store", "memory index"), pre, post) if a != b]
            fails.append(("ComputePhaseLeavesLiveStateAlone", f"{where}: the live {', '.join(which)} changed during the compute phase"))
        if "t1.jsonl" not in streams or "t4.jsonl" not in streams:
            notes.append(f"streams emitted by the compute: {sorted(set(streams))}")
        return {"fails": fails, "notes": notes, "ran": True, "streams": sorted(set(streams))}
    finally:
        PHASE["p"] = "idle"
        shutil.rmtree(work, ignore_errors=True)
