# -*- coding: utf-8 -*-
"""C19, write path below the turn: every case of ReflWrite.tla replayed on the real
clematis.engine.orchestrator.reflection.write_reflection_entries (n entries x ops cap x per-slot index.add
faults x index kind).  The spec says which SLOTS are written; the harness checks on the real writer that the entry
written for slot i carries the id and timestamp the fault-free run gives slot i (id/ts = function of agent, turn,
slot, text: nothing that happens to another slot may change them), that nothing else is written, and that the
report counts agree."""
from __future__ import annotations

import copy
import json
from types import SimpleNamespace
from typing import Any, Dict, List, Tuple

TEXTS = ["first insight", "second insight — ünïcode", "third insight", "fourth  insight wide", "fifth"]
EXCS = {"RuntimeError": RuntimeError, "KeyError": KeyError, "OSError": OSError, "ValueError": ValueError}


class _Idx:
    def __init__(self, fail, exc, kw_only=False):
        self.entries: List[dict] = []
        self.calls = 0
        self.fail, self.exc, self.kw_only = fail, exc, kw_only

    def add(self, *a, **kw):
        if self.kw_only and a:
            raise TypeError("verif: keyword-only index")
        ep = dict(a[0]) if a else dict(kw)
        slot = self.calls
        self.calls += 1
        if slot in self.fail:
            raise self.exc("verif: index.add")
        self.entries.append(copy.deepcopy(ep))


def _call(n, cap, fail, idx, exc, variant):
    import clematis.engine.orchestrator.reflection as R
    from clematis.engine.stages.t3.reflect import ReflectionResult
    agent, turn = [("AgentÄ", 7), ("B", "t-3"), ("A", 0)][variant % 3]
    ctx = SimpleNamespace(agent_id=agent, turn_id=turn, now_ms=1234, **({"now_iso": "2026-01-02T03:04:05Z"} if variant % 2 == 0 else {}))
    index = _Idx(set(fail), exc, kw_only=(idx == "typeerr"))
    state: Dict[str, Any] = {} if idx == "missing" else {"memory_index": index}
    if variant % 2:
        state = SimpleNamespace(**state)
    entries = [{"text": TEXTS[i], "tags": ["reflection"], "kind": "summary"} for i in range(n)]
    res = ReflectionResult(summary="s", memory_entries=entries, metrics={})
    cfg_root = {"scheduler": {"budgets": {"ops_reflection": cap}}}
    rep = R.write_reflection_entries(ctx, state, cfg_root, res)
    return index, rep


def replay_case(case) -> List[Tuple[str, str]]:
    t, excn, variant = case["t"], case["exc"], case["variant"]
    inp, out = t["inp"], t["out"]
    n, cap, idx = int(inp["n"]), int(inp["cap"]), inp["idx"]
    fail = [i for i, b in enumerate(inp["fail"]) if b]
    where = f"write_reflection_entries(n={n}, ops cap={cap}, add fails at slots {fail}, index={idx}, exc={excn}, variant {variant})"
    fails: List[Tuple[str, str]] = []
    try:
        index, rep = _call(n, cap, fail, idx, EXCS[excn], variant)
        ref, _ = _call(n, max(cap, n), [], "ok", EXCS[excn], variant)       # fault-free, uncapped: the id/ts of every slot
    except Exception as e:  # the writer is documented never to raise
        return [("TurnArtefactsUntouched", f"{where}: raised {type(e).__name__}: {e}")]
    ref_by_text = {e["text"]: (e["id"], e["ts"]) for e in ref.entries}
    want_slots = [int(s) for s in out["slots"]]
    got = index.entries
    if len(got) > (cap if cap > 0 else 0):
        fails.append(("EntriesWithinOps", f"{where}: {len(got)} entries written"))
    got_texts = [e.get("text") for e in got]
    want_texts = [TEXTS[s].strip() for s in want_slots]
    if got_texts != want_texts:
        clause = "NoWriteOnErrorMissingFixtureTimeout" if len(got_texts) > len(want_texts) else "RunsIffAllGates"
        fails.append((clause, f"{where}: entries written for texts {got_texts}, spec says slots {want_slots}"))
    for e in got:
        if e.get("text") in ref_by_text and (e.get("id"), e.get("ts")) != ref_by_text[e["text"]]:
            fails.append(("IdAndTsPure", f"{where}: entry {e.get('text')!r} has id/ts {(e.get('id'), e.get('ts'))}, the fault-free run gives that slot "
                                         f"{ref_by_text[e['text']]}: id/ts depend on what happened to other slots"))
    ids = [e.get("id") for e in got]
    if len(set(ids)) != len(ids):
        fails.append(("IdAndTsPure", f"{where}: two slots share an id: {ids}"))
    if int(rep.ops_written) != int(out["written"]) or int(rep.ops_attempted) != int(out["attempted"]):
        fails.append(("RunsIffAllGates", f"{where}: report attempted/written {rep.ops_attempted}/{rep.ops_written}, spec {out['attempted']}/{out['written']}"))
    return fails


def check(run) -> None:
    from ..util import make_cfg, pmap
    q = run.quick
    consts = {"MaxEntries": 4, "Caps": [0, 1, 2, 3, 5], "IdxKinds": ["ok", "missing", "typeerr"]}
    cfg = make_cfg(consts, ["EntriesWithinOps", "SlotIdentity", "CountsAgree"], [], emit=False, view=None, constraint="EmitCase")
    res = run.tlc("ReflWrite", cfg, name="ReflWrite", workers=8, timeout_s=600)
    run.model_must_hold(res)
    cases = []
    for i, t in enumerate(res.emitted):
        for v in ([i % 6] if q else range(6)):
            cases.append({"t": t, "exc": list(EXCS)[(i + v) % 4], "variant": v})
    outs = pmap(replay_case, cases, chunk=64)
    for c, fails in zip(cases, outs):
        run.traces += 1
        run.case(("reflwrite", json.dumps(c, sort_keys=True)))
        if not fails:
            run.ok("ReflWrite.case_conforms")
        for clause, msg in fails:
            run.fail(clause, {"clause": clause, "family": "reflwrite"}, c, msg, replay={"reflwrite": c})
    if cases:
        run.sample({"family": "ReflWrite", "case": cases[len(cases) // 2]}, cap=2)


# ---- the LLM planner's reflection request is a request of THAT turn's plan -------------------------------------------
ANSWERS = {
    "req": '{"plan": ["a"], "rationale": "r", "reflection": true}',
    "noreq": '{"plan": ["a"], "rationale": "r", "reflection": false}',
    "nokey": '{"plan": ["a"], "rationale": "r"}',
    "prose": "I would rather not answer in JSON today.",
    "badschema": '{"plan": "x", "reflection": true}',
    "raise": None,          # the adapter raises (no fixture for this prompt)
    "noadapter": "NOADAPTER",
}


class _Planner:
    def __init__(self, text):
        self.text = text

    def generate(self, prompt, max_tokens=256, temperature=0.2, **kw):
        if self.text is None:
            raise RuntimeError("verif: no fixture for this prompt")
        return SimpleNamespace(text=self.text, tokens=1, truncated=False)


class _AttrDict(dict):
    __getattr__ = dict.get

    def __setattr__(self, k, v):
        self[k] = v


def planner_flag_case(case) -> List[Tuple[str, str]]:
    """run_policy (LLM planner) over a history of model answers on ONE state: after every call the reflection request
    stashed for the orchestrator is true only if THIS call's answer is a valid plan that requests reflection"""
    from .. import engine as E
    import clematis.engine.stages.t3.policy as P
    cfg = {"t3": {"backend": "llm", "llm": {"provider": "fixture"}}}
    state = [SimpleNamespace(logs=[]), _AttrDict(logs=[]), {"logs": []}][case["skind"]]
    for step, name in enumerate(case["h"]):
        text = ANSWERS[name]
        ctx = SimpleNamespace(turn_id=step + 1, agent_id="A", cfg=cfg, input_text="hello", now=None)

        def getter(c, _t=text):
            if _t == "NOADAPTER":
                raise RuntimeError("verif: adapter construction failed")
            return _Planner(_t)
        with E.patched_attr(P, _get_llm_adapter_from_cfg=getter):
            try:
                P.run_policy({"name": "llm"}, {}, cfg, ctx, state=state)
            except Exception as e:      # noqa: BLE001
                return [("TurnArtefactsUntouched", f"run_policy raised {type(e).__name__}: {e} on answer {name!r}")]
        flag = state.get("_planner_reflection_flag") if isinstance(state, dict) else getattr(state, "_planner_reflection_flag", None)
        if bool(flag) and name != "req":
            return [("NothingWhenClosed", f"LLM planner answers {case['h'][:step + 1]} on one state ({type(state).__name__}): after the answer {name!r} "
                                          f"(which requests nothing) the reflection request handed to the orchestrator is {flag!r}")]
    return []


def check_planner_flag(run) -> None:
    import itertools
    from ..util import pmap
    names = sorted(ANSWERS)
    cases = [{"h": list(h), "skind": k} for n in (1, 2, 3) for h in itertools.product(names, repeat=n) if (n < 3 or h[0] == "req" or h[1] == "req")
             for k in range(3) if not run.quick or n < 3 or k == (len(h[2]) % 3)]
    for c, fails in zip(cases, pmap(planner_flag_case, cases, chunk=64)):
        run.traces += 1
        run.case(("planner_flag", json.dumps(c, sort_keys=True)))
        if not fails:
            run.ok("Reflection.planner_request_is_per_turn")
        for clause, msg in fails:
            run.fail(clause, {"clause": clause, "family": "planner_flag"}, c, msg, replay={"planner_flag": c})
