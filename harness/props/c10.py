"""C10 — the agent batch driver commits exactly like a sequential loop.

(M)    AgentBatch.tla: greedy independent batches (successive, nothing dropped), compute-phase staging with
       byte limit and back-pressure drains, ordered commit, final drain; reference = the plain loop.
       ResultsEqual / LogLinesEqualPerFile (premise: pairwise-disjoint graph sets), NothingDropped,
       OverlapNeverSameBatch over all graph-set assignments x worker limits x staging limits x record
       sizes (exhaustive for <= 3 agents); the two faithful variants (drop unselected tasks; an over-sized
       record aborts) are refuted as controls.
(S->C)  contract variant: a run_turn double that follows the documented dry-run contract (emits t1/t2/t4
       records of the chosen sizes, stashes the dry-run artefacts) with the REAL apply_changes, stager,
       log mux and appender, driven through _run_agents_parallel_batch with the gate open (staging limit
       injected through orchestrator.enable_staging) and, as the reference, with the gate closed (the
       driver's own sequential loop).  Compared: per-file lines on disk (bytes, order), results, store
       state, version, snapshot files.  Real-pipeline variant: the real run_turn through the driver.
"""
from __future__ import annotations

import json
import os
import shutil
import tempfile
from types import SimpleNamespace
from typing import Any, Dict, List, Tuple

from ..util import make_cfg, pmap

MANIFEST = {
    "technique": "TLA+ model of the batch driver (independent-batch selection, staged logging with back-pressure, ordered commit) vs the sequential loop, model-checked exhaustively with TLC; every enumerated case replayed on the real driver with a run_turn double that follows the documented dry-run contract and the real apply/stager/mux/appender, compared with the driver's own sequential path",
    "text": "Exhaustive model checking over batches (<= 3 agents, arbitrary graph-set overlap), worker limits, staging limits from below one record upward and record sizes for equality with the sequential loop per log file, results and state, bound to the code by running every case through _run_agents_parallel_batch with the gate open vs closed and comparing on-disk log lines per file, returned results, store contents, version and snapshot files; the real pipeline is additionally driven through the driver.",
    "note": "Contract variant: the compute phase is a double that follows the documented dry-run contract; everything after it (selection, staging, mux, commit, apply, appender) is real. The driver computes its batch in task order in one thread, so 'order in which compute phases finish' is the task order; IndependentOfComputeOrder is checked in the model and on the commit sort only.",
}

UNIT = 120          # bytes of staging estimate per abstract size unit


def _pad_payload(stream: str, agent: str, turn: int, units: int) -> dict:
    """record whose staging estimate (sum(len(str(k))+len(str(v)))+2) is exactly units*UNIT"""
    from clematis.engine.util.io_logging import normalize_for_identity
    base = {"turn": turn, "agent": agent, "stream": stream, "pad": ""}
    norm = normalize_for_identity(stream + ".jsonl", dict(base))
    est = sum(len(str(k)) + len(str(v)) for k, v in norm.items()) + 2
    base["pad"] = "x" * (units * UNIT - est)
    return base


def run_case(case) -> List[Tuple[str, str]]:
    from .. import engine as E
    import clematis.engine.orchestrator as orch
    import clematis.engine.orchestrator.core as core
    import clematis.engine.orchestrator.parallel as par
    from clematis.io.log import append_jsonl
    from clematis.engine.apply import apply_changes
    from clematis.engine.types import ProposedDelta
    from clematis.engine.orchestrator.types import TurnResult
    from clematis.engine.util.io_logging import enable_staging as real_enable_staging
    os.environ["CI"] = "true"
    n = len(case["gsets"])
    # agent ids in TASK order: in two of three cases the task list is not sorted by agent id (the batch must follow the
    # order of the tasks, as the sequential loop does)
    hv0 = sum(len(g_) for g_ in case["gsets"]) + case["workers"] + case["limit"]
    agents = [[f"A{i + 1}" for i in range(3)], ["zulu", "Mike", "alpha"], ["A2", "A10", "A1"]][hv0 % 3][:n]
    if case.get("dup"):
        # every task belongs to ONE agent (a second task of an agent depends on the first one's commit)
        agents = [agents[0]] * n
    sizes = case["size"]
    fails: List[Tuple[str, str]] = []
    work = tempfile.mkdtemp(prefix="c10_", dir=case["workdir"])
    outs = {}
    try:
        # batch: the driver with the parallel gate open; seq: the driver's own sequential path (gate closed);
        # loop: the reference - a plain loop of turns, one proper context per agent, no driver involved
        cadence = {1: 1, 2: 2, 3: 7}.get(case["workers"], 1)       # turn 7: cadence 2 -> no snapshot, 1 and 7 -> snapshot
        # concretisation choices that the model does not distinguish, derived from the case itself:
        hv = sum(len(g_) for g_ in case["gsets"]) + case["workers"] + case["limit"] + sum(sizes.values())
        turn_no = [7, 0, 14][hv % 3]                     # turn id 0 is a legal id
        decl = hv % 4                                    # how the agents' graph sets are declared in the state
        kill_spelling = [None, "false", "off", "0"][(hv // 3) % 4] if not case.get("kill") else None
        for mode in ("batch", "seq", "loop"):
            d = os.path.join(work, mode)
            logdir, snapdir = os.path.join(d, "logs"), os.path.join(d, "snaps")
            os.makedirs(logdir)
            cfg = E.validated_cfg({"t4": {"enabled": not case.get("kill", False), "snapshot_dir": snapdir, "snapshot_every_n_turns": cadence,
                                          "cache_bust_mode": "on-apply", "cache": {"enabled": True, "namespaces": ["t2:semantic"]}},
                                   "perf": {"enabled": True, "parallel": {"enabled": mode == "batch", "agents": True, "max_workers": max(2, case["workers"])}}})
            # worker limit 1 closes the gate by definition; the model's workers=1 is realised with the gate
            # open through the selection limit (max_workers is read again by the selector)
            store = E.RecordingStore()
            state: Dict[str, Any] = {"store": store, "version_etag": "0", "_boot_loaded": True}
            gsets_by = {a: sorted(case["gsets"][i]) for i, a in enumerate(agents)}
            if decl == 0:
                state["graphs_by_agent"] = gsets_by
            elif decl == 1:
                state["agents"] = {a: {"graphs": g_, "persona": "p"} for a, g_ in gsets_by.items()}
            elif decl == 2:       # per-agent metadata without graph sets; the sets live in graphs_by_agent
                state["agents"] = {a: {"persona": "p"} for a in agents}
                state["graphs_by_agent"] = gsets_by
            else:
                state["agents"] = {a: SimpleNamespace(graphs=g_) for a, g_ in gsets_by.items()}
            if kill_spelling is not None:
                # a raw (unvalidated) spelling of the kill-switch value: the turn pipeline reads it with bool(), i.e. a
                # non-empty string means "enabled"; the driver must read it the same way
                cfg["t4"]["enabled"] = kill_spelling
            from clematis.engine.cache import CacheManager
            cm = CacheManager(max_entries=64, ttl_sec=600, time_fn=lambda: 1000.0)
            cm.set("t2:semantic", ("k", 0), "v")
            state["_cache_mgr"] = cm
            ctx = E.mk_ctx(cfg, "driver", turn_no, now=None)

            computes: List[Tuple[str, bool, int]] = []      # (agent, dry-run?, commits seen so far) per compute call

            def double(self, c, st, text, _sizes=sizes, _computes=computes, _store=store):
                agent = str(c.agent_id)
                turn = c.turn_id
                _computes.append((agent, bool(getattr(c, "_dry_run_until_t4", False)), sum(_store.applied.values())))
                killed = not bool((c.cfg.get("t4") or {}).get("enabled", True))
                # one running dict that the turn refills and logs at every stage to a stream that CI normalisation leaves
                # alone: each line must carry the content at the time of its append, also when the driver buffers the lines
                running: Dict[str, Any] = {}
                for s in (("t1", "t2") if killed else ("t1", "t2", "t4")):
                    # (in every other case the records of the LAST agent of the task list are three times as large: a
                    # staging limit may lie between the record sizes of one batch)
                    big = 3 if (hv0 % 2 and agent == agents[-1]) else 1
                    append_jsonl(s + ".jsonl", _pad_payload(s, agent, turn, _sizes[s] * big))
                    running.clear()
                    running.update({"turn": turn, "agent": agent, "stage": s})
                    append_jsonl("t3_plan.jsonl", running)
                deltas = [ProposedDelta("node", f"n:{agent}", "weight", 0.125, op_idx=None, idx=0)]
                utter = f"utter-{agent}-{text}"
                if killed:
                    # kill switch: the real run_turn stops after T2/T3 - no T4 record, nothing stashed for the
                    # driver in dry-run mode, no apply
                    c._dryrun_utter = utter
                    return TurnResult(line=utter, events=[])
                if bool(getattr(c, "_dry_run_until_t4", False)):
                    c._dryrun_t4 = SimpleNamespace(approved_deltas=deltas)
                    c._dryrun_utter = utter
                    c._dryrun_t1 = {"graphs_touched": []}
                    c._dryrun_t2 = {}
                    c._dryrun_plan_reflection = False
                    return TurnResult(line=utter, events=[])
                ap = apply_changes(c, st, SimpleNamespace(approved_deltas=deltas, rejected_ops=[], reasons=[], metrics={}))
                rec = {"turn": turn, "agent": agent, "applied": ap.applied, "clamps": ap.clamps, "version_etag": ap.version_etag,
                       "snapshot": ap.snapshot_path, "cache_invalidations": int((ap.metrics or {}).get("cache_invalidations", 0)), "ms": 0.0}
                append_jsonl("apply.jsonl", rec)
                return TurnResult(line=utter, events=[])

            limit_bytes = case["limit"] * UNIT
            patches = [E.patched_attr(core.Orchestrator, run_turn=double),
                       E.patched_attr(orch, enable_staging=lambda: real_enable_staging(byte_limit=limit_bytes))]
            if mode == "batch" and case["workers"] == 1:
                real_sel = par._select_independent_batch
                patches.append(E.patched_attr(par, _select_independent_batch=lambda ids, st_, mw: real_sel(ids, st_, 1)))
            old = os.environ.get("CLEMATIS_LOG_DIR")
            os.environ["CLEMATIS_LOG_DIR"] = logdir
            for p in patches:
                p.__enter__()
            raised, results = None, []
            try:
                if mode == "loop":
                    results = [double(None, E.mk_ctx(cfg, a, turn_no, now=None), state, f"text{i}") for i, a in enumerate(agents)]
                else:
                    results = par._run_agents_parallel_batch(ctx, state, [(a, f"text{i}") for i, a in enumerate(agents)])
            except Exception as e:
                raised = f"{type(e).__name__}: {e}"
            finally:
                for p in reversed(patches):
                    p.__exit__(None, None, None)
                try:
                    from clematis.engine.util.io_logging import disable_staging
                    disable_staging()
                except Exception:
                    pass
                if old is None:
                    os.environ.pop("CLEMATIS_LOG_DIR", None)
                else:
                    os.environ["CLEMATIS_LOG_DIR"] = old
            files = {}
            for f in sorted(os.listdir(logdir)):
                with open(os.path.join(logdir, f), "rb") as fh:
                    files[f] = fh.read().replace(d.encode(), b"<D>").splitlines()
            snaps = {}
            if os.path.isdir(snapdir):
                for f in sorted(os.listdir(snapdir)):
                    with open(os.path.join(snapdir, f), "rb") as fh:
                        snaps[f] = fh.read()
            outs[mode] = {"raised": raised, "results": [r.line for r in results], "files": files, "snaps": snaps, "computes": list(computes),
                          "applied": dict(store.applied), "weights": dict(store.weights), "version": state.get("version_etag")}
        b, l, sq = outs["batch"], outs["loop"], outs["seq"]
        # the driver's sequential path is the plain loop, whatever the graph sets
        if sq["raised"]:
            fails.append(("ResultsEqual", f"gsets={case['gsets']} cadence={cadence}: the driver's sequential path raised {sq['raised']}"))
        else:
            for fld in ("results", "applied", "weights", "version", "files"):
                if sq[fld] != l[fld]:
                    det = ""
                    if fld == "files":
                        f = next(f for f in sorted(set(sq["files"]) | set(l["files"])) if sq["files"].get(f) != l["files"].get(f))
                        det = f" ({f}: {(sq['files'].get(f) or [None])[0]!r:.200} vs {(l['files'].get(f) or [None])[0]!r:.200})"
                    fails.append(("FinalStateEqual" if fld in ("applied", "weights", "version") else ("LogLinesEqualPerFile" if fld == "files" else "ResultsEqual"),
                                  f"gsets={case['gsets']} cadence={cadence}: the driver's sequential path differs from the plain loop in {fld}{det}"))
                    break
            if sorted(sq["snaps"]) != sorted(l["snaps"]):
                fails.append(("FinalStateEqual", f"gsets={case['gsets']} cadence={cadence}: snapshot files of the driver's sequential path {sorted(sq['snaps'])} "
                                                 f"vs the plain loop {sorted(l['snaps'])}"))
        where = (f"gsets={case['gsets']} workers={case['workers']} limit={case['limit']} sizes={sizes} turn={turn_no} decl={decl}"
                 + (f" t4.enabled={kill_spelling!r}" if kill_spelling is not None else "") + (" KILL-SWITCH" if case.get("kill") else ""))
        if case.get("kill") and (b["applied"] or str(b["version"]) != "0" or b["files"].get("apply.jsonl") or b["snaps"]):
            fails.append(("FinalStateEqual", f"{where}: kill switch on, but the batch driver applied {b['applied']}, version {b['version']!r}, "
                                             f"{len(b['files'].get('apply.jsonl', []))} apply record(s), snapshots {sorted(b['snaps'])}; "
                                             f"the sequential loop: applied {l['applied']}, version {l['version']!r}"))
        if case.get("dup"):
            # two tasks of one agent: the model's agents are distinct, so only the batching rule is judged here - tasks that
            # were computed against the same pre-commit state form one batch, and one agent's graphs overlap themselves
            if not b["raised"]:
                per_seen: Dict[int, int] = {}
                for agent, dry, seen in b["computes"]:
                    if dry:
                        per_seen[seen] = per_seen.get(seen, 0) + 1
                if any(v_ > 1 for v_ in per_seen.values()) and case["gsets"][0]:
                    fails.append(("OverlapNeverSameBatch", f"{where}: {n} tasks of the one agent {agents[0]!r} (graphs {case['gsets'][0]}): {max(per_seen.values())} of them were "
                                                           f"computed against the same pre-commit state in one batch"))
                # ... and the turn that is computed for the agent is its FIRST queued task (the sequential loop runs the tasks in
                # the order of the list; a later task of the agent depends on the earlier one's commit)
                if b["results"] and b["results"][0] != f"utter-{agents[0]}-text0":
                    fails.append(("ResultsEqual", f"{where}: {n} tasks of the one agent {agents[0]!r} queued as text0..text{n - 1}: the first turn the batch returns is "
                                                  f"{b['results'][0]!r}, the sequential loop starts with 'utter-{agents[0]}-text0'"))
            return fails
        # ---- the model's prediction for the batch path ----
        if b["raised"]:
            fails.append(("IndependentOfStagingLimit" if "BACKPRESSURE" in b["raised"] else "ResultsEqual", f"{where}: driver raised {b['raised']}"))
            return fails
        want_results = [f"utter-{agents[i - 1]}-text{i - 1}" for i in case["results"]]
        if len(b["results"]) < n and b["results"] == want_results[:len(b["results"])] and len(case["batches"]) > 1:
            # tasks that were not selected for the (first) batch are silently dropped: every later difference
            # is a consequence of this one
            ran = len(b["results"])
            why = "worker-limit" if case["disjoint"] else "overlap"
            return [("NothingDropped", f"{where}: only {ran} of {n} tasks were run (first batch {case['batches'][0]}); the rest were dropped ({why})")]
        if b["results"] != want_results:
            fails.append(("ResultsEqual", f"{where}: results {b['results']}, spec {want_results}"))
        for s in ("t1", "t2", "t4", "apply"):
            got = []
            for line in b["files"].get(s + ".jsonl", []):
                rec = json.loads(line)
                got.append(agents.index(str(rec["agent"])) + 1 if str(rec["agent"]) in agents else -1)
            want = [r[0] for r in case["files"][s]]
            if got != want:
                fails.append(("LogLinesEqualPerFile", f"{where}: {s}.jsonl agent order {got}, spec {want}"))
        # overlap: agents computed against the same pre-commit state (dry-run computes that saw the same number of
        # commits) form one real batch; no two of them may share a graph, and the first one is the model's first batch
        groups: Dict[int, List[int]] = {}
        for agent, dry, seen in b["computes"]:
            if dry:
                groups.setdefault(seen, []).append(agents.index(str(agent)) + 1)
        for seen, members in sorted(groups.items()):
            for x in range(len(members)):
                for y in range(x + 1, len(members)):
                    shared = set(case["gsets"][members[x] - 1]) & set(case["gsets"][members[y] - 1])
                    if shared:
                        fails.append(("OverlapNeverSameBatch", f"{where}: agents {members[x]} and {members[y]} share {sorted(shared)} "
                                                               f"but were computed in the same batch {members}"))
        if groups and case["workers"] > 1:
            first = groups[min(groups)]
            if first != list(case["batches"][0]):
                fails.append(("OverlapNeverSameBatch", f"{where}: first batch computed {first}, spec {list(case['batches'][0])}"))
        # ---- equality with the sequential loop (premise: pairwise disjoint) ----
        if case["disjoint"]:
            if b["results"] != l["results"]:
                fails.append(("ResultsEqual", f"{where}: batch {b['results']} vs loop {l['results']}"))
            if (b["applied"], b["weights"], b["version"]) != (l["applied"], l["weights"], l["version"]):
                fails.append(("FinalStateEqual", f"{where}: store/version batch {(b['applied'], b['version'])} vs loop {(l['applied'], l['version'])}"))
            for f in sorted(set(b["files"]) | set(l["files"])):
                if b["files"].get(f) != l["files"].get(f):
                    bl, ll = b["files"].get(f, []), l["files"].get(f, [])
                    k = next((i for i, (x, y) in enumerate(zip(bl, ll)) if x != y), min(len(bl), len(ll)))
                    fails.append(("LogLinesEqualPerFile", f"{where}: {f} line {k}: batch {bl[k][:200] if k < len(bl) else None} vs loop {ll[k][:200] if k < len(ll) else None}"))
            if sorted(b["snaps"]) != sorted(l["snaps"]):
                fails.append(("FinalStateEqual", f"{where}: snapshot files batch {sorted(b['snaps'])} vs loop {sorted(l['snaps'])}"))
        return fails
    finally:
        shutil.rmtree(work, ignore_errors=True)


def real_pipeline_case(case) -> List[Tuple[str, str]]:
    """the real run_turn through the driver vs the sequential loop (2 agents on disjoint graphs)"""
    from .. import engine as E
    import clematis.engine.orchestrator.parallel as par
    os.environ["CI"] = "true"
    work = tempfile.mkdtemp(prefix="c10r_", dir=case["workdir"])
    outs = {}
    try:
        for mode in ("batch", "loop"):
            d = os.path.join(work, mode)
            cfg = E.validated_cfg({"t4": {"snapshot_dir": os.path.join(d, "snaps")}, "t1": {"cache": {"enabled": False}},
                                   "t2": {"cache": {"enabled": False}, "sim_threshold": -1.0},
                                   "perf": {"enabled": True, "parallel": {"enabled": mode == "batch", "agents": True, "max_workers": 3}}})
            graphs = dict(E.DEFAULT_GRAPHS)
            graphs["g:b"] = {"nodes": [("m:apple", "apple", [])], "edges": []}
            st = E.mk_state(graphs, E.default_episodes())
            st["graphs_by_agent"] = {"A": ["g:surface"], "B": ["g:b"]}
            ctx = E.mk_ctx(cfg, "driver", 1)
            E.reset_global_caches()
            raised, lines = None, []
            with E.LogCapture(write_through=True, log_dir=os.path.join(d, "logs")) as cap:
                try:
                    lines = [r.line for r in par._run_agents_parallel_batch(ctx, st, [("A", "apple"), ("B", "banana")])]
                except Exception as e:
                    raised = f"{type(e).__name__}: {e}"
            outs[mode] = (raised, lines, [s for s, _ in cap.records])
        if outs["batch"][0]:
            return [("ResultsEqual", f"real pipeline through the driver raised {outs['batch'][0]}")]
        if outs["batch"][1] != outs["loop"][1]:
            return [("ResultsEqual", f"real pipeline: batch {outs['batch'][1]} vs loop {outs['loop'][1]}")]
        return []
    finally:
        shutil.rmtree(work, ignore_errors=True)


def check(run) -> None:
    q = run.quick
    run.rule = ("every (graph sets, worker limit, staging limit, record sizes) case of the exhaustively enumerated AgentBatch model replayed on the real driver "
                "(contract variant) against the driver's sequential path; distinct = distinct case")
    invs = ["ResultsEqual", "LogLinesEqualPerFile", "NothingDropped", "OverlapNeverSameBatch"]
    all_cases = []
    for n in ([2, 3] if q else [1, 2, 3]):
        consts = {"N": n, "Graphs": ["g1", "g2"] if (q or n == 3) else ["g1", "g2", "g3"], "WorkerVals": [1, 2, 3], "LimitVals": [1, 2, 4, 100],
                  "SizeVals": [1, 3], "KillVals": [False], "DropUnpicked": False, "RetryFailsWhenTooBig": False}
        cfg = make_cfg(consts, invs, [], emit=False, view=None, constraint="EmitCase")
        res = run.tlc("AgentBatch", cfg, name=f"AgentBatch_n{n}", workers=8, timeout_s=1500)
        run.model_must_hold(res)
        all_cases += res.emitted
    # kill switch on: nothing is applied by either path
    consts = {"N": 2, "Graphs": ["g1", "g2"], "WorkerVals": [1, 2], "LimitVals": [1, 100] if q else [1, 2, 100], "SizeVals": [1] if q else [1, 3],
              "KillVals": [True], "DropUnpicked": False, "RetryFailsWhenTooBig": False}
    cfg = make_cfg(consts, invs + ["KillSwitchInert"], [], emit=False, view=None, constraint="EmitCase")
    res = run.tlc("AgentBatch", cfg, name="AgentBatch_kill", workers=4, timeout_s=600)
    run.model_must_hold(res)
    all_cases += res.emitted
    for flag in ("DropUnpicked", "RetryFailsWhenTooBig"):
        consts = {"N": 2, "Graphs": ["g1", "g2"], "WorkerVals": [1, 2], "LimitVals": [1, 4], "SizeVals": [1, 3], "KillVals": [False],
                  "DropUnpicked": flag == "DropUnpicked", "RetryFailsWhenTooBig": flag == "RetryFailsWhenTooBig"}
        cfg = make_cfg(consts, ["ResultsEqual"], [], emit=False, view=None)
        res = run.tlc("AgentBatch", cfg, name=f"AgentBatch_control_{flag}", workers=4, timeout_s=600)
        if res.violation is None:
            from ..tlc import TLCError
            raise TLCError(f"AgentBatch control {flag} should violate ResultsEqual")
        run.ok(f"Model.control_{flag}_refuted")
    cases = []
    seen_in_group: Dict[str, int] = {}
    for c in sorted(all_cases, key=lambda c: json.dumps(c, sort_keys=True)):
        if q and len(c["gsets"]) == 3:
            # every (graph sets, worker limit) selection case is kept; the staging-limit / record-size grid is thinned
            g = json.dumps([c["gsets"], c["workers"]])
            k = seen_in_group[g] = seen_in_group.get(g, -1) + 1
            if k % 6:
                continue
        cases.append(dict(c, workdir=run.workdir))
        if len(c["gsets"]) >= 2 and c["gsets"][0] and c["workers"] >= 2 and not c.get("kill") and len(cases) % 7 == 0:
            cases.append(dict(c, workdir=run.workdir, dup=True))
    run.extra["cases_in_model"] = len(all_cases)
    outs = pmap(run_case, cases, chunk=8)
    for c, fails in zip(cases, outs):
        run.traces += 1
        cc = {k: v for k, v in c.items() if k != "workdir"}
        run.case(json.dumps(cc, sort_keys=True))
        if not fails:
            run.ok("AgentBatch.conforms")
        for clause, msg in fails:
            cause = "same-agent-twice" if c.get("dup") else "dropped-task" if clause == "NothingDropped" else ("oversized-record" if "BACKPRESSURE" in msg else ("snapshot-path" if "snapshot" in msg else "other"))
            run.fail(clause, {"clause": clause, "variant": "contract", "cause": cause}, cc, msg, replay={"case": cc})
    run.sample({"case": {k: v for k, v in cases[len(cases) // 2].items() if k != "workdir"}}, cap=2)
    fails = real_pipeline_case({"workdir": run.workdir})
    run.traces += 1
    run.case("real_pipeline")
    if not fails:
        run.ok("AgentBatch.real_pipeline_conforms")
    for clause, msg in fails:
        run.fail(clause, {"clause": clause, "variant": "real_pipeline"}, {}, msg, replay={"real": True})
    run.exhaustive = True
    run.assumptions += ["compute phase replaced by a double that follows the documented dry-run contract (contract variant)"]


def replay(rep) -> int:
    os.makedirs("/verif/.work/C10", exist_ok=True)
    r = rep["replay"]
    fails = real_pipeline_case({"workdir": "/verif/.work/C10"}) if r.get("real") else run_case(dict(r["case"], workdir="/verif/.work/C10"))
    for f in fails:
        print(": ".join(f))
    if fails:
        print(f"VIOLATION property=C10 replay={rep.get('_path', '?')}")
        return 1
    print("replay: conforms")
    return 0
