"""C17 — scheduling: deterministic selection, eligibility/reset, starvation bound, yield rule.

(M)    Scheduler.tla explored exhaustively to a bounded depth for 2..4 agents, both policies,
       allowance/aging/rotation settings, clock-advance alphabets: ChosenEligibleOrReset, WaitBound,
       CountersBounded as invariants; liveness (everyone runs again) under fairness on the
       clock-abstracted model.  YieldRule.tla: all budget x consumption x elapsed combinations.
(S->C)  every transition of the Scheduler graphs replayed on next_turn / on_yield (pure-ness of the
       selection, whole SchedulerState after every yield); every YieldRule case on _should_yield.
(C->S)  long random real histories (10^3..10^4 steps) validated by TLC (SchedulerTrace) including the
       starvation bound on the real sequence of picks.
Stage budgets / yield-at-boundary inside run_turn are bound in c17_turn (engine runs).
"""
from __future__ import annotations

import copy
import json
from types import SimpleNamespace
from typing import Any, Dict, List, Tuple

from ..util import make_cfg, pmap, rng

MANIFEST = {
    "technique": "TLA+ scheduler and yield-rule specs model-checked with TLC (invariants incl. the starvation bound, liveness under fairness); all transitions replayed on next_turn/on_yield/_should_yield; random long real histories and engine runs with scripted clocks validated against the specs by TLC",
    "text": "Bounded-depth exhaustive model checking of the selection/yield state machine for 2-4 agents over both policies, allowance, aging, rotation and clock-advance alphabets (eligibility-or-reset, wait bound 2(n-1)*allowance+1, liveness), bound to the code by transition-coverage replay on the real scheduler functions and by trace validation of long random histories and of real run_turn executions with the scheduler gate open (yield only at stage boundaries, reason precedence, stage counters within slice budgets).",
    "note": "Exploration depth is bounded (<= 40-60 steps, clock <= MaxNow); the starvation bound is an invariant of all explored prefixes, not a proof for unbounded histories. Agent ids are mapped order-preservingly to strings whose lexicographic order differs from numeric-suffix order (a10 < a2).",
}

NAMES = {1: "a10", 2: "a2", 3: "b", 4: "c"}      # lexicographic order = integer order
INV = {v: k for k, v in NAMES.items()}


def _ctx(now):
    return SimpleNamespace(now_ms=lambda: now)


def _mk_sched(pre):
    n = len(pre["lastran"])
    return {
        "queue": [NAMES[a] for a in pre["queue"]],
        "last_ran_ms": {NAMES[i + 1]: pre["lastran"][i] for i in range(n)},
        "consec_turns": {NAMES[i + 1]: pre["consec"][i] for i in range(n)},
    }


def replay_sched(case) -> List[Tuple[str, str]]:
    from clematis.engine.scheduler import next_turn, on_yield
    consts, t = case
    fails: List[Tuple[str, str]] = []
    o = t["obs"]
    if o["op"] in ("advance", "leave"):      # the clock and the driver's own queue edits: nothing of the scheduler is called
        return fails
    pre, post = t["pre"], t["post"]
    sched = _mk_sched(pre)
    fair = {"aging_ms": consts["Aging"], "max_consecutive_turns": consts["Mct"]}
    ctx = _ctx(pre["now"])
    if o["op"] == "select":
        before = copy.deepcopy(sched)
        r1 = next_turn(ctx, sched, consts["Policy"], fair)
        r2 = next_turn(ctx, sched, consts["Policy"], fair)
        if (r1[0], r1[2]) != (r2[0], r2[2]):
            fails.append(("SelectionFunctional", f"two identical calls differ: {r1} vs {r2}"))
        if sched != before:
            fails.append(("SelectionFunctional", f"next_turn mutated the scheduler state: {before} -> {sched}"))
        want = (NAMES[o["agent"]], o["reason"])
        if (r1[0], r1[2]) != want:
            clause = "ChosenEligibleOrReset"
            fails.append((clause, f"next_turn -> {(r1[0], r1[2])}, spec says {want} in {sched} now={pre['now']}"))
    elif o["op"] == "yield":
        a = NAMES[o["agent"]]
        on_yield(ctx, sched, a, {"ms": 1}, "QUANTUM_EXCEEDED", fair, reset=o["reset"])
        if consts["Policy"] == "round_robin" and consts["Rotate"]:
            q = sched["queue"]
            q.remove(a)
            q.append(a)
        want = _mk_sched(post)
        if sched != want:
            fails.append(("YieldBookkeeping", f"after on_yield({a}, reset={o['reset']}): {sched}, spec says {want}"))
    return fails


def replay_yieldrule(case) -> List[Tuple[str, str]]:
    from clematis.engine.orchestrator import core as oc
    budgets = {k: v for k, v in case["budgets"].items() if v != -1}
    if case["wall"] != -1:
        budgets["wall_ms"] = case["wall"]
    budgets["quantum_ms"] = case["quantum"]
    consumed = dict(case["consumed"])
    consumed["ms"] = case["elapsed"]
    sl = {"slice_idx": 1, "started_ms": 0, "budgets": budgets, "agent_id": "A"}
    b0, c0 = copy.deepcopy(budgets), copy.deepcopy(consumed)
    r = oc._should_yield(sl, consumed)
    fails: List[Tuple[str, str]] = []
    if budgets != b0 or consumed != c0:
        fails.append(("YieldOnlyAtBoundary", "_should_yield mutated its arguments"))
    want = case["reason"]
    if want == "NONE":
        ok = r is None
    elif want == "BUDGET":
        hits = {"BUDGET_" + h.upper() for h in case["hits"]}
        ok = r in hits
    else:
        ok = r == want
    if not ok:
        fails.append(("ReasonPrecedence", f"_should_yield({budgets}, {consumed}) -> {r!r}, spec says {want} (hits {case['hits']})"))
    return fails


# ---- random real histories (C->S) --------------------------------------------------------------
def gen_history(args):
    from clematis.engine.scheduler import next_turn, on_yield, init_scheduler_state
    seed, tidn, n, policy, mct, aging, rotate, steps = args
    r = rng(seed, "sched", tidn)
    names = [NAMES[i + 1] for i in range(n)]
    clock = {"t": 0}
    ctx = SimpleNamespace(now_ms=lambda: clock["t"])
    sched = init_scheduler_state(list(reversed(names)), now_ms=0)
    fair = {"aging_ms": aging, "max_consecutive_turns": mct}
    ev: List[Dict[str, Any]] = []
    for _ in range(steps):
        if r.random() < 0.5:
            dt = r.choice([0, 1, 50, 99, 100, 250, 1000])
            clock["t"] += dt
            ev.append({"op": "advance", "dt": dt})
        a, _b, reason = next_turn(ctx, sched, policy, fair)
        ev.append({"op": "select", "agent": INV[a], "reason": reason})
        if r.random() < 0.5:
            dt = r.choice([0, 5, 100, 130])
            clock["t"] += dt
            ev.append({"op": "advance", "dt": dt})
        on_yield(ctx, sched, a, {}, "X", fair, reset=(reason == "RESET_CONSEC"))
        if policy == "round_robin" and rotate:
            sched["queue"].remove(a)
            sched["queue"].append(a)
        ev.append({"op": "yield", "agent": INV[a], "queue": [INV[x] for x in sched["queue"]],
                   "consec": [sched["consec_turns"][nm] for nm in names],
                   "lastlo": [sched["last_ran_ms"][nm] % 100000 for nm in names],
                   "lasthi": [sched["last_ran_ms"][nm] // 100000 for nm in names]})
    return {"tid": tidn, "ev": ev}


def check(run) -> None:
    q = run.quick
    run.rule = ("every transition of the bounded-depth exhaustive Scheduler state graphs (per policy/allowance/aging/rotation "
                "setting) replayed on next_turn/on_yield; every YieldRule combination on _should_yield; random long real "
                "histories trace-validated; distinct = distinct (constants, transition) / case / trace")
    grid = []
    for n in ([2, 3] if q else [2, 3, 4]):
        for policy in ("round_robin", "fair_queue"):
            for mct in ([1, 2] if q else [1, 2, 3]):
                for aging in ([100] if policy == "round_robin" else [0, 100]):
                    for rot in ([False, True] if policy == "round_robin" else [False]):
                        grid.append((n, policy, mct, aging, rot))
    invs = ["ChosenEligibleOrReset", "WaitBound", "CountersBounded", "QueueIsPermutation"]
    # the same grid cell may also run with agents leaving the queue (3 agents; saturation with a removed agent that
    # sorts before every queued one)
    grid = [g + (False,) for g in grid] + [(3, pol, m, 100, pol == "round_robin", True) for pol in ("round_robin", "fair_queue") for m in ((1,) if q else (1, 2))]
    # ... and with a state whose last-ran stamps lie ahead of the turn clock (init_scheduler_state(now_ms=250), clock from 0)
    grid = [g + (0,) for g in grid] + [(n_, pol, 1, 100, False, False, 250) for n_ in (2, 3) for pol in ("round_robin", "fair_queue")]
    for (n, policy, mct, aging, rot, leave, stamp) in grid:
        depth = ((26 if n <= 2 else 20) if q else (40 if n <= 3 else 30)) if not leave else (14 if q else 20)
        consts = {"N": n, "Policy": policy, "Mct": mct, "Aging": aging, "Rotate": rot,
                  "Advances": ([0, 100, 250] if policy == "fair_queue" and aging else [0, 100]),
                  "MaxNow": 500 if q else 800, "MaxDepth": depth, "AllowLeave": leave, "InitStamp": stamp}
        cfg = make_cfg(consts, invs, [], constraint="DepthOK")
        name = f"Sched_n{n}_{policy[:2]}_m{mct}_a{aging}_r{int(rot)}" + ("_leave" if leave else "") + (f"_stamp{stamp}" if stamp else "")
        res = run.tlc("Scheduler", cfg, name=name, workers=1, timeout_s=900)
        run.model_must_hold(res)
        cases = [(consts, t) for t in res.emitted if t["obs"]["op"] not in ("advance", "leave")]
        # pre-states differing only in `since`/`pend` are identical for the implementation
        seen = set()
        uniq = []
        for c in cases:
            key = json.dumps([c[1]["pre"]["queue"], c[1]["pre"]["lastran"], c[1]["pre"]["consec"],
                              c[1]["pre"]["now"], c[1]["obs"]], sort_keys=True)
            if key not in seen:
                seen.add(key)
                uniq.append(c)
        outs = pmap(replay_sched, uniq)
        for (c, t), fails in zip(uniq, outs):
            run.traces += 1
            run.case(("sched", name, json.dumps(t, sort_keys=True)))
            if not fails:
                run.ok("Scheduler.conforms")
            for clause, msg in fails:
                run.fail(clause, {"family": "scheduler", "op": t["obs"]["op"], "policy": policy},
                         {"constants": c, "transition": t}, msg,
                         replay={"family": "scheduler", "constants": c, "transition": t})
        if uniq:
            run.sample({"family": "scheduler", "constants": consts, "transition": uniq[len(uniq) // 2][1]}, cap=10)
    # liveness on the clock-abstracted model
    for (n, policy, mct) in ([(3, "round_robin", 2)] if q else [(3, "round_robin", 2), (3, "fair_queue", 2), (4, "round_robin", 1)]):
        consts = {"N": n, "Policy": policy, "Mct": mct, "Aging": 0, "Rotate": policy == "round_robin",
                  "Advances": [], "MaxNow": 0, "MaxDepth": 0, "AllowLeave": False, "InitStamp": 0}
        cfg = make_cfg(consts, ["WaitBound"], ["EveryoneRuns"], spec="Fair", emit=False, view=None)
        res = run.tlc("Scheduler", cfg, name=f"SchedLive_n{n}_{policy[:2]}_m{mct}", workers=1, timeout_s=600)
        run.model_must_hold(res)
        run.ok("Liveness.EveryoneRuns")
    # ---- YieldRule ----
    consts = {"BudgetVals": [0, 1, 2], "WallVals": [1, 3], "QuantumVals": [1, 2],
              "ElapsedVals": [0, 1, 2, 3], "AbsentConsumed": [0] if q else [0, 2]}
    cfg = make_cfg(consts, ["WallFirst", "BudgetBeforeQuantum", "NoSpuriousYield"], [], emit=False,
                   view=None, constraint="EmitCase")
    res = run.tlc("YieldRule", cfg, name="YieldRule", workers=8, timeout_s=900)
    run.model_must_hold(res)
    outs = pmap(replay_yieldrule, res.emitted)
    for case, fails in zip(res.emitted, outs):
        run.traces += 1
        run.case(("yieldrule", json.dumps(case, sort_keys=True)))
        if not fails:
            run.ok("YieldRule.conforms")
        for clause, msg in fails:
            run.fail(clause, {"family": "yieldrule", "want": case["reason"]}, case, msg,
                     replay={"family": "yieldrule", "case": case})
    run.sample({"family": "yieldrule", "case": res.emitted[len(res.emitted) // 3]}, cap=10)
    # ---- random histories, trace validation ----
    tidn = 0
    for (n, policy, mct, aging, rot) in ([(3, "round_robin", 2, 100, True), (3, "fair_queue", 2, 100, False),
                                           (4, "fair_queue", 1, 200, False), (4, "round_robin", 3, 0, False)] if q else
                                          [g[:5] for g in grid if g[0] >= 3 and not g[5]]):
        per = 6 if q else 10
        steps = 400 if q else 2000
        args = []
        for _ in range(per):
            tidn += 1
            args.append((run.seed, tidn, n, policy, mct, aging, rot, steps))
        traces = pmap(gen_history, args, chunk=1)
        ctl = copy.deepcopy(traces[0])
        ctl["tid"] = -ctl["tid"]
        sel = [e for e in ctl["ev"] if e["op"] == "select"]
        sel[len(sel) // 2]["agent"] = sel[len(sel) // 2]["agent"] % n + 1
        consts = {"N": n, "Policy": policy, "Mct": mct, "Aging": aging, "Rotate": rot,
                  "Advances": [], "MaxNow": 0, "MaxDepth": 0, "AllowLeave": False, "InitStamp": 0}
        v = run.validate_traces("SchedulerTrace", consts, traces + [ctl], name=f"SchedTrace_{tidn}")
        for t in traces + [ctl]:
            verdict, pos = v[t["tid"]]
            if t["tid"] < 0:
                if verdict == "ok":
                    from ..tlc import TLCError
                    raise TLCError("scheduler negative control accepted")
                run.ok("Scheduler.negative_control_rejected")
                continue
            run.traces += 1
            run.case(("schedtrace", t["tid"], str(consts)))
            if verdict == "ok":
                run.ok("Scheduler.trace_accepted")
            else:
                e = t["ev"][pos - 1] if 0 < pos <= len(t["ev"]) else None
                run.fail(verdict, {"family": "scheduler", "direction": "trace", "policy": policy},
                         {"constants": consts, "event": e, "position": pos}, f"scheduler trace {t['tid']} rejected at {pos}: {e} ({verdict})",
                         replay={"family": "scheduler.trace", "constants": consts, "args": [run.seed, t["tid"], n, policy, mct, aging, rot, steps]})
    run.exhaustive = False
    from . import c17_turn
    c17_turn.check(run)
    run.assumptions += ["bounded depth / bounded clock for the exhaustive scheduler exploration",
                        "stage consumption never exceeds a present budget when the yield rule is consulted (the stages clamp)"]


def replay(rep) -> int:
    r = rep["replay"]
    fam = r["family"]
    if fam == "scheduler":
        fails = replay_sched((r["constants"], r["transition"]))
    elif fam == "yieldrule":
        fails = replay_yieldrule(r["case"])
    else:
        from . import c17_turn
        fails = c17_turn.replay(r)
    for clause, msg in fails:
        print(f"{clause}: {msg}")
    if fails:
        print(f"VIOLATION property=C17 replay={rep.get('_path', '?')}")
        return 1
    print("replay: conforms")
    return 0
