"""C05 — caches are transparent: a hit equals a fresh computation.

(M)    CacheKeys.tla: stage results as records of their true dependencies, keys as the code builds them
       (constant KeyHas = the dependency components the current keys cover).  TLC explores all
       histories over {turn(state, agent, text), edit weight, add node, add episode, clear index,
       toggle kill switch, set k, set owner scope, next day} for two engine states that share the
       process-global stage caches: with the full key set HitEqualsFresh holds (exhaustive to the
       bound); with the keys of the current code TLC emits a witness history for every stale hit.
(S->C)  every witness and a large sample of ordinary behaviours (-simulate) is replayed on the real engine
       twice in lock-step — all caches on vs all caches off — comparing T1Result (deltas + non-diagnostic
       counters) and T2Result (ids, order, scores, residual deltas, k_used ...) after every turn.
       A real mismatch the model does not predict is a violation; a predicted stale hit that
       reproduces is matched against known findings per (cache, cause) pair.
"""
from __future__ import annotations

import copy
import datetime as dt
import json
import os
import shutil
import tempfile
from typing import Any, Dict, List, Tuple

from ..util import make_cfg, pmap

MANIFEST = {
    "technique": "TLA+ model of cache keys vs true dependencies (two engine states sharing the process-global stage caches) model-checked with TLC; every stale-hit witness and thousands of simulated behaviours replayed on the real engine in lock-step with all caches on vs off, comparing T1/T2 results after every turn; mismatches attributed to (cache, missing key component)",
    "text": "Exhaustive bounded model checking of HitEqualsFresh over mutation histories (graph edits, memory adds/clears, applies, agent/state switches, config changes, kill switch) with the key composition of the current code as a model constant, bound to the code by differential replay of TLC-generated histories on the real run_turn (caches on vs off) with T1/T2 results compared after every turn; any real mismatch not predicted by the model, or predicted but not listed as a known finding, is a violation.",
    "note": "Two engine states, two agents, two texts, <= 2 episodes per index, histories <= 5-6 steps exhaustively (simulated beyond). The world is chosen so that each dependency component changes the real result; a predicted stale hit that does not change the real result is counted as unconfirmed, not as an alarm. Diagnostics (cache_* counters, max_delta) are excluded as the property says.",
}

ALL_KEYS = ["t1.content", "t1.state", "t1.perf", "t1.caps", "t2.view", "t2.k", "t2.day", "t2.graph", "t2.index",
            "tl.view", "tl.k", "tl.day", "tl.graph", "tl.mem"]
# model of the current code: which dependency components its cache keys cover (see DESIGN.md C05)
KEY_HAS_CURRENT: List[str] = list(ALL_KEYS)   # after the three key fixes (known_findings.json: C05-*)

CAUSE_TO_KEY = {  # (cache, differing dependency) -> key component whose absence explains it
    ("t1", "gw"): "t1.content", ("t1", "gn"): "t1.content", ("t1", "gd"): "t1.content", ("t1", "cap"): "t1.perf", ("t1", "relax"): "t1.caps", ("t1", "ord"): "t1.state",
    ("t2", "tod"): "t2.day", ("tl", "tod"): "tl.day",
    ("t2", "view"): "t2.view", ("t2", "k"): "t2.k", ("t2", "day"): "t2.day", ("t2", "graph"): "t2.graph", ("t2", "mem"): "t2.index",
    ("tl", "view"): "tl.view", ("tl", "k"): "tl.k", ("tl", "day"): "tl.day", ("tl", "graph"): "tl.graph", ("tl", "mem"): "tl.mem",
    ("tl", "r1"): "tl.graph", ("t2", "r1"): "t1.content",
}

DIAG_T1 = {"cache_hits", "cache_misses", "cache_used", "cache_enabled", "max_delta"}
DIAG_T2 = {"cache_hits", "cache_misses", "cache_used", "cache_enabled", "backend", "backend_fallback"}

EPS = {"eA": ("A", "apple banana story with bread"), "eB": ("B", "apple pie and banana bread")}
DAY0 = "2025-09-01T00:30:00Z"
DAY1 = "2025-10-20T00:30:00Z"   # 49 days later: leaves the 30-day exact window, changes recency
LATE = "T23:30:00Z"             # time of day 1: same calendar day, 23 h later (recency term differs)


def _graphs():
    return {"g:surface": {
        # n:p1 / n:p2: isolated nodes; "story" occurs in a memory text (residual nudges), never in a query, "zebra" nowhere
        "nodes": [("n:apple", "apple", []), ("n:banana", "banana", []), ("n:cherry", "cherry", []), ("n:p1", "story", []), ("n:p2", "zebra", [])],
        "edges": [("e1", "n:apple", "n:banana", 0.9, "supports"), ("e2", "n:banana", "n:cherry", 0.9, "supports"),
                  ("e3", "n:cherry", "n:apple", 0.5, "associates")]},
        # a second active graph that matches the same texts: per-graph cache entries are combined per turn
        # m:apple fans out to three neighbours and the weakest one is the only way to m:grape: the perf
        # frontier cap of 2 (effective only while perf.enabled) changes what T1 touches
        "g:two": {"nodes": [("m:apple", "apple", []), ("m:banana", "banana", []), ("m:date", "date", []),
                            ("m:elder", "elder", []), ("m:fig", "fig", []), ("m:grape", "grape", [])],
                  "edges": [("f1", "m:apple", "m:date", 0.8, "supports"), ("f2", "m:banana", "m:date", 0.7, "associates"),
                            ("f3", "m:apple", "m:elder", 0.5, "supports"), ("f4", "m:apple", "m:fig", 0.2, "supports"),
                            ("f5", "m:fig", "m:grape", 1.0, "supports")]}}


def _proj_t1(t1):
    m = {k: v for k, v in (t1.metrics or {}).items() if k not in DIAG_T1 and not k.startswith("t1.")}
    return {"deltas": t1.graph_deltas, "metrics": m}


def _proj_t2(t2):
    m = {k: v for k, v in (getattr(t2, "metrics", {}) or {}).items() if k not in DIAG_T2 and not k.startswith("t2.")}
    return {"retrieved": [(str(getattr(r, "id", None)), round(float(getattr(r, "score", 0.0)), 9)) for r in (t2.retrieved or [])],
            "residual": t2.graph_deltas_residual, "metrics": m}


class World:
    def __init__(self, cached: bool, workdir: str, init_eps=(), twin: bool = False):
        from .. import engine as E
        self.E = E
        self.cached = cached
        self.twin = twin
        self.states = {}
        self.snapdir = os.path.join(workdir, "snaps_" + ("on" if cached else "off"))
        for s in (1, 2):
            gs = _graphs()
            if twin:
                # twin mode: an isolated node whose id sorts first already carries the label "story" (which n:p1 carries
                # too): the label map lists "story" first and maps it to the LAST node that carries it
                gs = {gid: (dict(g, nodes=[("n:a0", "story", [])] + list(g["nodes"])) if gid == "g:surface" else g) for gid, g in gs.items()}
            if s == 2:
                # same content, edges inserted in the opposite order: the store iterates in insertion order
                gs = {gid: {"nodes": g["nodes"], "edges": list(reversed(g["edges"]))} for gid, g in gs.items()}
            self.states[s] = E.mk_state(gs, [])
            for e in sorted(init_eps):
                self.env({"ev": "add_episode", "s": s, "e": e})
        self.kill = False
        self.k = 2
        self.scope = "any"
        self.day = 0
        self.perf = False
        self.tod = 0
        self.relax = 0
        self.turn = 0

    def cfg(self):
        over = {"t1": {"cache": {"enabled": self.cached}},
                "t2": {"cache": {"enabled": self.cached}, "k_retrieval": self.k, "owner_scope": self.scope, "sim_threshold": -1.0,
                       "ranking": {"alpha_sim": 0.5, "beta_recency": 0.4, "gamma_importance": 0.1}},
                "t4": {"enabled": not self.kill, "snapshot_dir": self.snapdir, "snapshot_every_n_turns": 1000,
                       "cache": {"enabled": self.cached}, "cache_bust_mode": "on-apply"},
                # the caps are always configured; the master switch decides whether they are effective
                "perf": {"enabled": self.perf, "t1": {"caps": {"frontier": 2}}}}
        if getattr(self, "twin", False):
            over["t2"]["residual_cap_per_turn"] = 1      # (twin mode) the first label of the label map that a used hit mentions
        c = self.E.validated_cfg(over)
        if self.relax:
            # t1.relax_cap is read by the stage but is not a key of the validator's schema: set after validation
            c["t1"]["relax_cap"] = self.relax - 1
        return c

    def env(self, ev):
        from clematis.engine.types import Node, Edge
        name, s = ev["ev"], ev.get("s")
        if name == "edit_weight":
            st = self.states[s]["store"]
            g = st.get_graph("g:surface")
            w = 0.1 if g.edges["e1"].weight == 0.9 else 0.9
            self.nedits = getattr(self, "nedits", 0) + 1
            if self.nedits % 2 == 0:
                # read-modify-write through the public API: the caller changes the Edge object it got from the store and
                # upserts that same object
                e = g.edges["e1"]
                e.weight = w
                st.upsert_edges("g:surface", [e])
            else:
                st.upsert_edges("g:surface", [Edge(id="e1", src="n:apple", dst="n:banana", weight=w, rel="supports")])
        elif name == "edit_dst":
            # the same edge (id, source, weight, relation) pointed at another node and back
            st = self.states[s]["store"]
            g = st.get_graph("g:surface")
            dst = "n:cherry" if g.edges["e1"].dst == "n:banana" else "n:banana"
            self.nedits = getattr(self, "nedits", 0) + 1
            if self.nedits % 2 == 1:
                e = g.edges["e1"]           # (read-modify-write of the stored object, see edit_weight)
                e.dst = dst
                st.upsert_edges("g:surface", [e])
            else:
                st.upsert_edges("g:surface", [Edge(id="e1", src="n:apple", dst=dst, weight=g.edges["e1"].weight, rel="supports")])
        elif name == "swap_labels":
            # two nodes swap their labels: the label set stays, the node that carries "story" changes
            st = self.states[s]["store"]
            g = st.get_graph("g:surface")
            lb, lc = g.nodes["n:p1"].label, g.nodes["n:p2"].label
            st.upsert_nodes("g:surface", [Node(id="n:p1", label=lc), Node(id="n:p2", label=lb)])
        elif name == "add_node":
            st = self.states[s]["store"]
            if getattr(self, "twin", False):
                # twin mode: the new node is isolated and carries a label that another node already carries ("banana"); its id
                # sorts first, so the label map keeps its items and changes only its iteration order
                st.upsert_nodes("g:surface", [Node(id="n:a", label="banana")])
            else:
                st.upsert_nodes("g:surface", [Node(id="n:bread", label="bread")])
                st.upsert_edges("g:surface", [Edge(id="e9", src="n:banana", dst="n:bread", weight=0.9, rel="supports")])
        elif name == "add_episode":
            owner, text = EPS[ev["e"]]
            self.states[s]["mem_index"].add(self.E.mk_episode(ev["e"], owner, text, ts="2025-08-20T00:00:00Z",
                                                             importance=0.9 if owner == "A" else 0.1))
        elif name == "clear_index":
            self.states[s]["mem_index"].clear()
        elif name == "toggle_kill":
            self.kill = not self.kill
        elif name == "set_k":
            self.k = 3 - self.k
        elif name == "set_scope":
            self.scope = "agent" if self.scope == "any" else "any"
        elif name == "next_day":
            self.day = 1
        elif name == "toggle_perf":
            self.perf = not self.perf
        elif name == "next_hour":
            self.tod = 1 - self.tod
        elif name == "set_relax":
            self.relax = (self.relax + 1) % 3

    def run_turn(self, ev):
        import clematis.engine.orchestrator as orch
        import clematis.engine.health as health
        E = self.E
        self.turn += 1
        now = DAY1 if self.day else DAY0
        if self.tod:
            now = now[:10] + LATE
        ctx = E.mk_ctx(self.cfg(), ev["a"], self.turn, now=now,
                       now_ms=E.NOW_MS + (49 * 86400000 if self.day else 0) + (23 * 3600000 if self.tod else 0))
        seen = {}
        real = health.check_and_log

        def spy(ctx_, state_, t1, t2, *a, **k):
            seen["t1"], seen["t2"] = _proj_t1(t1), _proj_t2(t2)
            return real(ctx_, state_, t1, t2, *a, **k)
        # the text token of the history is spelled differently from turn to turn (case, inner whitespace): T1 seeds
        # case-insensitively but T2 embeds the exact string, so two spellings are two different inputs -- a key that
        # folds them serves one spelling's result for the other (both runs, caches on and off, use the same spellings)
        self.nspell = getattr(self, "nspell", {})
        k_ = self.nspell.get(ev["t"], 0)
        self.nspell[ev["t"]] = k_ + 1
        text = [ev["t"], ev["t"].capitalize(), ev["t"].upper() + "  " + ev["t"], ev["t"]][k_ % 4] if getattr(self, "spell", False) else ev["t"]
        with E.LogCapture(), E.patched_attr(health, check_and_log=spy):
            orch.run_turn(ctx, self.states[ev["s"]], text)
        return seen


def replay_history(case) -> Dict[str, Any]:
    """returns {"mismatch": [(turn index, stage, detail)], "predicted": [(turn index, cache, cause)]}"""
    from .. import engine as E
    h = case["h"]
    work = tempfile.mkdtemp(prefix="c05_", dir=case["workdir"])
    out = {"mismatch": [], "predicted": [], "error": None}
    try:
        # every history runs twice: with the text token spelled identically on every turn (repeated turns hit the caches)
        # and with the spelling rotating from turn to turn (a key that folds spellings serves the wrong entry)
        has_add = any(ev["ev"] in ("add_node", "swap_labels") for ev in h)
        for spell in ((False, True, "twin") if has_add else (False, True)):
            res = {}
            for cached in (True, False):
                E.reset_global_caches()
                w = World(cached, work, case.get("init_eps", ()), twin=(spell == "twin"))
                w.spell = spell is True
                seq = []
                for ev in h:
                    if ev["ev"] == "turn":
                        seq.append(w.run_turn(ev))
                    else:
                        w.env(ev)
                        seq.append(None)
                res[cached] = seq
            for i, ev in enumerate(h):
                if ev["ev"] != "turn":
                    continue
                if spell is False:
                    for cache in ("t1", "t2", "tl"):
                        for cause in ev["obs"][cache]["cause"]:
                            # predictions of the weakest-key model count only for components the current keys lack
                            if case.get("origin") == "witness" and CAUSE_TO_KEY.get((cache, cause)) in KEY_HAS_CURRENT:
                                continue
                            out["predicted"].append((i, cache, cause))
                a, b = res[True][i], res[False][i]
                for stage in ("t1", "t2"):
                    if a.get(stage) != b.get(stage):
                        out["mismatch"].append((i, stage, ("[spellings rotate] " if spell is True else "[twin label, residual cap 1] " if spell == "twin" else "") + _diff(a.get(stage), b.get(stage))))
            if out["mismatch"]:
                break
    except Exception as e:
        import traceback
        out["error"] = f"{type(e).__name__}: {e}\n{traceback.format_exc()[-1500:]}"
    finally:
        shutil.rmtree(work, ignore_errors=True)
        E.reset_global_caches()
    return out


def _diff(a, b):
    if not isinstance(a, dict) or not isinstance(b, dict):
        return f"{a!r} vs {b!r}"
    parts = []
    for k in sorted(set(a) | set(b)):
        if a.get(k) != b.get(k):
            parts.append(f"{k}: cached={json.dumps(a.get(k), default=str)[:200]} fresh={json.dumps(b.get(k), default=str)[:200]}")
    return "; ".join(parts)


def judge(run, case, out, origin):
    """soundness rule: a real mismatch must be explained by a stale hit the model predicts at the same
    turn (T1 staleness explains T1 and T2 differences; T2/turn-level staleness explains T2 only)"""
    h = case["h"]
    if out["error"]:
        from ..tlc import TLCError
        raise TLCError(f"C05 replay failed: {out['error']}")
    pred_by_turn: Dict[int, List[Tuple[str, str]]] = {}
    for (i, cache, cause) in out["predicted"]:
        pred_by_turn.setdefault(i, []).append((cache, cause))
    mism_by_turn: Dict[int, List[Tuple[str, str]]] = {}
    for (i, stage, detail) in out["mismatch"]:
        mism_by_turn.setdefault(i, []).append((stage, detail))
    first_bad = min(mism_by_turn) if mism_by_turn else None
    for i, ev in enumerate(h):
        if ev["ev"] != "turn":
            continue
        preds = pred_by_turn.get(i, [])
        mism = mism_by_turn.get(i, [])
        if not mism:
            run.ok("HitEqualsFresh.turn_equal" if not preds else "HitEqualsFresh.predicted_stale_unconfirmed")
            continue
        # later turns of a history that already diverged (state-changing turns) are not judged
        if first_bad is not None and i > first_bad and not _independent(h, first_bad, i):
            continue
        stages = {s for s, _ in mism}
        explaining = [(c, cause) for (c, cause) in preds if c == "t1" or "t1" not in stages]
        if not explaining:
            clause = "NoCrossState" if _cross_state(h, i) else "HitEqualsFresh"
            run.fail(clause, {"cache": "+".join(sorted(stages)), "cause": "unpredicted"},
                     {"history": h, "init_eps": case.get("init_eps", []), "turn_index": i, "diff": mism}, f"[{origin}] caches on vs off differ at step {i} ({ev}) in {sorted(stages)} "
                     f"but the key model predicts no stale hit: {mism[0][1][:400]}", replay={"h": h, "init_eps": case.get("init_eps", [])})
            continue
        for (cache, cause) in sorted(set(explaining)):
            key = CAUSE_TO_KEY.get((cache, cause), f"{cache}.{cause}")
            clause = "NoCrossAgentScope" if cause == "view" else ("NoCrossState" if _cross_state(h, i) and cause in ("gw", "gn", "mem") else "HitEqualsFresh")
            run.fail(clause, {"cache": cache, "missing_key_component": key},
                     {"history": h, "turn_index": i, "diff": mism}, f"[{origin}] stale {cache} hit at step {i} ({ev['ev']} s={ev['s']} a={ev['a']} t={ev['t']}): "
                     f"dependency '{cause}' changed but is not covered by the key ({key}); {mism[0][0]}: {mism[0][1][:300]}", replay={"h": h})


def _cross_state(h, i):
    s = h[i]["s"]
    return any(e["ev"] == "turn" and e["s"] != s for e in h[:i])


def _independent(h, first_bad, i):
    return False


def check(run) -> None:
    q = run.quick
    run.rule = ("TLC-generated histories over two engine states (stale-hit witnesses from exhaustive BFS on the key model of the current code + "
                "simulated behaviours) replayed on the real engine with caches on vs off; distinct = distinct history")
    base = {"S": [1, 2], "Agents": ["A", "B"], "Texts": ["apple", "banana"], "MaxAdds": 2, "MaxVer": 2 if q else 3,
            "MaxLen": 5 if q else 6, "Episodes": ["eA", "eB"], "InitEps": []}
    # the environment / configuration alphabet is split into two runs to bound the state space
    ACTS_A = ["edit_weight", "add_node", "add_episode", "clear_index", "toggle_kill", "set_k", "set_scope", "next_day", "toggle_perf"]
    ACTS_B = ["edit_weight", "toggle_kill", "next_hour", "set_relax", "toggle_perf", "edit_dst", "swap_labels"]
    ACTS_ALL = sorted(set(ACTS_A) | set(ACTS_B))
    # 1) the full key set satisfies HitEqualsFresh (design)
    for nm, acts in (("A", ACTS_A), ("B", ACTS_B)):
        cfg = make_cfg(dict(base, KeyHas=ALL_KEYS, Acts=acts), ["HitEqualsFresh"], [], emit=False, view="View_")
        res = run.tlc("CacheKeys", cfg, name=f"CacheKeys_full_keys_{nm}", workers=16, timeout_s=1500)
        run.model_must_hold(res)
    run.ok("Model.full_key_set_transparent")
    # 2) adversarial histories: the weakest key model (only text / add counter / version in the keys)
    #    yields a witness history for every way a dependency can change under a cached entry; they are
    #    replayed on the real code, which must show no difference for every component the current keys
    #    cover (KEY_HAS_CURRENT) — this is what reports a key component that is dropped again
    missing = [kx for kx in ALL_KEYS if kx not in KEY_HAS_CURRENT]
    by_sig: Dict[str, List[dict]] = {}
    for nm, acts, init_eps in (("A", ACTS_A, []), ("A", ACTS_A, ["eA", "eB"]), ("B", ACTS_B, ["eA", "eB"])):
        cfg = make_cfg(dict(base, KeyHas=[], MaxLen=5 if not init_eps else 4, InitEps=init_eps, MaxAdds=2, Acts=acts), [], [], emit=False, view="View_", constraint="EmitStale")
        res = run.tlc("CacheKeys", cfg, name=f"CacheKeys_weakest_keys_{nm}_init{len(init_eps)}", workers=8, timeout_s=1500)
        run.model_must_hold(res)
        for w in res.emitted:
            last = w["h"][-1]
            w["init_eps"] = init_eps
            sig = json.dumps([nm, len(init_eps)] + sorted((c, cause) for c in ("t1", "t2", "tl") for cause in last["obs"][c]["cause"]))
            by_sig.setdefault(sig, []).append(w)
    witnesses = []
    per = 25 if q else 300
    for sig, ws in sorted(by_sig.items()):
        ws.sort(key=lambda w: (len(w["h"]), json.dumps(w["h"], sort_keys=True)))
        if len(ws) <= per:
            witnesses.extend(ws)
        else:       # the shortest few plus an even spread over the longer ones (richer worlds)
            step = (len(ws) - 5) / float(per - 5)
            witnesses.extend(ws[:5] + [ws[5 + int(i * step)] for i in range(per - 5)])
    if not witnesses:
        from ..tlc import TLCError
        raise TLCError("the weakest key model yields no stale witness: the model is vacuous")
    run.ok("Model.weakest_keys_refuted")
    run.extra["stale_signatures_in_model"] = len(by_sig)
    run.extra["key_components_missing_in_model"] = missing
    # 3) ordinary behaviours (simulation)
    n = 150 if q else 3000
    cfg = make_cfg(dict(base, KeyHas=KEY_HAS_CURRENT, MaxLen=6 if q else 8, MaxVer=4, Acts=ACTS_ALL), [], [], emit=False, view=None, constraint="EmitAtEnd")
    sim = run.tlc("CacheKeys", cfg, name="CacheKeys_simulate", workers=1, timeout_s=600, simulate=f"num={n}", depth=(7 if q else 9))
    behaviours = sim.emitted[:n]
    cases = [{"h": w["h"], "workdir": run.workdir, "origin": "witness", "init_eps": w["init_eps"]} for w in witnesses] + \
            [{"h": b["h"], "workdir": run.workdir, "origin": "simulate"} for b in behaviours]
    outs = pmap(replay_history, cases, chunk=4)
    for c, o in zip(cases, outs):
        run.traces += 1
        run.case(json.dumps(c["h"], sort_keys=True))
        judge(run, c, o, c["origin"])
    scases = [{"kind": kd, "t2_k": ks, "h": hi} for kd in ("lru", "bytes") for ks in (None, 0, 1, 2, 64) for hi in range(len(STAGE_HISTS))]
    # ... and with T1 caps so tight that every traversal runs into them: a hit must replay the cap counters of the traversal too
    scases += [{"kind": kd, "t2_k": None, "h": hi, "tight": True} for kd in ("lru", "bytes") for hi in range(len(STAGE_HISTS))]
    for c, fl in zip(scases, pmap(stage_level_case, scases, chunk=2)):
        run.traces += 1
        run.case(("stage_level", json.dumps(c, sort_keys=True)))
        if not fl:
            run.ok("HitEqualsFresh.stage_level_equal")
        if any(cl_ == "__vacuous__" for cl_, _ in fl):
            from ..tlc import TLCError
            raise TLCError("C05: " + fl[0][1])
        for clause, msg in fl:
            run.fail(clause, {"cache": "stage-level", "kind": c["kind"]}, c, msg, replay={"stage": c})
    if witnesses:
        run.sample({"stale_witness": witnesses[0]["h"]}, cap=3)
    if behaviours:
        run.sample({"behaviour": behaviours[0]["h"]}, cap=3)
    run.exhaustive = False
    run.assumptions += ["the replay world makes every modelled dependency component observable in the stage results",
                        "after the first divergence of a history later turns are not judged (state has diverged)"]


# ---- stage-level differential over the cache configurations (LRU+TTL, byte-bounded) and slice caps ----------------------
STAGE_HISTS = [["q1", "q1", "q2", "q1"], ["q1", "edit", "q1", "q1"], ["q2", "q2", "mem", "q2", "q1", "q1"], ["q1", "q2", "q1", "edit", "q2", "q2"]]


def stage_level_case(case) -> List[Tuple[str, str]]:
    """T1 + T2 called directly (as the orchestrator calls them) over a small history, caches on vs off, for the ordinary
    stage caches and for the byte-bounded perf caches, without and with a scheduler slice cap on the context"""
    from .. import engine as E
    from clematis.engine.stages.t1 import t1_propagate
    from clematis.engine.stages.t2.core import t2_semantic
    from clematis.engine.types import Edge
    kind, k_slice, hist = case["kind"], case["t2_k"], STAGE_HISTS[case["h"]]
    fails: List[Tuple[str, str]] = []
    runs = {}
    for cached in (True, False):
        over = {"t1": {"cache": {"enabled": cached and kind == "lru", "max_entries": 64, "ttl_s": 3600}},
                "t2": {"cache": {"enabled": cached and kind == "lru", "max_entries": 64, "ttl_s": 3600}, "sim_threshold": -1.0, "k_retrieval": 8}}
        if case.get("tight"):
            over["t1"].update({"radius_cap": 1, "node_budget": 0.25, "iter_cap": 1})
        if kind == "bytes":
            over["perf"] = {"enabled": True, "t1": {"cache": {"max_entries": 64 if cached else 0, "max_bytes": 1 << 20 if cached else 0}},
                            "t2": {"cache": {"max_entries": 64 if cached else 0, "max_bytes": 1 << 20 if cached else 0}}}
        cfg = E.validated_cfg(over)
        E.reset_global_caches()
        st = E.mk_state(E.DEFAULT_GRAPHS, E.default_episodes())
        seq = []
        for step, ev in enumerate(hist):
            if ev == "edit":
                g = st["store"].get_graph("g:surface")
                st["store"].upsert_edges("g:surface", [Edge(id="e1", src="n:apple", dst="n:banana", weight=0.9 if g.edges["e1"].weight != 0.9 else 0.1, rel="supports")])
                seq.append(None)
                continue
            if ev == "mem":
                st["mem_index"].add(E.mk_episode("epX", "A", "apple pie with banana and dates", ts="2025-08-25T00:00:00Z", importance=0.5))
                seq.append(None)
                continue
            ctx = E.mk_ctx(cfg, "A", step + 1)
            if k_slice is not None:
                ctx.slice_budgets = {"t2_k": k_slice}
            text = {"q1": "apple pie", "q2": "banana bread and dates"}[ev]
            t1 = t1_propagate(ctx, st, text)
            t2 = t2_semantic(ctx, st, text, t1)
            seq.append((_proj_t1(t1), _proj_t2(t2)))
        runs[cached] = seq
    E.reset_global_caches()
    if case.get("tight") and not any(x and any(x[0]["metrics"].get(k_, 0) for k_ in ("radius_cap_hits", "layer_cap_hits", "node_budget_hits")) for x in runs[False]):
        fails.append(("__vacuous__", f"tight T1 caps never hit in history {hist}"))
    for i, (a, b) in enumerate(zip(runs[True], runs[False])):
        if a != b:
            stage = "t1" if a[0] != b[0] else "t2"
            fails.append(("HitEqualsFresh", f"{kind} stage caches, slice t2_k={k_slice}, history {hist}: step {i} ({hist[i]}) {stage} differs: "
                                            f"{_diff(a[0 if stage == 't1' else 1], b[0 if stage == 't1' else 1])}"))
            break
    return fails


def replay(rep) -> int:
    os.makedirs("/verif/.work/C05", exist_ok=True)
    if "stage" in rep["replay"]:
        fl = stage_level_case(rep["replay"]["stage"])
        for f in fl:
            print(": ".join(f))
        if fl:
            print(f"VIOLATION property=C05 replay={rep.get('_path', '?')}")
            return 1
        print("replay: caches on == caches off")
        return 0
    h = rep["replay"]["h"]
    out = replay_history({"h": h, "workdir": "/verif/.work/C05", "init_eps": rep["replay"].get("init_eps", [])})
    print(json.dumps(out, indent=1, default=str)[:4000])
    if out["mismatch"]:
        print(f"VIOLATION property=C05 replay={rep.get('_path', '?')}")
        return 1
    print("replay: caches on == caches off")
    return 0
