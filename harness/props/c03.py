"""C03 — meta-filter output always stays inside the safety envelope.

(M)    MetaFilter.tla: the documented pipeline over bags of proposed deltas on an exact fixed-point
       grid (boundary values at the caps), blocked-op sets, cap settings; the envelope clauses are
       invariants of the pipeline, checked on every enumerated case (exhaustive small scope).
(S->C)  every enumerated case through the real t4_filter, in several listings of the same bag (all
       permutations up to 4 deltas): projection equality with the spec (targets, order, magnitudes,
       rejected ops, counts, reasons), the envelope evaluated directly on the returned floats,
       arguments deep-compared before/after.  Cooldown arithmetic: every (turn, last, cooldown)
       combination.
(C->S)  random plans with 0..200 deltas and huge/denormal magnitudes: envelope evaluated exactly on the
       returned floats (rational arithmetic) — see random part.
"""
from __future__ import annotations

import copy
import itertools
import json
import math
from fractions import Fraction
from types import SimpleNamespace
from typing import Any, Dict, List, Tuple

from ..util import Def, make_cfg, pmap, rng, split_defs

MANIFEST = {
    "technique": "TLA+ transcription of the documented T4 pipeline on an exact fixed-point grid, envelope clauses model-checked as invariants with TLC over all small delta bags x caps x blocked-op sets; every enumerated case replayed on the real t4_filter under permuted listings; random large plans checked against the envelope with exact rational arithmetic",
    "text": "Exhaustive small-scope model checking of the documented pipeline (merge, cooldown, novelty clamp, uniform L2 scale, top-K, canonical order) with the envelope as invariants, bound to the code by running every enumerated case through the real t4_filter in several listing orders and comparing targets, order, magnitudes (closed form for scaled values, 1e-12), rejected ops, counters and reasons, plus argument immutability; cooldown arithmetic enumerated completely; random large/denormal/huge plans checked against the envelope exactly.",
    "note": "Grid magnitudes are multiples of 1/1024 so sums and squared norms are exact in doubles; scaled magnitudes are compared with relative tolerance 1e-12 against cap/norm; the L2 bound on returned floats is checked with a 1e-9 relative slack (the scale factor is rounded). Targets whose canonical keys collide through ':' inside ids are outside the alphabet.",
}

TARGETS = [("edge", "a→b"), ("edge", "b"), ("node", "a"), ("node", "n:é")]   # sorted by canonical key
KINDS = {1: "EditGraph", 2: "SetMetaFilter"}
U = 1024.0


def _mk(case, order=None, scale: float = 1.0):
    from clematis.engine.types import ProposedDelta, Plan, EditGraphOp, SetMetaFilterOp
    ds = case["deltas"]
    idxs = list(range(len(ds))) if order is None else list(order)
    deltas = []
    for n, i in enumerate(idxs):
        d = ds[i]
        kind, tid = TARGETS[d["tgt"] - 1]
        deltas.append(ProposedDelta(target_kind=kind, target_id=tid, attr="weight", delta=d["d"] / U * scale,
                                    op_idx=(d["op"] - 1) if d["op"] else None, idx=n))
    ops = [EditGraphOp(kind="EditGraph", edits=[], cap=4), SetMetaFilterOp(kind="SetMetaFilter", params={})]
    plan = Plan(version="t3-plan-v1", ops=ops, deltas=deltas)
    # realise the blocked set through cooldown arithmetic: blocked op k <=> turn - last < cd
    blocked = set(case["blocked"])
    cooldowns, last = {}, {}
    for k, kind in KINDS.items():
        if k in blocked:
            cooldowns[kind] = 3
            last[kind] = 5          # turn 7: 7-5 = 2 < 3 -> blocked
        else:
            cooldowns[kind] = 2
            last[kind] = 5          # 7-5 = 2 < 2 false -> not blocked (boundary)
    cfg = {"delta_norm_cap_l2": case["l2"] / U * scale, "novelty_cap_per_node": case["novelty"] / U * scale,
           "churn_cap_edges": case["churn"], "cooldowns": cooldowns}
    ctx = SimpleNamespace(config=SimpleNamespace(t4=cfg), turn_id=7)
    state = {"meta": {"cooldowns": last}}
    return ctx, state, plan


def _ckey(d):
    return f"{d.target_kind}:{d.target_id}:{d.attr}"


def envelope(res, ctx, plan, blocked_idx, fails, where):
    cfg = ctx.config.t4
    ap = res.approved_deltas
    keys = [_ckey(d) for d in ap]
    if len(set(keys)) != len(keys):
        fails.append(("OnePerTarget", f"{where}: duplicate targets {keys}"))
    if keys != sorted(keys):
        fails.append(("CanonicalOrder", f"{where}: {keys}"))
    cap = Fraction(cfg["novelty_cap_per_node"])
    for d in ap:
        if not math.isfinite(d.delta) or abs(Fraction(d.delta)) > cap:
            fails.append(("NoveltyBound", f"{where}: |{d.delta}| > {cfg['novelty_cap_per_node']}"))
            break
    s = sum((Fraction(d.delta) ** 2 for d in ap if math.isfinite(d.delta)), Fraction(0))
    l2 = Fraction(cfg["delta_norm_cap_l2"])
    if s > l2 * l2 * (1 + Fraction(1, 10 ** 9)):
        fails.append(("L2Bound", f"{where}: squared norm {float(s)} > cap^2 {float(l2 * l2)}"))
    if len(ap) > cfg["churn_cap_edges"]:
        fails.append(("ChurnBound", f"{where}: {len(ap)} > {cfg['churn_cap_edges']}"))
    proposed = {_ckey(d) for d in plan.deltas}
    if not set(keys) <= proposed:
        fails.append(("OnlyProposedTargets", f"{where}: {set(keys) - proposed}"))
    # cooldown origin: a target all of whose proposals come from blocked ops must not be approved,
    # and (pipeline) a target whose smallest op index is blocked is dropped
    for k in keys:
        ops = [d.op_idx for d in plan.deltas if _ckey(d) == k]
        if all(o is not None and o in blocked_idx for o in ops):
            fails.append(("NoCooldownOrigin", f"{where}: {k} approved although all its ops {ops} are in cooldown"))
    got_rej = [(r.kind, r.idx) for r in res.rejected_ops]
    want_rej = [(type(plan.ops[i]).__name__.replace("Op", ""), i) for i in sorted(blocked_idx)]
    if got_rej != want_rej:
        fails.append(("BlockedReported", f"{where}: rejected_ops {got_rej}, expected {want_rej}"))


def replay_case(case) -> List[Tuple[str, str]]:
    from clematis.engine.stages.t4 import t4_filter
    fails: List[Tuple[str, str]] = []
    n = len(case["deltas"])
    perms = list(itertools.permutations(range(n))) if n <= 4 else [tuple(range(n)), tuple(reversed(range(n)))]
    blocked_idx = {k - 1 for k in case["blocked"]}
    want = [(TARGETS[a["tgt"] - 1], a["d"]) for a in case["approved"]]
    scaled = case["scaled"]
    norm = math.sqrt(case["sumsq"]) / U
    first = None
    for pi, perm in enumerate(perms):
        ctx, state, plan = _mk(case, perm)
        snap = (copy.deepcopy(plan), copy.deepcopy(state), copy.deepcopy(ctx.config.t4))
        try:
            res = t4_filter(ctx, state, None, None, plan, None)
        except Exception as e:
            fails.append(("PipelineEqual", f"t4_filter raised {type(e).__name__}: {e}"))
            break
        if (plan, state, ctx.config.t4) != snap:
            fails.append(("PureNoMutation", "t4_filter mutated its arguments"))
        envelope(res, ctx, plan, blocked_idx, fails, f"perm {perm}")
        got = [((d.target_kind, d.target_id), d.delta) for d in res.approved_deltas]
        if first is None:
            first = got
            # projection equality with the spec
            if [g[0] for g in got] != [w[0] for w in want]:
                fails.append(("PipelineEqual", f"approved targets {[g[0] for g in got]}, spec says {[w[0] for w in want]}"))
            else:
                for (t, x), (_, d) in zip(got, want):
                    exp = d / U * ((case["l2"] / U) / norm if scaled else 1.0)
                    ok = (x == exp) if not scaled else math.isclose(x, exp, rel_tol=1e-12, abs_tol=0.0)
                    if not ok:
                        fails.append(("PipelineEqual", f"magnitude of {t}: {x!r}, spec says {exp!r} (scaled={scaled})"))
                        break
            c = res.metrics.get("counts", {})
            if (c.get("after_cooldown"), c.get("approved"), c.get("dropped_tail")) != (case["after_cd"], len(want), case["dropped"]):
                fails.append(("PipelineEqual", f"counts {c}, spec after_cd={case['after_cd']} approved={len(want)} dropped={case['dropped']}"))
            exp_reasons = []
            if case["blocked"]:
                exp_reasons.append("COOLDOWN_BLOCKED")
            if case["nclamped"] > 0:
                exp_reasons.append("NOVELTY_SPIKE")
            if scaled and Fraction(case["l2"]) ** 2 * 10 ** 12 < Fraction(999999) ** 2 * case["sumsq"]:
                exp_reasons.append("DELTA_NORM_HIGH")
            if case["dropped"] > 0:
                exp_reasons.append("CHURN_CAP_HIT")
            if list(res.reasons) != exp_reasons:
                fails.append(("ReasonsMatch", f"reasons {res.reasons}, spec says {exp_reasons}"))
        elif got != first:
            fails.append(("OrderIndependent", f"listing {perm} gives {got}, listing {perms[0]} gives {first}"))
        if fails:
            break
    if not fails and first is not None:
        # the documented pipeline is homogeneous: with every magnitude and both caps multiplied by the same power of two
        # (exact in doubles) the approved deltas are the same multiples - an absolute tolerance anywhere in the caps breaks it
        sc = 2.0 ** -40
        ctx, state, plan = _mk(case, perms[0], scale=sc)
        try:
            res = t4_filter(ctx, state, None, None, plan, None)
            got2 = [((d.target_kind, d.target_id), d.delta) for d in res.approved_deltas]
            if got2 != [(t, x * sc) for t, x in first]:
                fails.append(("L2Bound" if scaled else "PipelineEqual", f"all magnitudes and caps scaled by 2^-40: approved {got2}, the unscaled case scaled by 2^-40 is "
                                                                          f"{[(t, x * sc) for t, x in first]} (novelty cap {case['novelty'] / U * sc!r}, L2 cap {case['l2'] / U * sc!r})"))
        except Exception as e:      # noqa: BLE001
            fails.append(("PipelineEqual", f"t4_filter raised {type(e).__name__}: {e} on the case scaled by 2^-40"))
    return fails


def replay_cooldown(c) -> List[Tuple[str, str]]:
    """cooldown arithmetic: op blocked <=> cd > 0 and last known and turn - last < cd"""
    from clematis.engine.stages.t4 import t4_filter
    from clematis.engine.types import ProposedDelta, Plan, EditGraphOp
    turn, last, cd = c
    plan = Plan(version="t3-plan-v1", ops=[EditGraphOp(kind="EditGraph", edits=[], cap=1)],
                deltas=[ProposedDelta("node", "a", "weight", 0.125, op_idx=0, idx=0),
                        ProposedDelta("node", "b", "weight", 0.125, op_idx=None, idx=1)])
    cfg = {"delta_norm_cap_l2": 1.5, "novelty_cap_per_node": 0.3, "churn_cap_edges": 64, "cooldowns": {"EditGraph": cd}}
    ctx = SimpleNamespace(config=SimpleNamespace(t4=cfg), turn_id=turn)
    state = {"meta": {"cooldowns": ({} if last is None else {"EditGraph": last})}}
    res = t4_filter(ctx, state, None, None, plan, None)
    want_blocked = (cd > 0) and (last is not None) and (turn - last < cd)
    ids = [d.target_id for d in res.approved_deltas]
    fails = []
    if want_blocked != ("a" not in ids):
        fails.append(("NoCooldownOrigin", f"turn={turn} last={last} cooldown={cd}: approved {ids}, blocked expected {want_blocked}"))
    if "b" not in ids:
        fails.append(("PipelineEqual", f"delta without an originating op was dropped (turn={turn} last={last} cd={cd})"))
    if want_blocked != (len(res.rejected_ops) == 1):
        fails.append(("BlockedReported", f"turn={turn} last={last} cooldown={cd}: rejected_ops={res.rejected_ops}"))
    return fails


def collision_case(c) -> List[Tuple[str, str]]:
    """distinct targets whose 'kind:id:attr' spellings coincide are still distinct targets: each keeps its own
    delta, in every listing order"""
    import itertools
    from clematis.engine.stages.t4 import t4_filter
    from clematis.engine.types import ProposedDelta, Plan
    targets, churn = c
    vals = [0.125, 0.25, 0.0625, 0.03125][:len(targets)]
    cfg = {"delta_norm_cap_l2": 100.0, "novelty_cap_per_node": 1.0, "churn_cap_edges": churn, "cooldowns": {}}
    ctx = SimpleNamespace(config=SimpleNamespace(t4=cfg), turn_id=3)
    fails, first = [], None
    want = sorted(((k, i, a), v) for (k, i, a), v in zip(targets, vals))
    want_kept = sorted(sorted(want, key=lambda t: -t[1])[:churn])
    for perm in itertools.permutations(range(len(targets))):
        deltas = [ProposedDelta(targets[j][0], targets[j][1], targets[j][2], vals[j], op_idx=None, idx=n) for n, j in enumerate(perm)]
        res = t4_filter(ctx, {}, None, None, Plan(version="t3-plan-v1", ops=[], deltas=deltas), None)
        got = [((d.target_kind, d.target_id, d.attr), d.delta) for d in res.approved_deltas]
        if sorted(got) != want_kept:
            fails.append(("OnlyProposedTargets", f"targets {targets} (distinct, one delta each, caps not binding except churn={churn}) listing {perm}: "
                                                 f"approved {got}, expected each target with its own delta {want_kept}"))
            break
        if first is None:
            first = got
        elif got != first:
            fails.append(("OrderIndependent", f"targets {targets} churn={churn}: listing {perm} gives {got}, first listing {first}"))
            break
    return fails


COLLISIONS = [
    [("node", "a:b", "c"), ("node", "a", "b:c")],
    [("node", "n:apple", "weight"), ("node", "n", "apple:weight")],
    [("edge", "x:y", "w:z"), ("edge", "x", "y:w:z"), ("edge", "x:y:w", "z")],
    [("node", "a:b", "c"), ("node", "a", "b:c"), ("node", "a", "c"), ("node", "a:b", "b:c")],
    [("node", "", ":"), ("node", ":", "")],
]


def random_case(args) -> List[Tuple[str, str]]:
    from clematis.engine.stages.t4 import t4_filter
    from clematis.engine.types import ProposedDelta, Plan, EditGraphOp, SetMetaFilterOp
    seed, i = args
    r = rng(seed, "t4rand", i)
    n = r.choice([0, 1, 2, 5, 17, 64, 65, 200])
    ids = [f"n{j}" for j in range(r.choice([1, 3, 10, 300]))]
    mags = [0.0, 1e-320, 5e-324, 1e-9, 0.1, 0.3, 0.30000000000000004, 1.0, 1e6, 1e300, -1e300, -0.3, 1e154, 3.3e-162]
    deltas = []
    for j in range(n):
        x = r.choice(mags) if r.random() < 0.5 else r.uniform(-2, 2)
        deltas.append(ProposedDelta(r.choice(["node", "edge"]), r.choice(ids), "weight", x,
                                    op_idx=r.choice([None, 0, 1, 2]), idx=j))
    if n and r.random() < 0.4:
        # duplicates of one target whose sum cancels catastrophically unless it is formed exactly
        big = r.choice([1e16, 1e300, 2.0 ** 53, 1e8])
        tid, small = r.choice(ids), r.choice([1.0, 0.25, 1e-3, 0.1])
        for v in (big, small, -big, 0.1, 0.2, -0.3):
            deltas.insert(r.randrange(0, len(deltas) + 1), ProposedDelta("node", tid, "weight", v, op_idx=r.choice([None, 0, 1, 2]), idx=len(deltas)))
    ops = [EditGraphOp(kind="EditGraph", edits=[], cap=4), SetMetaFilterOp(kind="SetMetaFilter", params={}),
           EditGraphOp(kind="EditGraph", edits=[], cap=4)]
    plan = Plan(version="t3-plan-v1", ops=ops, deltas=deltas)
    cds = {"EditGraph": r.choice([0, 1, 2, 5]), "SetMetaFilter": r.choice([0, 1, 3])}
    cfg = {"delta_norm_cap_l2": r.choice([1.5, 0.01, 1e-6, 100.0, 0.3]), "novelty_cap_per_node": r.choice([0.3, 1.0, 1e-3, 0.25]),
           "churn_cap_edges": r.choice([0, 1, 2, 64, 1000]), "cooldowns": cds}
    turn = r.randrange(0, 6)
    last = {k: r.randrange(0, 6) for k in cds if r.random() < 0.7}
    ctx = SimpleNamespace(config=SimpleNamespace(t4=cfg), turn_id=turn)
    state = {"meta": {"cooldowns": last}}
    snap = (copy.deepcopy(plan), copy.deepcopy(state), copy.deepcopy(cfg))
    fails: List[Tuple[str, str]] = []
    try:
        res = t4_filter(ctx, state, None, None, plan, None)
    except Exception as e:
        return [("PipelineEqual", f"t4_filter raised {type(e).__name__}: {e} (random case {i})")]
    if (plan, state, cfg) != snap:
        fails.append(("PureNoMutation", "t4_filter mutated its arguments"))
    blocked = set()
    for k, op in enumerate(ops):
        cd = cds.get(op.kind, 0)
        if cd and op.kind in last and turn - last[op.kind] < cd:
            blocked.add(k)
    envelope(res, ctx, plan, blocked, fails, f"random case {i}")
    # listing-order independence on shuffled listings, duplicates of a target included: the merged value of a
    # target is the sum of a multiset and may not depend on the order in which it is accumulated
    a = [(_ckey(d), d.delta) for d in res.approved_deltas]
    for _ in range(3):
        d2 = list(deltas)
        r.shuffle(d2)
        res2 = t4_filter(ctx, state, None, None, Plan(version="t3-plan-v1", ops=ops, deltas=d2), None)
        b = [(_ckey(d), d.delta) for d in res2.approved_deltas]
        if a != b or res.reasons != res2.reasons:
            dup = len({_ckey(d) for d in deltas}) != len(deltas)
            k = next((j for j, (x, y) in enumerate(zip(a, b)) if x != y), min(len(a), len(b)))
            fails.append(("OrderIndependent", f"random case {i}: a shuffled listing changes the result ({'duplicate targets' if dup else 'no duplicates'}): "
                                              f"{a[k] if k < len(a) else None} vs {b[k] if k < len(b) else None}"))
            break
    return fails


def check(run) -> None:
    q = run.quick
    run.rule = ("every (bag of deltas, caps, blocked set) case of the exhaustively enumerated MetaFilter model run through t4_filter in all "
                "listings (<=4 deltas); all cooldown (turn,last,cd) combinations; random large plans; distinct = distinct case")
    consts = {"NT": 3, "Mags": Def("<<-257, 1, 256, 2048>>" if q else "<<-2048, -257, -256, -1, 0, 1, 128, 256, 257, 2048>>"),
              "NOps": 2, "MaxBag": 3,
              "NoveltyCaps": [256, 1024], "L2Caps": [384, 1536], "ChurnCaps": [1, 64] if q else [0, 1, 2, 64],
              "BlockedSets": Def("{{}, {1}}" if q else "{{}, {1}, {2}, {1, 2}}")}
    invs = ["OnePerTarget", "NoveltyBound", "L2Bound", "ChurnBound", "NoCooldownOrigin", "OnlyProposedTargets", "CanonicalOrder", "TopKIsTop"]
    configs = [("main", consts)]
    if not q:
        configs = [("main", dict(consts, NT=2, MaxBag=3)),
                   ("wide", dict(consts, NT=4, Mags=Def("<<-257, 1, 256, 2048>>"), MaxBag=4, NoveltyCaps=[256], L2Caps=[384], ChurnCaps=[2]))]
    for name, cs in configs:
        cfg = make_cfg(cs, invs, [], emit=False, view=None, constraint="EmitCase")
        res = run.tlc("MetaFilter", cfg, name=f"MetaFilter_{name}", workers=8, timeout_s=1800, defs=split_defs(cs))
        run.model_must_hold(res)
        outs = pmap(replay_case, res.emitted)
        for case, fails in zip(res.emitted, outs):
            run.traces += 1
            run.case(json.dumps(case, sort_keys=True))
            if not fails:
                run.ok("MetaFilter.conforms")
            for clause, msg in fails:
                run.fail(clause, {"stage": clause}, case, msg, replay={"case": case})
        run.sample({"case": res.emitted[len(res.emitted) * 2 // 3]}, cap=4)
    run.exhaustive = True
    # cooldown arithmetic
    cds = [(t, l, c) for t in range(0, 5) for l in [None, 0, 1, 2, 3, 4] for c in range(0, 4)]
    for c, fails in zip(cds, pmap(replay_cooldown, cds, procs=1)):
        run.traces += 1
        run.case(("cd", c))
        if not fails:
            run.ok("Cooldown.conforms")
        for clause, msg in fails:
            run.fail(clause, {"stage": "cooldown-arithmetic"}, {"turn_last_cd": c}, msg, replay={"cooldown": list(c)})
    # spelling collisions of the canonical key
    ccases = [(t, churn) for t in COLLISIONS for churn in (64, 1, len(t) - 1)]
    for c, fails in zip(ccases, pmap(collision_case, ccases)):
        run.traces += 1
        run.case(("collision", json.dumps(c)))
        if not fails:
            run.ok("Collision.distinct_targets_kept_apart")
        for clause, msg in fails:
            run.fail(clause, {"stage": clause, "direction": "key-collision"}, {"targets": c[0], "churn": c[1]}, msg, replay={"collision": [c[0], c[1]]})
    # random large plans
    n = 400 if q else 20000
    args = [(run.seed, i) for i in range(n)]
    for a, fails in zip(args, pmap(random_case, args)):
        run.traces += 1
        run.case(("rand", a[1]))
        if not fails:
            run.ok("Envelope.random_ok")
        for clause, msg in fails:
            run.fail(clause, {"stage": clause, "direction": "random"}, {"seed": a[0], "i": a[1]}, msg, replay={"random": list(a)})
    run.assumptions += ["grid magnitudes (multiples of 1/1024) for PipelineEqual; arbitrary floats only for the envelope",
                        "scaled magnitudes compared with rel. tolerance 1e-12; L2 bound on floats with 1e-9 slack"]


def replay(rep) -> int:
    r = rep["replay"]
    if "collision" in r:
        fails = collision_case(([tuple(t) for t in r["collision"][0]], r["collision"][1]))
    elif "case" in r:
        fails = replay_case(r["case"])
    elif "cooldown" in r:
        c = r["cooldown"]
        fails = replay_cooldown((c[0], c[1], c[2]))
    else:
        fails = random_case(tuple(r["random"]))
    for f in fails:
        print(": ".join(f))
    if fails:
        print(f"VIOLATION property=C03 replay={rep.get('_path', '?')}")
        return 1
    print("replay: conforms")
    return 0
