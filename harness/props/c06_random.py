"""C06 random part: states produced by random GEL histories (gel.observe_retrieval / gel.tick on the
real engine) plus perturbations are pushed through the chain write -> load -> write -> load -> write.

Oracle (independent of the code, exact): NaN counts as 0.0, clamp to the configured bounds, round the
exact binary value to six decimals (Decimal arithmetic; at an exact tie both neighbours are admitted),
|w| < epsilon -> 0.0; canonical key "src→dst" with src <= dst; nodes, meta lists and the concept
counter are carried over; version and store weights are restored exactly.
"""
from __future__ import annotations

import json
import math
import os
from decimal import Decimal, ROUND_CEILING, ROUND_FLOOR
from types import SimpleNamespace
from typing import Any, Dict, List, Tuple

from ..util import rng

Q6 = Decimal("0.000001")
IDPOOL = ["n1", "n2", "n10", "é", "日本", "a.b", "x→y", "A:1", "z z", "0", "Z", "ö-3", "n_1"]
SPECIAL = [0.0078125, 0.5000005, -0.0000005, 1e-7, -2.5, 7.0, math.nan, math.inf, -math.inf, 1e308, 5e-324, -0.0,
           0.1 + 0.2, 1 / 3, -2 / 3, 0.9999995, 0.9999996, 0.2500001, 0.0009999, 0.001, 123456.7890125,
           # a weight that is not a number (JSON null, a string): read like a missing weight (0.0); it must not cost the
           # edges that are listed after it
           None, "junk"]
BOUNDS = [("t4default", None, None), ("t4", -0.5, 0.5), ("t4", -1.0, 0.75), ("graph", -0.25, 0.75), ("t4", 0.25, 1.0),
          ("t4default", None, None), ("graph", -1.0, 1.0)]


def san_adm(x: float, lo: float, hi: float, eps: float) -> List[float]:
    if math.isnan(x):
        x = 0.0
    x = lo if x < lo else hi if x > hi else x
    d = Decimal(x)
    fl, ce = d.quantize(Q6, ROUND_FLOOR), d.quantize(Q6, ROUND_CEILING)
    if fl == ce:
        cands = [fl]
    else:
        mid = (fl + ce) / 2
        cands = [fl, ce] if d == mid else ([ce] if d > mid else [fl])
    out = []
    for c in cands:
        f = float(c)
        if abs(f) < eps:
            f = 0.0
        out.append(f)
    return out


def wclass_f(x: float, lo: float, hi: float) -> str:
    if math.isnan(x):
        return "nan"
    if x == math.inf:
        return "pinf"
    if x == -math.inf:
        return "ninf"
    if x < lo:
        return "below"
    if x > hi:
        return "above"
    if abs(x) < 1e-6:
        return "tiny"
    if round(x, 6) != x:
        return "dec7"
    return "inrange"


def build(seed: int, i: int) -> Dict[str, Any]:
    """deterministic description of random case i (no I/O): cfg pieces, history, perturbations"""
    r = rng(seed, "c06rand", i)
    ids = r.sample(IDPOOL, r.randrange(2, 7))
    if r.random() < 0.05:
        ids.append("")
    bname, lo, hi = r.choice(BOUNDS)
    eps = r.choice([0.0, 0.0, 0.0, 0.001])
    upd = {"mode": r.choice(["additive", "proportional"]), "alpha": r.choice([0.02, 0.1, 0.3, 1 / 3, 0.7, 0.0123457]),
           "clamp_min": r.choice([-1.0, -0.9, 0.0]), "clamp_max": r.choice([1.0, 0.9, 0.5])}
    dec = {"half_life_turns": r.choice([1, 2, 3, 10, 200]), "floor": r.choice([0.0, 0.0, 0.01])}
    hist = []
    for t in range(r.randrange(1, 13)):
        if r.random() < 0.7:
            k = r.randrange(2, len(ids) + 1)
            hist.append(("obs", [(x, r.choice([0.95, 0.9, 0.5, 0.21, 0.1])) for x in r.sample(ids, k)], t))
        else:
            hist.append(("tick", r.choice([1, 1, 2, 5]), t))
    pert = []
    for _ in range(r.choice([0, 0, 1, 2, 4])):
        pert.append((r.choice(["special", "special", "flip", "uniform", "dup"]), r.randrange(0, 1 << 30), r.choice(SPECIAL), r.uniform(-1.5, 1.5)))
    return {"ids": ids, "bname": bname, "lo": lo, "hi": hi, "eps": eps, "upd": upd, "dec": dec, "hist": hist, "pert": pert,
            "eform": r.choice(["dict", "dict", "list"]), "nodes": r.choice(["none", "dict", "list"]),
            "sform": r.choice(["dict", "ns"]), "skind": r.choice(["none", "w", "expimp"]),
            "ver": r.choice([str(r.randrange(0, 10 ** 6)), "v-é" + str(r.randrange(9)), "0"]),
            "agent": r.choice(["A", "Ägent 1", "b-2"]),
            "weights": {(r.choice(["node", "edge"]), r.choice(ids + ["a→b"]), r.choice(["weight", "bias"])):
                        r.choice([r.uniform(-3, 3), 0.1234567, math.nan, 1e300, -0.0, 2.0]) for _ in range(r.randrange(0, 4))},
            "merge_rec": r.random() < 0.3, "ccount": r.choice([0, 0, 3])}


def describe(seed: int, i: int) -> Dict[str, Any]:
    b = build(seed, i)
    return {"ids": b["ids"], "bounds": [b["bname"], b["lo"], b["hi"], b["eps"]], "history_len": len(b["hist"]),
            "perturbations": [p[0] for p in b["pert"]], "edge_form": b["eform"]}


def make_ctx(b, d):
    t4: Dict[str, Any] = {"snapshot_dir": d}
    graph: Dict[str, Any] = {"enabled": True, "update": dict(b["upd"]), "decay": dict(b["dec"])}
    lo, hi = -1.0, 1.0
    if b["bname"] == "t4":
        lo, hi = b["lo"], b["hi"]
        t4["weight_min"], t4["weight_max"] = lo, hi
    elif b["bname"] == "graph":
        lo, hi = b["lo"], b["hi"]
        graph["weight_min"], graph["weight_max"] = lo, hi
        t4["weight_min"], t4["weight_max"] = -0.0625, 0.0625
    if b["eps"]:
        graph["decay"]["epsilon_prune"] = b["eps"]
    cfg = {"t4": t4, "graph": graph}
    return SimpleNamespace(cfg=cfg, config=cfg, agent_id=b["agent"], turn_id=1), lo, hi


def random_case(args) -> List[Tuple[str, Dict[str, Any], str]]:
    from . import c06 as C
    base, seed, i = args
    os.environ["SOURCE_DATE_EPOCH"] = str(C.EPOCH)
    from clematis.engine import snapshot as S
    from clematis.engine import gel as G
    b = build(seed, i)
    d = C.worker_dir(base)
    ctx, lo, hi = make_ctx(b, d)
    eps = b["eps"]
    store = C.mk_store(b["skind"])
    if store is not None:
        store.w.update(b["weights"])
    st: Any = {} if b["sform"] == "dict" else SimpleNamespace()
    if store is not None:
        if isinstance(st, dict):
            st["store"] = store
        else:
            st.store = store
    for h in b["hist"]:
        if h[0] == "obs":
            G.observe_retrieval(ctx, st, h[1], turn=h[2], agent=b["agent"])
        else:
            G.tick(ctx, st, decay_dt=h[1], turn=h[2], agent=b["agent"])
    graph = C.sget(st, "graph", None)
    if graph is None:
        graph = {"nodes": {}, "edges": {}, "meta": {"schema": "v1"}}
        if isinstance(st, dict):
            st["graph"] = graph
        else:
            st.graph = graph
    edges = graph["edges"]
    listing: List[Dict[str, Any]] = list(edges.values())
    extra: List[Dict[str, Any]] = []
    for kind, pick, special, uni in b["pert"]:
        if not listing:
            break
        rec = listing[pick % len(listing)]
        if kind == "special":
            rec["weight"] = special
        elif kind == "uniform":
            rec["weight"] = uni
        elif kind == "flip":
            rec["src"], rec["dst"] = rec["dst"], rec["src"]
        elif kind == "dup" and b["eform"] == "list":
            extra.append(dict(rec, src=rec["dst"], dst=rec["src"], weight=uni, attrs=dict(rec.get("attrs") or {})))
    if b["eform"] == "list":
        graph["edges"] = [dict(e) for e in listing] + extra
    if b["nodes"] != "none":
        recs = [{"id": n, "label": None, "attrs": {"deg": k}} for k, n in enumerate(b["ids"]) if n]
        graph["nodes"] = {x["id"]: x for x in recs} if b["nodes"] == "dict" else recs
    if b["merge_rec"]:
        graph["meta"].setdefault("merges", []).append({"into": b["ids"][0], "from": b["ids"][1:2]})
    if b["ccount"]:
        graph["meta"]["concept_nodes_count"] = b["ccount"]
    # ---- oracle from the state about to be written ----
    exp_edges: Dict[tuple, List[Tuple[float, str, float]]] = {}
    for rec in (graph["edges"].values() if isinstance(graph["edges"], dict) else graph["edges"]):
        pr = tuple(sorted((rec["src"], rec["dst"])))
        wraw = rec["weight"]
        wnum = float(wraw) if isinstance(wraw, (int, float)) and not isinstance(wraw, bool) else 0.0
        for w in san_adm(wnum, lo, hi, eps):
            exp_edges.setdefault(pr, []).append((w, rec["rel"], wnum))
    nodes_now = graph["nodes"]
    exp_nodes = json.loads(json.dumps(nodes_now if isinstance(nodes_now, dict) else {x["id"]: x for x in nodes_now}))
    gm = graph.get("meta") or {}
    exp_meta = {"merges": json.loads(json.dumps(gm.get("merges", []))), "splits": list(gm.get("splits", [])),
                "promotions": list(gm.get("promotions", [])), "concept_nodes_count": int(gm.get("concept_nodes_count", 0))}
    exp_w = dict(b["weights"]) if store is not None else None
    ver = b["ver"]

    def wsig(pr):
        cls = {wclass_f(x[2], lo, hi) for x in exp_edges.get(pr, [])}
        return {"feature": "weight:" + C.top_class(cls), "zero_in_bounds": lo <= 0 <= hi}

    fails: List[Tuple[str, Dict[str, Any], str]] = []

    def restore_checks(stx, tag):
        v = C.sget(stx, "version_etag", None)
        if v != ver:
            fails.append(("RestoreVersion", {"feature": "version", "direction": "random"}, f"{tag}: written {ver!r}, restored {v!r}"))
        sx = C.sget(stx, "store", None)
        if exp_w is not None:
            got = dict(sx.w)
            if set(got) != set(exp_w) or any(not C.feq(got[k], float(exp_w[k])) for k in exp_w):
                fails.append(("RestoreWeights", {"feature": "weights:" + b["skind"], "direction": "random"}, f"{tag}: written {exp_w!r}, restored {got!r}"))
        g = C.sget(stx, "graph", None)
        if not isinstance(g, dict) or g != C.sget(stx, "gel", None):
            fails.append(("RestoreGel", {"feature": "graph-gel-mirror"}, f"{tag}: state.graph / state.gel missing or different"))
            return
        if g.get("nodes") != exp_nodes:
            fails.append(("RestoreGel", {"feature": "nodes", "direction": "random"}, f"{tag}: nodes {g.get('nodes')!r}, written {exp_nodes!r}"))
        seen = set()
        for k, rec in (g.get("edges") or {}).items():
            pr = tuple(sorted((rec.get("src"), rec.get("dst"))))
            tag = pr if (pr[0] and pr[1]) else (pr, rec.get("rel"))
            if tag in seen or pr not in exp_edges:
                fails.append(("RestoreGel", {"feature": "edge-extra", "ids": "random", "empty_id": "" in pr}, f"{tag}: unexpected edge {k!r} {pr}"))
                continue
            seen.add(pr)
            seen.add(tag)
            w = rec.get("weight")
            if not any(isinstance(w, float) and w == aw and rec.get("rel") == ar for aw, ar, _ in exp_edges[pr]):
                fails.append(("RestoreGel", wsig(pr), f"{tag}: edge {k!r} weight {w!r}, oracle admits {[(a, x) for a, _, x in exp_edges[pr]]} (bounds [{lo},{hi}] eps {eps})"))
            if pr[0] and pr[1] and (k != f"{pr[0]}→{pr[1]}" or rec.get("id") != k):
                fails.append(("RestoreGel", {"feature": "key-not-canonical"}, f"{tag}: edge {pr} under key {k!r} id {rec.get('id')!r}"))
        for pr in exp_edges:
            if pr not in seen:
                fails.append(("RestoreGel", {"feature": "edge-lost", "ids": "random", "empty_id": "" in pr}, f"{tag}: edge {pr} not restored"))
        m = g.get("meta") or {}
        for f, val in exp_meta.items():
            if m.get(f) != val:
                fails.append(("RestoreGel", {"feature": "meta"}, f"{tag}: meta.{f} = {m.get(f)!r}, written {val!r}"))
                break

    try:
        p1 = S.write_snapshot(ctx, st, ver)
        b1 = open(p1, "rb").read()
        for msg in C.marker_fails(p1, b1):
            fails.append(("SchemaMarker", {"feature": "marker"}, msg))
        bodies = [b1]
        sides = [open(p1 + ".meta", "rb").read()]
        for step in (2, 3):
            stn: Any = {} if b["sform"] == "dict" else SimpleNamespace()
            sn = C.mk_store(b["skind"])
            if sn is not None:
                if isinstance(stn, dict):
                    stn["store"] = sn
                else:
                    stn.store = sn
            info = S.load_latest_snapshot(ctx, stn)
            if not info.get("loaded") or os.path.abspath(info.get("path") or "") != os.path.abspath(p1):
                fails.append(("RestoreVersion", {"feature": "not-loaded"}, f"load {step - 1}: {info}"))
            restore_checks(stn, f"load {step - 1}")
            pn = S.write_snapshot(ctx, stn, C.sget(stn, "version_etag", None))
            bodies.append(open(pn, "rb").read())
            sides.append(open(pn + ".meta", "rb").read())
            if fails:
                break
    except Exception as e:
        return fails + [("RestoreVersion", {"feature": f"raised:{type(e).__name__}", "direction": "random"}, f"chain raised {type(e).__name__}: {e}")]
    for k in range(1, len(bodies)):
        if bodies[k] != bodies[0]:
            path, j1, msg = C.fixpoint_diff(bodies[0], bodies[k])
            rec = C.weight_path_edge(path, j1)
            clause = "WriteLoadWriteFixpoint"
            if rec is not None:
                sig = wsig(tuple(sorted((rec.get("src"), rec.get("dst")))))
            else:
                sig = {"feature": "fixpoint:" + C.generalise(path)}
            fails.append((clause, sig, f"write #{k + 1}: " + msg))
            break
        if sides[k] != sides[0]:
            fails.append(("WriteLoadWriteFixpoint", {"feature": "sidecar-bytes"}, f"sidecar of write #{k + 1} differs"))
            break
    return fails
