"""C04 — apply commits exactly the approved deltas, once, with version discipline.

(M)    ApplyCommit.tla: all histories of committed/killed turns x approved subsets x store fault plans
       (batch raises, which single calls raise) x cadence x cache-bust x namespaces; invariants
       HandOffExact, FallbackOnlyOnBatchFailure, AtMostOnce, VersionPlusOne, SnapshotCadence,
       KillSwitchInert — exhaustive.
(S->C)  every history replayed (a) directly through apply_changes and (b) through run_turn (approved
       lists injected with orchestrator.t3_deliberate, the real t4_filter in between) with a
       recording/faulting all-or-nothing store double, a real CacheManager with live entries and a
       scratch snapshot directory; after every turn the call log, applied multiset, version, namespace
       sizes, snapshot files and emitted t4/apply records are compared with the spec's state.
"""
from __future__ import annotations

import json
import os
import shutil
import tempfile
from types import SimpleNamespace
from typing import Any, Dict, List, Tuple

from ..util import make_cfg, pmap

MANIFEST = {
    "technique": "TLA+ model of the apply/commit step model-checked exhaustively with TLC over turn histories x store-fault plans x kill switch x cadence/bust settings; every history replayed on apply_changes and on run_turn with a recording all-or-nothing store double, comparing call log, applied multiset, version, cache namespaces, snapshots and emitted records after every turn",
    "text": "Exhaustive model checking of the commit protocol (one batch hand-off in canonical order, per-delta fallback only after a batch failure, at-most-once under an all-or-nothing store, version +1, configured cache invalidation, snapshot cadence, inert kill switch), bound to the code by replaying every explored history on the real apply_changes and on the real run_turn (real t4_filter, injected plans) and comparing the full observable state with the spec after every turn.",
    "note": "Histories of <= 2 (quick) / 3 (thorough) turns over 3 deltas; store double is all-or-nothing per call; decimal version strings only (the documented restart at '1' from a non-numeric version is not generated).",
}

DELTA_IDS = {1: "e:a|rel|b", 2: "n:m", 3: "n:z"}
DELTA_KIND = {1: "edge", 2: "node", 3: "node"}


MAGS = [0.125, 0.0, -0.25]       # an approved delta may be 0.0 (two ops on one target that cancel) or negative


def _deltas(ids, salt=None):
    from clematis.engine.types import ProposedDelta
    return [ProposedDelta(target_kind=DELTA_KIND[i], target_id=DELTA_IDS[i], attr="weight",
                          delta=(0.125 if salt is None else MAGS[(i + salt) % 3]), op_idx=None, idx=n)
            for n, i in enumerate(ids)]


def replay_history(case) -> List[Tuple[str, str]]:
    from .. import engine as E
    import clematis.engine.orchestrator as orch
    from clematis.engine.apply import apply_changes
    from clematis.engine.types import T4Result, Plan
    from clematis.engine.cache import CacheManager
    consts, h, variant = case["consts"], case["h"], case["variant"]
    work = tempfile.mkdtemp(prefix="c04_", dir=case["workdir"])
    fails: List[Tuple[str, str]] = []
    try:
        snapdir = os.path.join(work, "snaps")
        ns_cfg = list(consts["Namespaces"])
        # the configured list as the file spells it: in every other case a namespace that never held an entry leads the
        # list and one namespace is listed twice (both legal; neither may keep a later namespace from being emptied)
        ns_listed = (["x:never"] + ns_cfg + ns_cfg[:1]) if (case.get("flip", 0) + len(h)) % 2 == 0 else ns_cfg
        base = {"t4": {"snapshot_dir": snapdir, "snapshot_every_n_turns": consts["Cadence"],
                       "cache_bust_mode": "on-apply" if consts["Bust"] else "none",
                       "cache": {"enabled": True, "namespaces": ns_cfg, "max_entries": 64, "ttl_sec": 600}}}
        cfg_on = E.validated_cfg(base)
        # the manager in the state is used by T2 whether or not t4.cache.enabled is set (the flag only decides whether
        # run_turn creates one), so busting applies to it under either value: toggled between turns
        cfg_on_nocache = E.validated_cfg(E.deep_merge(base, {"t4": {"cache": {"enabled": False}}}))
        cfg_off = E.validated_cfg(E.deep_merge(base, {"t4": {"enabled": False}}))
        # (the validator only admits the namespace names it knows; the longer list is set on the normalised configuration,
        # as a raw configuration would deliver it)
        for c_ in (cfg_on, cfg_on_nocache, cfg_off):
            c_["t4"]["cache"]["namespaces"] = list(ns_listed)
        # every third case uses a store with the optional hooks: falsy while empty (__len__) and export_state(), which
        # raises in every sixth case (a store error inside the snapshot writer must not abort the turn either)
        sk = case.get("storekind", 0)
        store = E.RecordingStore() if sk == 0 else E.ExportingStore(export_raises=(sk == 2))
        # (run_turn variant, every other case) the state has not booted yet: the first turn runs the boot hook on the empty
        # snapshot directory; no later turn - of whichever agent - may run it again
        state = E.mk_state(E.DEFAULT_GRAPHS, [], store=None, boot_loaded=not (variant == "turn" and case.get("flip")))
        store.inner = state["store"]
        store.noop_ids = {DELTA_IDS[max(consts["Deltas"])]}     # a successful call may report fewer edits than deltas
        state["store"] = store
        cm = CacheManager(max_entries=64, ttl_sec=600, time_fn=lambda: 1000.0)
        state["_cache_mgr"] = cm
        E.reset_global_caches()
        prev_version = "0"
        total_applied: Dict[str, int] = {}
        for step in h:
            turn = step["turn"]
            ids = list(step["approved"])
            store.new_turn(batch_raises=step["batch_fails"], single_raises={DELTA_IDS[i] for i in step["single_fails"]})
            store.report = step.get("report", "counts")
            # one live entry per known namespace before the apply
            for ns in consts["AllNamespaces"]:
                try:
                    cm.invalidate_namespace(ns)
                except Exception as e:      # the manager's own API: emptying a namespace that holds nothing is a no-op
                    fails.append(("BustWhenConfigured", f"turn {turn}: CacheManager.invalidate_namespace({ns!r}) raised {type(e).__name__}: {e} on a namespace without entries"))
                    return fails
                cm.set(ns, ("k", turn), "v")
            snap_before = _snap_listing(snapdir)
            cfg = cfg_off if step["kill"] else (cfg_on if (turn + len(ids) + case.get("flip", 0)) % 2 == 0 else cfg_on_nocache)
            # in every other case a second agent joins the shared state half-way through the history (its first turn comes
            # after commits that the newest snapshot on disk does not hold)
            agent_ = "B" if (case.get("flip") and turn > (len(h) + 1) // 2) else "A"
            ctx = E.mk_ctx(cfg, agent_, turn)
            if case.get("cfgonly"):
                # the engine's own TurnCtx type carries the configuration as `cfg` only (no `config` alias)
                delattr(ctx, "config")
            recs: Dict[str, List[dict]] = {}
            if variant == "apply":
                if step["kill"]:
                    # the kill switch lives in run_turn; nothing to call at the apply level
                    pass
                else:
                    t4 = T4Result(approved_deltas=_deltas(ids, salt=turn + case.get("flip", 0)), rejected_ops=[], reasons=[], metrics={})
                    try:
                        res = apply_changes(ctx, state, t4)
                    except Exception as e:
                        fails.append(("StoreErrorsNeverAbort", f"turn {turn}: apply_changes raised {type(e).__name__}: {e}"))
                        break
                    if str(res.version_etag) != str(step["version"]):
                        fails.append(("VersionPlusOne", f"turn {turn}: ApplyResult.version_etag={res.version_etag}, spec {step['version']}"))
                    if bool(res.snapshot_path) != step["snapshot"]:
                        fails.append(("SnapshotCadence", f"turn {turn}: snapshot_path={res.snapshot_path}, spec snapshot={step['snapshot']} (cadence {consts['Cadence']})"))
                    inv = int((res.metrics or {}).get("cache_invalidations", 0))
                    if inv != step["invalidated"]:
                        fails.append(("BustWhenConfigured", f"turn {turn}: cache_invalidations={inv}, spec {step['invalidated']}"))
            else:
                plan = Plan(version="t3-plan-v1", ops=[], deltas=_deltas(ids))
                with E.LogCapture() as cap, E.patched_attr(orch, t3_deliberate=lambda c, s, b, _p=plan: _p):
                    try:
                        if case.get("flip") and not step["kill"]:
                            # the same turn through the multi-agent driver's sequential path (one real run_turn on a
                            # per-agent clone of the driver's context): the commit must obey the same t4 settings
                            import clematis.engine.orchestrator.parallel as par
                            par._run_agents_parallel_batch(E.mk_ctx(cfg, "driver", turn), state, [("A", "apple")])
                        else:
                            orch.run_turn(ctx, state, "apple")
                    except Exception as e:
                        fails.append(("StoreErrorsNeverAbort", f"turn {turn}: run_turn raised {type(e).__name__}: {e}"))
                        break
                recs = cap.by_stream()
                has = ("t4.jsonl" in recs, "apply.jsonl" in recs)
                if has != (step["records"], step["records"]):
                    fails.append(("KillSwitchInert" if step["kill"] else "HandOffExact",
                                  f"turn {turn}: t4/apply records present={has}, spec {step['records']}"))
                if step["records"] and "apply.jsonl" in recs:
                    ap = recs["apply.jsonl"][0]
                    if str(ap.get("version_etag")) != str(step["version"]):
                        fails.append(("VersionPlusOne", f"turn {turn}: apply record version={ap.get('version_etag')}, spec {step['version']}"))
                    if bool(ap.get("snapshot")) != step["snapshot"]:
                        fails.append(("SnapshotCadence", f"turn {turn}: apply record snapshot={ap.get('snapshot')}, spec {step['snapshot']}"))
                    # run_turn itself stores this turn's T2 result in t2:semantic before the apply
                    want_inv = step["invalidated"] + (1 if (consts["Bust"] and "t2:semantic" in ns_cfg) else 0)
                    if int(ap.get("cache_invalidations", 0)) != want_inv:
                        fails.append(("BustWhenConfigured", f"turn {turn}: cache_invalidations={ap.get('cache_invalidations')}, spec {want_inv}"))
                if "turn.jsonl" not in recs:
                    fails.append(("StoreErrorsNeverAbort", f"turn {turn}: no turn record emitted"))
            if variant == "apply" and step["kill"]:
                continue
            # ---- state comparison ----
            want_calls = [(c["kind"], [DELTA_IDS[i] for i in c["ids"]], "ok" if c["ok"] else "raise") for c in step["calls"]]
            if store.calls != want_calls:
                if store.calls and want_calls and store.calls[0] != want_calls[0]:
                    clause = "HandOffExact"
                elif len(store.calls) > 1 and (not want_calls or want_calls[0][2] == "ok"):
                    clause = "FallbackOnlyOnBatchFailure"
                elif step["kill"]:
                    clause = "KillSwitchInert"
                else:
                    clause = "FallbackOnlyOnBatchFailure"
                fails.append((clause, f"turn {turn}: store calls {store.calls}, spec {want_calls}"))
            okset = set()
            for c in step["calls"]:
                if c["ok"]:
                    okset |= {DELTA_IDS[i] for i in c["ids"]}
            for d in okset:
                total_applied[d] = total_applied.get(d, 0) + 1
            if store.applied != total_applied:
                over = [k for k, v in store.applied.items() if v > total_applied.get(k, 0)]
                fails.append(("AtMostOnce" if over else "HandOffExact", f"turn {turn}: store applied multiset {store.applied}, spec {total_applied}"))
            ver = str(state.get("version_etag"))
            if ver != str(step["version"]):
                fails.append(("KillSwitchInert" if step["kill"] else "VersionPlusOne", f"turn {turn}: state version {ver}, spec {step['version']} (before {prev_version})"))
            prev_version = ver
            snap_after = _snap_listing(snapdir)
            wrote = snap_after != snap_before
            if wrote != step["snapshot"]:
                fails.append(("KillSwitchInert" if step["kill"] else "SnapshotCadence",
                              f"turn {turn}: snapshot written={wrote}, spec {step['snapshot']} (cadence {consts['Cadence']})"))
            # namespaces: configured ones emptied iff bust (and committed), others untouched
            for ns in consts["AllNamespaces"]:
                inner = cm._ns.get(ns)
                size = inner.size() if inner is not None else 0
                want = 0 if (not step["kill"] and consts["Bust"] and ns in ns_cfg) else 1
                if variant == "turn" and ns == "t2:semantic" and want == 1:
                    want_ok = size in (1, 2)       # run_turn itself caches its T2 result in this namespace
                else:
                    want_ok = size == want
                if not want_ok:
                    fails.append(("BustWhenConfigured", f"turn {turn}: namespace {ns} holds {size} entries, spec {want}"))
            if fails:
                break
        return fails
    finally:
        shutil.rmtree(work, ignore_errors=True)


def _snap_listing(d):
    if not os.path.isdir(d):
        return ()
    out = []
    for n in sorted(os.listdir(d)):
        p = os.path.join(d, n)
        st = os.stat(p)
        out.append((n, st.st_mtime_ns, st.st_size, st.st_ino))
    return tuple(out)


def check(run) -> None:
    q = run.quick
    run.rule = ("every terminal history of the exhaustively explored ApplyCommit model, per (cadence, bust, namespaces, start turn) setting, "
                "replayed through apply_changes and (every 5th in quick, every 3rd in thorough, kill-switch histories every 2nd) through run_turn; distinct = (settings, history, variant)")
    invs = ["VersionPlusOne", "SnapshotCadence", "AtMostOnce", "FallbackOnlyOnBatchFailure", "HandOffExact", "KillSwitchInert"]
    settings = []
    for cadence in ([1, 2, 3] if not q else [1, 2]):
        for bust in (True, False):
            for ns in ([["t2:semantic"], []] if bust else [["t2:semantic"]]):
                for start in ([0, 1] if cadence > 1 else [1]):
                    settings.append((cadence, bust, ns, start))
    nturns = 2 if q else 3
    cases = []
    for (cadence, bust, ns, start) in settings:
        consts = {"Deltas": [1, 2, 3] if nturns == 2 else [1, 2], "NTurns": nturns, "Start": start, "Cadence": cadence, "Bust": bust,
                  "Namespaces": ns, "AllNamespaces": ["t2:semantic", "x:other"],
                  "Reports": ((["counts", "none", "empty", "edits_none"] if (cadence == 1 and bust) else ["counts", "edits_none"]) if not q
                              else (["counts", "edits_none", "none"] if (cadence == 1 and bust) else ["counts"]))}
        cfg = make_cfg(consts, invs, [], emit=False, view=None, constraint="EmitDone")
        res = run.tlc("ApplyCommit", cfg, name=f"ApplyCommit_c{cadence}_b{int(bust)}_n{len(ns)}_s{start}", workers=4, timeout_s=900)
        run.model_must_hold(res)
        for k, b in enumerate(res.emitted):
            cases.append({"consts": consts, "h": b["h"], "variant": "apply", "workdir": run.workdir, "flip": len(cases) % 2, "cfgonly": (len(cases) // 2) % 2, "storekind": [0, 0, 0, 1, 0, 2][len(cases) % 6]})
            if k % (5 if q else 3) == 0 or any(s["kill"] for s in b["h"]) and k % 2 == 0:
                cases.append({"consts": consts, "h": b["h"], "variant": "turn", "workdir": run.workdir, "flip": len(cases) % 2, "cfgonly": (len(cases) // 2) % 2, "storekind": [0, 0, 0, 1, 0, 2][len(cases) % 6]})
    outs = pmap(replay_history, cases, chunk=20)
    for c, fails in zip(cases, outs):
        run.traces += 1
        cc = {k: v for k, v in c.items() if k != "workdir"}
        run.case(json.dumps(cc, sort_keys=True))
        if not fails:
            run.ok(f"ApplyCommit.{c['variant']}.conforms")
        for clause, msg in fails:
            sig = {"variant": c["variant"], "clause": clause}
            if c.get("cfgonly"):
                sig = {"ctx": "cfg-only", "clause": clause}
            run.fail(clause, sig, cc, f"[{c['variant']}{' ctx.cfg only' if c.get('cfgonly') else ''}] {msg}", replay={"case": cc})
    run.sample({"history": cases[len(cases) // 2]["h"], "consts": cases[len(cases) // 2]["consts"]}, cap=3)
    from . import c04_sessions
    c04_sessions.check(run)
    run.exhaustive = True
    run.assumptions += ["the store double is all-or-nothing per call (a raising call applies nothing)",
                        "approved lists are injected through the documented orchestrator.t3_deliberate override; the real t4_filter approves them unchanged (magnitudes within all caps)"]


def replay(rep) -> int:
    c = dict(rep["replay"]["case"])
    os.makedirs("/verif/.work/C04", exist_ok=True)
    c["workdir"] = "/verif/.work/C04"
    fails = replay_history(c)
    for f in fails:
        print(": ".join(f))
    if fails:
        print(f"VIOLATION property=C04 replay={rep.get('_path', '?')}")
        return 1
    print("replay: conforms")
    return 0
