"""X10 (extra, beyond the listed properties) — the deterministic operator console.

(M)    Console.tla: the console as a state machine over what really persists between its invocations (snapshot
       directory with modification order, log directory, bundle files) with the commands reset / status / step /
       compare and malformed command lines; clauses as action properties (the observation `last` is hidden by the
       VIEW): StatusIsPure, ResetFailureLeavesState, ResetLoadsChosenSnapshot, StepAdvancesExactlyOne,
       StepDeterministic, CompareReflexive, CompareSymmetric, CompareDetectsDifference, ExitCodesAsDocumented,
       NothingWrittenOutsideOut, WarnsOnlyWhereDocumented; behaviours bounded by a counter variable.
(S->C)  TLC enumerates every behaviour of up to MaxSteps steps with any number of interleaved reset / status /
       compare / misuse commands.  The behaviours share prefixes, so the replay walks TLC's state graph: every
       reachable abstract state is realised ON DISK by a real history of console commands (starting from a
       materialised initial world), and every transition out of it is replayed IN-PROCESS on the real console
       through main(argv) (alternating with the umbrella CLI entry clematis.cli.main.main(["console","--",...])),
       inside a scratch root with cwd, CLEMATIS_LOG_DIR, CLEMATIS_SNAPSHOT_DIR(S), TMPDIR and HOME redirected.
       After each command: exit code, stdout projection, stderr discipline, the run_turn calls (how many, with which
       clock and text), the exact set of files created / modified, and the projection of the directories back to
       the abstract state are compared with the spec.  Every successful step is replayed twice from the same
       state: identical bundles (byte-identical under CI=true, else modulo the volatile timing fields).
       adapter_reset / adapter_step / adapter_status / find_latest_snapshot / summarize_bundle / compare_bundles are
       also called directly in every state.
       A handful of complete behaviours is run through a real subprocess `python -m clematis console -- ...`
       (different PYTHONHASHSEED) and again in-process from scratch: same exit codes, states and bundles.

Where the documentation is silent or the code deviates from it the model follows the code (Console.tla, header
I1-I8) and the run reports the deviations as notes.  X10_STRICT=1 switches the model of `step --snapshot PATH`
to the behaviour its help text promises (Console.tla constant BootHook = FALSE): the check then fails on the
unchanged tree with the reproducer of that deviation.  No optional dependency is needed: the console runs with
the packaged exporter (clematis.scripts.export_logs_for_frontend.build_run_bundle) and the rule-based T3 backend.
"""
from __future__ import annotations

import json
import multiprocessing as mp
import os
import shutil
import subprocess
import tempfile
import zlib
from typing import Any, Dict, List, Tuple

from ..util import Def, NPROC, make_cfg, split_defs
from . import x10_console as K

MANIFEST = {"technique": "TLA+ state machine of the operator console (snapshot directory, log directory, bundle files; reset / status / step / compare / misuse) "
                         "model-checked with TLC; every transition of the state graph replayed on the real console in-process through main(argv) and the umbrella CLI "
                         "from states realised by real histories, twin replays for determinism, adapter_* called directly, complete behaviours through a real subprocess",
            "text": "extra spec beyond the listed properties", "note": "not a listed property; run with ./check X10"}

INVARIANTS = ["DirWellFormed", "StepsCounted"]
PROPERTIES = ["StatusIsPure", "ResetFailureLeavesState", "ResetLoadsChosenSnapshot", "StepAdvancesExactlyOne", "StepDeterministic", "CompareReflexive",
              "CompareSymmetric", "CompareDetectsDifference", "ExitCodesAsDocumented", "NothingWrittenOutsideOut", "WarnsOnlyWhereDocumented"]
PROCS = max(1, min(4, NPROC))
# X10_STRICT=1 models `step --snapshot PATH` as its help text promises (the state of PATH is stepped) instead of as
# implemented (Console.tla I7): the check then fails with the reproducer of that deviation
STRICT = os.environ.get("X10_STRICT", "") == "1"


# ---- universes -----------------------------------------------------------------------------------------------
def _s(xs) -> str:
    return "{" + ", ".join('"%s"' % x for x in xs) + "}"


def _world(d, logdir, badenv=(), sched=False) -> str:
    return "<< <<%s>>, [logdir |-> \"%s\", badenv |-> %s, sched |-> %s] >>" % (", ".join('"%s"' % x for x in d), logdir, _s(badenv), "TRUE" if sched else "FALSE")


def constants(quick: bool, wide: bool = False) -> Dict[str, Any]:
    hs = ("PYTHONHASHSEED",)
    if quick:
        worlds = [_world([], "set"), _world(["alpha", "beta"], "set", hs, True), _world(["beta", "alpha"], "unset", ("TZ", "PYTHONHASHSEED")),
                  _world(["alpha", "delta"], "set", hs), _world(["alpha", "gamma"], "set", ("CLEMATIS_NETWORK_BAN",))]
        return {"Worlds": Def("{" + ", ".join(worlds) + "}"), "SnapArgs": ["none", "alpha", "beta", "gamma", "console", "ghost"],
                "StepSnapArgs": ["none", "alpha", "console", "ghost"], "NowInputs": Def("{<<1, 1>>, <<0, 2>>}"), "StepOuts": ["none", "o1", "o2"], "T3s": [False, True],
                "CmpFiles": ["o1", "o2", "p1", "p2", "p3", "junk", "ghost"], "Misuses": ["nocmd", "badcmd", "cmp_no_b", "badint"], "MaxSteps": 2, "BootHook": not STRICT}
    if not wide:     # deep: three steps, small alphabet
        worlds = [_world([], "set"), _world(["alpha", "beta"], "set", hs, True), _world(["beta", "alpha"], "set"),
                  _world(["alpha"], "unset", ("TZ", "PYTHONHASHSEED")), _world(["delta", "alpha"], "set", hs), _world(["alpha", "gamma"], "set", ("TZ",))]
        return {"Worlds": Def("{" + ", ".join(worlds) + "}"), "SnapArgs": ["none", "alpha", "beta", "console", "ghost"], "StepSnapArgs": ["none", "alpha", "console", "ghost"],
                "NowInputs": Def("{<<1, 1>>, <<0, 2>>}"), "StepOuts": ["none", "o1", "o2"], "T3s": [False, True],
                "CmpFiles": ["o1", "o2", "p1", "p2", "p3", "junk", "ghost"], "Misuses": sorted(K.MISUSE), "MaxSteps": 3, "BootHook": not STRICT}
    worlds = []      # wide: two steps, every option value, every directory shape
    for i, d in enumerate([[], ["alpha"], ["beta"], ["alpha", "beta"], ["beta", "alpha"], ["alpha", "gamma"], ["gamma", "alpha"], ["delta", "alpha"], ["alpha", "delta"]]):
        worlds.append(_world(d, "set", hs if i % 2 else (), sched=bool(i % 3 == 0)))
        if i % 2 == 0:
            worlds.append(_world(d, "unset", ("CLEMATIS_NETWORK_BAN",) if i % 4 else ("TZ", "PYTHONHASHSEED")))
    return {"Worlds": Def("{" + ", ".join(worlds) + "}"), "SnapArgs": ["none", "alpha", "beta", "gamma", "delta", "console", "ghost"],
            "StepSnapArgs": ["none", "alpha", "beta", "gamma", "console", "ghost"], "NowInputs": Def("{<<1, 1>>, <<2, 0>>, <<0, 2>>}"),
            "StepOuts": ["none", "o1", "o2"], "T3s": [False, True], "CmpFiles": ["o1", "o2", "p1", "p2", "p3", "junk", "ghost"],
            "Misuses": sorted(K.MISUSE), "MaxSteps": 2, "BootHook": not STRICT}


# ---- the walk over TLC's state graph -------------------------------------------------------------------------
def _mode(pre) -> Dict[str, Any]:
    m = pre["mode"]
    return {"logdir": m["logdir"], "badenv": sorted(m["badenv"] or []), "sched": bool(m["sched"])}


def _key(st) -> str:
    return json.dumps([K.norm_state(st), _mode(st)], sort_keys=True)


def _h(obs) -> int:
    return zlib.crc32(json.dumps(obs, sort_keys=True).encode())


def _variant(obs) -> Tuple[bool, int]:
    h = _h(obs)
    return bool(h & 1), (h >> 1) & 1       # (CI=true?, entry: 0 = console.main, 1 = umbrella CLI)


def _exact(t, mode, ci) -> bool:
    return bool(ci and not t["obs"]["t3"] and mode["logdir"] == "set" and t["obs"]["out"] != "none")


def step_with_twin(repdir: str, scratch: str, tag: str, t, mode, twin: bool):
    """one step transition from a copy of the representative directory (+ a second replay from another copy)"""
    ci, route = _variant(t["obs"])
    s1 = os.path.join(scratch, tag + "a")
    K.copy_world(repdir, s1)
    fails, info = K.exec_transition(s1, t, mode, "in", ci, route)
    if twin and t["obs"]["rc"] == 0 and not fails:
        s2 = os.path.join(scratch, tag + "b")
        K.copy_world(repdir, s2)
        f2, info2 = K.exec_transition(s2, t, mode, "in", ci, 1 - route)
        fails += [(c, m + " [second replay, other entry point]") for c, m in f2]
        if not f2:
            m = K.same_bundle(info, s1, info2, s2, mode, _exact(t, mode, ci))
            if m:
                fails.append(("StepDeterministic", f"`console {' '.join(info['argv'])}` twice from the same state ({'CI=true' if ci else 'no CI'}; logdir {mode['logdir']}): {m}"))
        shutil.rmtree(s2, ignore_errors=True)
    return fails, s1


def _work(task):
    """all transitions out of one abstract state, from its representative directory"""
    key, repdir, hist, init, trans, opts = task
    mode = _mode(trans[0]["pre"])
    scratch = tempfile.mkdtemp(prefix="w_", dir=opts["scratch"])
    results: List[Tuple[int, List[Tuple[str, str]], Dict[str, Any]]] = []
    newreps: Dict[str, Tuple[str, list]] = {}
    w = os.path.join(scratch, "W")
    K.copy_world(repdir, w)
    base = {"init": init, "hist": hist}
    try:
        for i, t in enumerate(trans):
            if t["obs"]["cmd"] == "step":
                continue
            ci, route = _variant(t["obs"])
            fails, _ = K.exec_transition(w, t, mode, "in", ci, route)
            results.append((t["_i"], fails, dict(base, kind="transition", t=t)))
            if fails:       # a command that should be pure may have left traces: start again from the representative
                shutil.rmtree(w, ignore_errors=True)
                K.copy_world(repdir, w)
        fails = K.direct_checks(w, trans[0]["pre"], mode, None)
        results.append((-1, fails, dict(base, kind="direct", pre=trans[0]["pre"])))
        for i, t in enumerate(trans):
            if t["obs"]["cmd"] != "step":
                continue
            twin = opts["twin"] or (_h(t["obs"]) % 3 == 0)
            fails, s1 = step_with_twin(repdir, scratch, f"s{i}", t, mode, twin)
            results.append((t["_i"], fails, dict(base, kind="step", t=t, twin=twin)))
            pk = _key(t["post"])
            if not fails and t["obs"]["rc"] == 0 and pk != key and pk not in newreps and pk not in opts["known"]:
                dst = tempfile.mkdtemp(prefix=f"r{zlib.crc32(pk.encode()):08x}_", dir=opts["reps"])
                os.rename(s1, dst)          # (onto the fresh empty directory: a unique name)
                newreps[pk] = (dst, hist + [t])
            else:
                shutil.rmtree(s1, ignore_errors=True)
            o = t["obs"]
            if o["rc"] == 0 and o["sarg"] == "none" and o["out"] == "none" and not o["t3"] and o["clock"] == 1:
                d = os.path.join(scratch, f"d{i}")
                K.copy_world(repdir, d)
                fails = K.direct_checks(d, t["pre"], mode, t)
                results.append((-2, fails, dict(base, kind="direct_step", t=t)))
                shutil.rmtree(d, ignore_errors=True)
    finally:
        shutil.rmtree(scratch, ignore_errors=True)
    return key, results, newreps


def _sub_path(task):
    """one complete behaviour: through real subprocesses, and again in-process from scratch"""
    init, path, opts = task
    mode = _mode(init)
    ci = bool(opts.get("ci"))       # one setting for the whole behaviour: the log directory accumulates the records of all its steps
    scratch = tempfile.mkdtemp(prefix="p_", dir=opts["scratch"])
    fails: List[Tuple[str, str]] = []
    try:
        roots = {"sub": os.path.join(scratch, "sub"), "in": os.path.join(scratch, "inproc")}
        infos: Dict[str, list] = {"sub": [], "in": []}
        for runner, root in roots.items():
            os.makedirs(root)
            K.materialise(root, init, mode)
            for j, t in enumerate(path):
                f, info = K.exec_transition(root, t, mode, runner, ci, 1 if runner == "in" or j % 2 == 0 else 0)
                fails += [(c, m + f" [command {j + 1} of a {len(path)}-command behaviour]") for c, m in f]
                infos[runner].append(info)
        for j, t in enumerate(path):
            a, b = infos["sub"][j], infos["in"][j]
            if a["res"]["rc"] != b["res"]["rc"]:
                fails.append(("ExitCodesAsDocumented", f"`console {' '.join(a['argv'])}`: exit {a['res']['rc']} in a subprocess, {b['res']['rc']} in-process"))
            if t["obs"]["cmd"] == "step" and t["obs"]["rc"] == 0 and a["bundle"] is not None and b["bundle"] is not None:
                t3_so_far = any(x["obs"]["cmd"] == "step" and x["obs"]["rc"] == 0 and x["obs"]["t3"] for x in path[:j + 1])
                m = K.same_bundle(a, roots["sub"], b, roots["in"], mode, _exact(t, mode, ci) and not t3_so_far)
                if m:
                    fails.append(("StepDeterministic", f"`console {' '.join(a['argv'])}` (command {j + 1}) in a subprocess with another PYTHONHASHSEED vs in-process: {m}"))
    finally:
        shutil.rmtree(scratch, ignore_errors=True)
    return fails


def _pool_map(fn, tasks):
    if not tasks:
        return []
    if PROCS <= 1 or len(tasks) == 1:
        return [fn(t) for t in tasks]
    with mp.get_context("fork").Pool(min(PROCS, len(tasks))) as pool:
        return list(pool.imap_unordered(fn, tasks, chunksize=1))


def _git_status() -> str:
    try:
        p = subprocess.run(["git", "-C", K.repo(), "status", "--short"], capture_output=True, text=True, timeout=120)
        return p.stdout
    except Exception:
        return ""


def _find(by_pre, key, pred):
    for t in by_pre.get(key, []):
        if pred(t["obs"]):
            return t
    return None


def _paths(reps, by_pre, inits, n) -> List[Tuple[dict, list]]:
    """complete behaviours for the subprocess runs: the longest step histories of worlds whose environment really
    deviates in PYTHONHASHSEED, interleaved with reset / status / compare / a malformed command line"""
    cands = []
    for key, (d, hist, init) in reps.items():
        if not hist or "PYTHONHASHSEED" not in _mode(init)["badenv"]:
            continue
        outs = sum(1 for t in hist if t["obs"]["out"] != "none")
        t3 = sum(1 for t in hist if t["obs"]["t3"])
        cands.append((-len(hist), -min(outs, 2), -min(t3, 1), json.dumps([t["obs"] for t in hist], sort_keys=True), hist, init))
    cands.sort(key=lambda c: c[:4])
    per_world: Dict[str, list] = {}
    for c in cands:
        per_world.setdefault(_key(c[5]), []).append(c)
    ordered, rnd = [], 0
    while any(len(v) > rnd for v in per_world.values()) and len(ordered) < 50 * max(1, n):
        for wk in sorted(per_world):
            if len(per_world[wk]) > rnd:
                ordered.append(per_world[wk][rnd])
        rnd += 1
    out, seen = [], set()
    for c in ordered:
        hist, init = c[4], c[5]
        fam = (_key(init), tuple((t["obs"]["sarg"], t["obs"]["out"], t["obs"]["t3"]) for t in hist))
        if fam in seen:
            continue
        seen.add(fam)
        path = []
        k0 = _key(init)
        for want in (lambda o: o["cmd"] == "reset" and o["sarg"] == "none", lambda o: o["cmd"] == "misuse" and o["what"] == "badcmd"):
            t = _find(by_pre, k0, want)
            if t:
                path.append(t)
        for t in hist:
            path.append(t)
            k = _key(t["post"])
            s = _find(by_pre, k, lambda o: o["cmd"] == "status" and o["sarg"] == "none")
            if s:
                path.append(s)
        k = _key(hist[-1]["post"])
        for want in (lambda o: o["cmd"] == "compare" and o["a"] == "o1" and o["b"] == "o1", lambda o: o["cmd"] == "compare" and o["a"] == "o1" and o["b"] == "p1",
                     lambda o: o["cmd"] == "compare" and o["a"] == "p2" and o["b"] == "o1", lambda o: o["cmd"] == "compare" and o["a"] == "p1" and o["b"] == "ghost",
                     lambda o: o["cmd"] == "reset" and o["sarg"] == "ghost"):
            t = _find(by_pre, k, want)
            if t:
                path.append(t)
        out.append((init, path))
        if len(out) >= n:
            break
    return out


def _explore(run, consts, name, twin_all: bool, nsub: int):
    from ..tlc import TLCError
    cfg = make_cfg(consts, INVARIANTS, PROPERTIES, emit=True, view="View_")
    res = run.tlc("Console", cfg, name=name, workers=1, timeout_s=1500, defs=split_defs(consts))
    run.model_must_hold(res)
    if not res.emitted:
        raise TLCError("Console emitted no transitions")
    seen, ts = set(), []
    for t in res.emitted:
        k = json.dumps([K.norm_state(t["pre"]), _mode(t["pre"]), t["obs"]], sort_keys=True)
        if k in seen:
            continue
        seen.add(k)
        t["_i"] = len(ts)
        ts.append(t)
    by_pre: Dict[str, list] = {}
    for t in ts:
        by_pre.setdefault(_key(t["pre"]), []).append(t)
    base = os.path.join(run.workdir, "worlds_" + name)
    shutil.rmtree(base, ignore_errors=True)
    repsdir, scratch = os.path.join(base, "reps"), os.path.join(base, "scratch")
    os.makedirs(repsdir)
    os.makedirs(scratch)
    reps: Dict[str, Tuple[str, list, dict]] = {}
    inits = [k for k, v in by_pre.items() if "console" not in K.norm_state(v[0]["pre"])["files"] and not K.norm_state(v[0]["pre"])["log"]
             and all(b["kind"] != "run" for b in K.norm_state(v[0]["pre"])["outs"].values())]
    for n, k in enumerate(sorted(inits)):
        pre = by_pre[k][0]["pre"]
        d = os.path.join(repsdir, f"init{n}")
        os.makedirs(d)
        K.materialise(d, pre, _mode(pre))
        got = K.project(d)
        if got != K.norm_state(pre):
            raise TLCError(f"X10: could not materialise the initial world {K.norm_state(pre)}: {got}")
        reps[k] = (d, [], pre)
    if not reps:
        raise TLCError("X10: no initial state among the emitted transitions")
    import clematis.scripts.console  # noqa: F401  (imported before forking)
    import clematis.cli.main  # noqa: F401
    import clematis.engine.orchestrator.core  # noqa: F401
    frontier, done, nviol = sorted(reps), set(), 0
    failed_keys = set()
    while frontier:
        tasks = [(k, reps[k][0], reps[k][1], reps[k][2], by_pre[k], {"scratch": scratch, "reps": repsdir, "twin": twin_all, "known": frozenset(reps)}) for k in frontier if k in by_pre]
        done.update(frontier)
        nxt = []
        for key, results, newreps in _pool_map(_work, tasks):
            for ti, fails, rp in results:
                run.traces += 1
                if ti >= 0:
                    t = ts[ti]
                    run.case(json.dumps([K.norm_state(t["pre"]), _mode(t["pre"]), t["obs"]], sort_keys=True))
                    cname = t["obs"]["cmd"]
                else:
                    run.case((name, key, ti, json.dumps(rp.get("t", {}).get("obs"), sort_keys=True)))
                    cname = "adapters_direct" if ti == -1 else "adapter_step_direct"
                if not fails:
                    run.ok(f"Console.{cname}_conforms")
                for clause, msg in fails:
                    nviol += 1
                    o = rp.get("t", {}).get("obs", {})
                    run.fail(clause, {"clause": clause, "cmd": cname, "err": o.get("err", "-")}, {"obs": o, "history": [h["obs"] for h in rp["hist"]]}, msg,
                             replay={k2: v for k2, v in rp.items()})
            for pk, (d, hist) in sorted(newreps.items()):
                if pk in reps:
                    shutil.rmtree(d, ignore_errors=True)
                    continue
                reps[pk] = (d, hist, reps[key][2])
                nxt.append(pk)
        frontier = sorted(set(nxt) - done)
    unreached = [k for k in by_pre if k not in done]
    if unreached and not run.violations:
        raise TLCError(f"X10: {len(unreached)} abstract states of the model were not realised by a real history")
    # per-clause counts of the transitions in which the clause has something to say
    for t in ts:
        o = t["obs"]
        if o["cmd"] == "status":
            run.ok("StatusIsPure")
        if o["rc"] != 0:
            run.ok("ResetFailureLeavesState")
        if o["cmd"] in ("reset", "status") and o["rc"] == 0:
            run.ok("ResetLoadsChosenSnapshot")
        if o["cmd"] == "step" and o["rc"] == 0:
            run.ok("StepAdvancesExactlyOne")
            run.ok("StepDeterministic")
            run.ok("NothingWrittenOutsideOut")
        if o["cmd"] == "compare":
            run.ok("CompareSymmetric")
            if o["a"] == o["b"] and o["err"] == "none":
                run.ok("CompareReflexive")
            if o["err"] == "none" and o["rc"] == 1:
                run.ok("CompareDetectsDifference")
        run.ok("ExitCodesAsDocumented")
        if o["warn"]:
            run.ok("WarnsOnlyWhereDocumented")
    # complete behaviours through a real subprocess
    paths = _paths(reps, by_pre, inits, nsub)
    if nsub and not paths and not run.violations:
        raise TLCError("X10: no behaviour selected for the subprocess runs")
    for (init, path), fails in zip(paths, _pool_map_ordered(_sub_path, [(init, path, {"scratch": scratch, "ci": i % 2 == 0}) for i, (init, path) in enumerate(paths)])):
        run.traces += 1
        run.case((name, "subprocess", json.dumps([t["obs"] for t in path], sort_keys=True)))
        if not fails:
            run.ok("Console.subprocess_behaviour_conforms")
        for clause, msg in fails:
            run.fail(clause, {"clause": clause, "cmd": "subprocess"}, {"commands": [K.argv_of(t["obs"]) for t in path]}, msg,
                     replay={"kind": "path", "init": init, "path": path, "ci": paths.index((init, path)) % 2 == 0})
    run.extra.setdefault("explorations", []).append({"name": name, "transitions": len(ts), "abstract_states": len(by_pre), "realised_states": len(done & set(by_pre)),
                                                     "worlds": len(inits), "subprocess_behaviours": [[" ".join(K.argv_of(t["obs"])) for t in path] for _, path in paths]})
    if ts:
        run.sample({"transition": {k: ts[len(ts) // 2][k] for k in ("pre", "obs")}}, cap=3)
    crashes = {(t["obs"]["cmd"], "compare" if t["obs"]["cmd"] == "compare" else "list") for t in ts if t["obs"]["err"] == "crash"}
    if any(t["obs"]["cmd"] == "step" and t["obs"]["rc"] == 0 and t["obs"]["sarg"] not in ("none", t["obs"]["from"]) for t in ts):
        crashes.add(("step", "boothook"))
    shutil.rmtree(base, ignore_errors=bool(not run.violations))
    return crashes


def _pool_map_ordered(fn, tasks):
    if not tasks:
        return []
    if PROCS <= 1 or len(tasks) == 1:
        return [fn(t) for t in tasks]
    with mp.get_context("fork").Pool(min(PROCS, len(tasks))) as pool:
        return list(pool.imap(fn, tasks, chunksize=1))


def check(run) -> None:
    q = run.quick
    run.rule = ("every transition of the Console model replayed on the real console from a state realised by a real command history (in-process, main(argv) / umbrella CLI); "
                "steps replayed twice; complete behaviours also through `python -m clematis console` subprocesses; distinct = (state, command)")
    before = _git_status()
    crashes = set()
    if q:
        run.constants = {k: str(v) for k, v in constants(True).items()}
        crashes |= _explore(run, constants(True), "Console", twin_all=True, nsub=4)
    else:
        run.constants = {"deep": {k: str(v) for k, v in constants(False).items()}, "wide": {k: str(v) for k, v in constants(False, True).items()}}
        crashes |= _explore(run, constants(False), "Console_deep", twin_all=True, nsub=6)
        crashes |= _explore(run, constants(False, True), "Console_wide", twin_all=True, nsub=6)
    after = _git_status()
    if after != before:
        run.fail("NothingWrittenOutsideOut", {"clause": "NothingWrittenOutsideOut", "cmd": "repository"}, {"before": before, "after": after},
                 f"`git status --short` of the repository changed during the run: {after[:400]!r}", replay={"kind": "none"})
    run.assumptions += ["the console's world has no graph store and no memory index: --input and --now-ms reach the orchestrator (checked at the run_turn seam) but do not show in the bundle",
                        "snapshot directories hold state_*.json files only (the console's own mtime rule and the engine's discovery agree there)",
                        "CLEMATIS_SNAPSHOT_DIR and CLEMATIS_SNAPSHOTS_DIR name the same directory"]
    run.notes.append("as implemented: the console is stateless between invocations; `reset` loads, prints and forgets - what persists is state_console.json in the snapshot directory "
                     "(version + 1 per step, turn id always '1'), the appended stage logs and the bundles (Console.tla I1)")
    run.notes.append("as implemented: with CLEMATIS_LOG_DIR set the bundle of a step holds the records of ALL steps logged so far, not of this turn only; with it unset meta.logs_dir "
                     "is a random temporary path, so bundles are not byte-identical across runs even with CI=true (I3)")
    if any(c[0] == "compare" for c in crashes):
        run.notes.append("deviation from the documented exit codes (0 equal / 1 differs / 2 adapter or misuse): `console compare --a A --b B` with a missing or unparsable file "
                         "ends in an uncaught exception (traceback, exit status 1 = the code for 'differs') - modelled as implemented (I4)")
    if any(c[1] == "list" for c in crashes):
        run.notes.append("deviation from the documented exit codes: a snapshot file holding valid JSON that is not an object (e.g. `[1, 2]`) makes reset / status / step end in an "
                         "uncaught AttributeError (exit status 1) instead of `[console] ERROR: failed to read snapshot` / exit 2 - modelled as implemented (I5)")
    if any(c[1] == "boothook" for c in crashes):
        run.notes.append("deviation from the option's help text ('--snapshot: snapshot .json path'): `console step --snapshot PATH` does not step the state of PATH - the "
                         "orchestrator's boot hook loads the LATEST snapshot of the directory over the freshly loaded state (the console never sets _boot_loaded).  Reproducer: "
                         "directory with state_a.json (version_etag 5, older) and state_b.json (version_etag 8, newer); `console step --snapshot state_a.json --out o.json` "
                         "writes version_etag 9 with b's graph, not 6 with a's - modelled as implemented (I7); X10_STRICT=1 ./check X10 models the promised behaviour and fails")
    run.notes.append("as implemented: a step without --snapshot whose latest snapshot file is truncated silently starts from the empty state (version 0 -> 1), while reset / status "
                     "on the same directory exit 2 (I2)")
    run.exhaustive = False


# ---- replay of a recorded violation ------------------------------------------------------------------------------
def replay(rep) -> int:
    r = rep["replay"]
    if r.get("kind") in (None, "none"):
        print("nothing to replay")
        return 0
    os.makedirs("/verif/.work/X10_replay", exist_ok=True)
    scratch = tempfile.mkdtemp(prefix="r_", dir="/verif/.work/X10_replay")
    fails: List[Tuple[str, str]] = []
    try:
        if r["kind"] == "path":
            fails = _sub_path((r["init"], r["path"], {"scratch": scratch, "ci": r.get("ci", True)}))
        else:
            init = r["init"]
            mode = _mode(init)
            root = os.path.join(scratch, "rep")
            os.makedirs(root)
            K.materialise(root, init, mode)
            for h in r["hist"]:
                ci, route = _variant(h["obs"])
                f, _ = K.exec_transition(root, h, mode, "in", ci, route)
                for c, m in f:
                    print(f"(history) {c}: {m}")
            if r["kind"] == "transition":
                ci, route = _variant(r["t"]["obs"])
                fails, _ = K.exec_transition(root, r["t"], mode, "in", ci, route)
            elif r["kind"] == "step":
                fails, _ = step_with_twin(root, scratch, "s", r["t"], mode, True)
            elif r["kind"] == "direct":
                fails = K.direct_checks(root, r["pre"], mode, None)
            elif r["kind"] == "direct_step":
                fails = K.direct_checks(root, r["t"]["pre"], mode, r["t"])
    finally:
        shutil.rmtree(scratch, ignore_errors=True)
    for f in fails:
        print(": ".join(f))
    if fails:
        print(f"VIOLATION property=X10 replay={rep.get('_path', '?')}")
        return 1
    print("replay: conforms")
    return 0
