"""C13 — planning and speaking stay within caps; untrusted plans are sanitised.

(M)    Planner.tla: five decision tables written from the documentation (Delib, Rag, Turn, Speak, San),
       each enumerated completely by TLC with the C13 clauses as invariants.
(S->C)  every enumerated case concretised (boundary doubles on both sides of each threshold, several
       listings / shapes per case) and run through the real deliberate, rag_once, speak, llm_speak
       (adapter doubles) and run_turn (counting t2_semantic wrapper, captured bundle / plan through the
       documented t3_deliberate / t3_dialogue seams); every sanitiser class vector concretised into
       1-3 strings and run through parse_and_validate, verdict and normalised object compared.
(C->S)  seeded random bundles judged by the clauses directly; seeded garbage for SanitiserTotal.
"""
from __future__ import annotations

import copy
import json
import math
import os
from types import SimpleNamespace
from typing import Any, Dict, List, Optional, Tuple

from ..util import make_cfg, pmap, rng
from . import c13_san

MANIFEST = {
    "technique": "TLA+ decision tables for the rule-based planner, the one-shot retrieval refinement, the turn's retrieval count, token truncation and the LLM-plan sanitiser, enumerated exhaustively by TLC with the cap / threshold / refinement / acceptance clauses as invariants; every enumerated case concretised and replayed on the real deliberate, rag_once, speak, llm_speak, run_turn and parse_and_validate; seeded random bundles and seeded garbage strings for purity and totality",
    "text": "Exhaustive enumeration of class vectors (similarity on both sides of each threshold incl. neighbouring doubles, labels, touched nodes around epsilon, per-turn and per-slice op caps incl. 0, retrieved-score classes, max_rag_loops, raw token counts x token budgets, sanitiser classes fence x payload x prose x size x plan x item x rationale x extra key x reflection) with the expected result from the documented rules, bound to the code by running each case through the real functions and through run_turn with a counting retrieval wrapper; planner purity by repeated calls and deep comparison of arguments; sanitiser totality by seeded random unicode, deep nesting, huge, binary-ish and surrogate strings.",
    "note": "Totality over all strings is bounded testing. Thresholds are carried by the bundle (the planner is a function of its bundle); run_turn cases use what run_turn puts into the bundle (configured t3.policy.* is not propagated there - out-of-scope observation). The utterance is observed at the dialogue seam (speak / llm_speak result, logged speak metrics); when it is empty run_turn echoes the input text as TurnResult.line, which is not judged as an utterance. A Speak op with max_tokens=0 whose bundle carries a different agent token cap is guarded out (0 is treated as 'unset' by speak). Fenced input: the parse_and_validate docstring (single json/jsonc/untagged block accepted) is followed where docs/m3 says 'no code fences'. With the scheduler on, only the t3_ops budget is allowed to bind (huge quantum/wall)."
}

NONE = 99
THR = {1: (400, 800), 2: (250, 750), 3: (500, 500), 4: (0, 1000)}
EPS = 0.10
BIG = [0.1, 0.2, -0.5, 0.30000000000000004, -0.1]
SMALL = [math.nextafter(0.1, 0.0), 0.0, -0.05, 0.0999, -math.nextafter(0.1, 0.0)]
IDS_BIG = ["n:d", "n:b", "n:e", "n:a", "n:c"]
IDS_SMALL = ["n:z", "n:y", "n:x", "n:w", "n:v"]
LABELS = ["zeta", "alpha", "alpha"]
HUGE = 10 ** 9


def _fail(clause, msg, **sig):
    return {"clause": clause, "msg": msg, "sig": dict(sig)}


def sim_floats(v: int, thr: int) -> List[float]:
    """abstract similarity (1/1000) -> doubles of that class: the grid value and, next to a threshold, its neighbouring double"""
    lo, hi = THR[thr]
    out = [v / 1000.0]
    for t in {lo, hi}:
        if v == t - 1:
            out.append(math.nextafter(t / 1000.0, -math.inf))
        if v == t + 1:
            out.append(math.nextafter(t / 1000.0, math.inf))
    return out


def mk_bundle(inp: Dict[str, Any], sim: float, variant: int, tokens: int = 256) -> Dict[str, Any]:
    lo, hi = THR[inp["thr"]]
    nodes = []
    for j in range(inp["nbig"]):
        nodes.append({"id": IDS_BIG[j], "label": IDS_BIG[j].upper(), "delta": BIG[(j + variant) % len(BIG)]})
    for j in range(inp["nsmall"]):
        nodes.append({"id": IDS_SMALL[j], "label": IDS_SMALL[j].upper(), "delta": SMALL[(j + variant) % len(SMALL)]})
    if variant % 2:
        nodes.reverse()
    t3cfg: Dict[str, Any] = {"max_rag_loops": 1, "tokens": tokens, "temp": 0.7}
    if not (inp["thr"] == 1 and variant % 2 == 1):      # documented defaults: the policy block may be absent
        t3cfg["policy"] = {"tau_high": hi / 1000.0, "tau_low": lo / 1000.0, "epsilon_edit": EPS}
    metrics: Dict[str, Any] = {"tier_sequence": [], "k_returned": 0, "sim_stats": {"mean": sim / 2, "max": sim}, "cache_used": False}
    if inp["sim"] == 0 and variant % 2 == 1:
        metrics.pop("sim_stats")                          # absent statistics mean similarity 0
    b: Dict[str, Any] = {
        "version": "t3-bundle-v1", "now": "2025-09-19T00:00:00+00:00",
        "agent": {"id": "agentA", "style_prefix": "", "caps": {"tokens": tokens, "ops": inp["cap"]}},
        "world": {"hot_labels": [], "k": 0},
        "t1": {"touched_nodes": nodes, "metrics": {"pops": 0, "iters": 0, "propagations": 0, "radius_cap_hits": 0,
                                                   "layer_cap_hits": 0, "node_budget_hits": 0}},
        "t2": {"retrieved": [], "metrics": metrics},
        "text": {"input": "hello world", "labels_from_t1": list(LABELS) if inp["lab"] == "some" else []},
        "cfg": {"t3": t3cfg, "t2": {"owner_scope": "any", "k_retrieval": 6, "sim_threshold": 0.3}},
        "slice_caps": {},
    }
    if inp["slice"] != NONE:
        b["slice_caps"] = {"t3_ops": inp["slice"]}
    elif variant % 2:
        del b["slice_caps"]
    return b


def kinds_of(plan) -> List[str]:
    return [getattr(op, "kind", None) for op in (getattr(plan, "ops", None) or [])]


def clause_checks(inp, out, plan, where: str, fam: str, check_intent=True, check_rr=True) -> List[Dict[str, Any]]:
    """the C13 clauses on a real plan, against the spec's expectation for this case"""
    fails = []
    kinds = kinds_of(plan)
    mc = inp["cap"] if inp["slice"] == NONE else min(inp["cap"], inp["slice"])
    if len(kinds) > mc:
        fails.append(_fail("OpsWithinMinCap", f"{where}: {len(kinds)} ops {kinds} > min(per-turn cap {inp['cap']}, slice cap {inp['slice'] if inp['slice'] != NONE else 'none'})", family=fam))
    if kinds and kinds[0] != "Speak":
        fails.append(_fail("SpeakFirst", f"{where}: ops {kinds} are not led by a Speak op", family=fam))
    if check_intent and kinds and kinds[0] == "Speak":
        got = getattr(plan.ops[0], "intent", None)
        if got != out["intent"]:
            fails.append(_fail("IntentByThresholds", f"{where}: intent {got!r}, documented rule gives {out['intent']!r} (similarity class {out['simeff']}/1000, thresholds {out['lo']}/{out['hi']})", family=fam))
    if check_rr and "RequestRetrieve" in kinds and "RequestRetrieve" not in out["ops"] and inp["sim"] >= out["lo"]:
        fails.append(_fail("RetrieveOnlyBelowLow", f"{where}: RequestRetrieve at similarity class {inp['sim']}/1000 >= low threshold {out['lo']}/1000", family=fam))
    if not fails and kinds != out["ops"]:
        fails.append(_fail("OpsMatchTable", f"{where}: ops {kinds}, decision table says {out['ops']}", family=fam))
    return fails


# ---- Delib ----------------------------------------------------------------------------------------
def replay_delib(case) -> Dict[str, Any]:
    from clematis.engine.stages.t3 import deliberate
    inp, out = case["inp"], case["out"]
    fails: List[Dict[str, Any]] = []
    n = 0
    for vi, sim in enumerate(x for x in sim_floats(inp["sim"], inp["thr"]) for _ in (0, 1)):
        b = mk_bundle(inp, sim, vi)
        snap = copy.deepcopy(b)
        where = f"deliberate(sim={sim!r}, variant {vi})"
        try:
            p1 = deliberate(b)
            p2 = deliberate(b)
            p3 = deliberate(copy.deepcopy(snap))
        except Exception as e:       # noqa: BLE001
            fails.append(_fail("PlannerPure", f"{where} raised {type(e).__name__}: {e}", family="delib", exc=type(e).__name__))
            break
        n += 1
        if b != snap:
            fails.append(_fail("PlannerPure", f"{where} mutated its bundle", family="delib", how="mutates"))
        if not (p1 == p2 == p3):
            fails.append(_fail("PlannerPure", f"{where}: same bundle, different plans: {p1} / {p2} / {p3}", family="delib", how="nondeterministic"))
        fails += clause_checks(inp, out, p1, where, "delib")
        if fails:
            break
    return {"fails": fails, "n": n}


# ---- Rag ------------------------------------------------------------------------------------------
def _hits(inp, rag: float, shape: int):
    if inp["nhits"] == 0:
        return []
    a = {"id": "e2", "score": rag, "owner": "any", "quarter": "2025Q3"}
    b = {"id": "e1", "score": rag - 0.05}
    if shape == 1:
        a["_score"] = a.pop("score")
        b["_score"] = b.pop("score")
    if shape == 2:
        return [SimpleNamespace(id="e1", score=rag - 0.05, owner="any", quarter=""), SimpleNamespace(**a)]
    return [b, a]


def _forced_plan(tokens=256):
    from clematis.engine.types import Plan, SpeakOp, RequestRetrieveOp
    return Plan(version="t3-plan-v1", reflection=False,
                ops=[SpeakOp(kind="Speak", intent="question", topic_labels=["alpha"], max_tokens=tokens),
                     RequestRetrieveOp(kind="RequestRetrieve", query="hello world", owner="any", k=3,
                                       tier_pref="cluster_semantic", hints={})], request_retrieve=None)


def replay_rag(case) -> Dict[str, Any]:
    from clematis.engine.stages.t3 import deliberate, rag_once
    inp, out = case["inp"], case["out"]
    fails: List[Dict[str, Any]] = []
    sims = sim_floats(inp["sim"], inp["thr"])
    rags = sim_floats(inp["rag"], inp["thr"])
    n = 0
    for vi in range(max(len(sims), len(rags), 2)):
        sim, rag = sims[vi % len(sims)], rags[vi % len(rags)]
        b = mk_bundle(inp, sim, vi)
        plan0 = deliberate(b) if inp["shape"] == "natural" else _forced_plan()
        calls: List[Any] = []

        def fn(payload, _c=calls, _h=_hits(inp, rag, vi % 3)):
            _c.append(copy.deepcopy(payload))
            return {"retrieved": copy.deepcopy(_h), "metrics": {"k_returned": len(_h)}}
        snap_b, snap_p = copy.deepcopy(b), copy.deepcopy(plan0)
        where = f"rag_once(sim={sim!r}, retrieved={rag!r} x{inp['nhits']}, plan={kinds_of(plan0)}, already_used={inp['used']}, variant {vi})"
        try:
            p1, m1 = rag_once(b, plan0, fn, already_used=inp["used"])
            c1 = len(calls)
            p2, m2 = rag_once(b, plan0, fn, already_used=inp["used"])
            p3, m3 = rag_once(b, p1, fn, already_used=True)          # the refinement is spent
        except Exception as e:       # noqa: BLE001
            fails.append(_fail("PlannerPure", f"{where} raised {type(e).__name__}: {e}", family="rag", exc=type(e).__name__))
            break
        n += 1
        if c1 > 1 or (inp["used"] and c1):
            fails.append(_fail("AtMostOneRefinement", f"{where}: retrieve_fn called {c1}x", family="rag"))
        elif c1 != out["calls"]:
            fails.append(_fail("RetrievalMatchesTable", f"{where}: retrieve_fn called {c1}x, table says {out['calls']}", family="rag"))
        if len(calls) != 2 * c1:
            fails.append(_fail("AtMostOneRefinement", f"{where}: a spent refinement (already_used=True) retrieved again ({len(calls)} calls in total)", family="rag", how="spent"))
        if p3 != p1:
            fails.append(_fail("AtMostOneRefinement", f"{where}: already_used=True changed the plan", family="rag", how="spent-plan"))
        if b != snap_b or plan0 != snap_p:
            fails.append(_fail("PlannerPure", f"{where} mutated its arguments", family="rag", how="mutates"))
        if p1 != p2 or m1 != m2:
            fails.append(_fail("PlannerPure", f"{where}: same inputs, different outputs", family="rag", how="nondeterministic"))
        if bool(m1.get("rag_used")) != (c1 == 1):
            fails.append(_fail("AtMostOneRefinement", f"{where}: rag_used={m1.get('rag_used')} but {c1} retrievals", family="rag", how="metrics"))
        if c1 == 0 and p1 != plan0:
            fails.append(_fail("OpsMatchTable", f"{where}: plan changed without a retrieval", family="rag"))
        fails += clause_checks(inp, out, p1, where, "rag", check_intent=bool(out["refined"]), check_rr=False)
        if fails:
            break
    return {"fails": fails, "n": n}


# ---- Turn (run_turn) --------------------------------------------------------------------------------
class AD(dict):
    """attribute + dict access, as the engine expects of a config"""
    __getattr__ = dict.get

    def __setattr__(self, k, v):
        self[k] = v

    def __deepcopy__(self, memo):
        return AD({k: copy.deepcopy(v, memo) for k, v in self.items()})


def _ad(x):
    if isinstance(x, dict):
        return AD({k: _ad(v) for k, v in x.items()})
    if isinstance(x, list):
        return [_ad(v) for v in x]
    return x


_BASE_CFG = None


def _base_cfg():
    global _BASE_CFG
    if _BASE_CFG is None:
        from configs.validate import validate_config
        _BASE_CFG = _ad(validate_config({"t4": {"enabled": False}, "t3": {"max_ops_per_turn": 3}}))
    return copy.deepcopy(_BASE_CFG)


# word separators other than U+0020 are word separators too (multi-line templates, tab-separated text, an LLM reply
# with one word per line, ideographic / line-separator spaces)
SEPS = [" ", "\n", "\t", " ", "\u3000", "\u2028", " "]


def join_mixed(words) -> str:
    out = []
    for i, w in enumerate(words):
        if i:
            out.append(SEPS[i % len(SEPS)])
        out.append(w)
    return "".join(out)


class AdapterDouble:
    """an LLM adapter that ignores max_tokens (untrusted backend)"""
    name = "AdapterDouble"
    default_temperature = 0.2

    def __init__(self, ntok: int, mode: str = "obj", prefix: str = ""):
        self.ntok, self.mode, self.prefix = ntok, mode, prefix
        self.calls = 0

    def generate(self, prompt, max_tokens, temperature):
        self.calls += 1
        if self.mode == "raise":
            raise RuntimeError("adapter down")
        text = join_mixed([f"t{i}" for i in range(self.ntok)])
        if self.mode == "prefixed" and self.prefix:
            text = f"{self.prefix}| {text}".strip()
        if self.mode == "dict":
            return {"text": text, "tokens": self.ntok, "truncated": False}
        return SimpleNamespace(text=text, tokens=self.ntok, truncated=False)


_WD = {"dir": None}      # set by check() to the run's own scratch directory (forked workers inherit it)


def _workdir() -> str:
    d = os.path.join(_WD["dir"] or "/verif/.work/C13_replay", "turns")
    os.makedirs(d, exist_ok=True)
    return d


def run_one_turn(inp, sim: float, rag: float, variant: str) -> Dict[str, Any]:
    """one real run_turn with a counting t2_semantic wrapper; returns the observations"""
    import clematis.engine.orchestrator as orch
    from clematis.engine.stages.t3 import deliberate, speak
    wd = _workdir()
    os.environ["CLEMATIS_LOG_DIR"] = os.path.join(wd, "logs")
    os.environ["CLEMATIS_SNAPSHOT_DIR"] = os.path.join(wd, "snap")
    cfg = _base_cfg()
    cfg["t3"]["max_rag_loops"] = inp["loops"]
    cfg["t3"]["max_ops_per_turn"] = inp["cap"]
    cfg["t3"]["tokens"] = inp["budget"]
    cfg["t4"]["snapshot_dir"] = os.path.join(wd, "snap")
    if variant == "llm":
        cfg["t3"]["backend"] = "llm"
    if inp["slice"] != NONE:        # scheduler on: only the t3_ops budget can bind (huge quantum / wall, no other budgets)
        cfg["scheduler"] = AD(enabled=True, policy="round_robin", quantum_ms=HUGE,
                              budgets=AD(t3_ops=inp["slice"], wall_ms=HUGE), fairness=AD(max_consecutive_turns=1, aging_ms=0))
    entries: List[Dict[str, Any]] = []
    for j in range(inp["nbig"]):
        e = {"id": IDS_BIG[j], "delta": BIG[j]}
        if inp["lab"] == "some":
            e["label"] = IDS_BIG[j].upper()
        entries.append(e)
    if inp["lab"] == "some":
        entries += [{"label": x} for x in LABELS]        # id-less entries carry labels only
    obs: Dict[str, Any] = {"t2_calls": 0, "queries": [], "logs": []}
    real_t2 = orch.t2_semantic

    def t1_stub(ctx, state, text):
        return SimpleNamespace(graph_deltas=copy.deepcopy(entries),
                               metrics={"pops": 0, "iters": 0, "propagations": 0, "radius_cap_hits": 0,
                                        "layer_cap_hits": 0, "node_budget_hits": 0, "graphs_touched": 0})

    def t2_count(ctx, state, text, t1):
        obs["t2_calls"] += 1
        obs["queries"].append(text)
        if variant == "real":
            return real_t2(ctx, state, text, t1)
        if obs["t2_calls"] == 1:
            return SimpleNamespace(retrieved=[], graph_deltas_residual=[],
                                   metrics={"sim_stats": {"mean": sim / 2, "max": sim}, "k_returned": 0, "k_used": 0})
        hits = _hits(inp, rag, obs["t2_calls"] % 3)
        return SimpleNamespace(retrieved=hits, graph_deltas_residual=[],
                               metrics={"sim_stats": {"mean": rag, "max": rag}, "k_returned": len(hits), "k_used": len(hits)})

    def delib_capture(ctx, state, bundle):
        obs["bundle"] = copy.deepcopy(bundle)
        plan = deliberate(bundle)
        obs["plan0"] = plan
        return plan

    def dlg_capture(dialog_bundle, plan):
        obs["plan"] = plan
        obs["dialog_bundle"] = dialog_bundle
        res = speak(dialog_bundle, plan)
        obs["utter"] = res[0]
        return res

    patches: Dict[str, Any] = {"t2_semantic": t2_count, "append_jsonl": lambda s, p: obs["logs"].append((s, p)),
                               "t3_deliberate": delib_capture}
    if variant != "real":
        patches["t1_propagate"] = t1_stub
    if variant == "patched":
        patches["t3_dialogue"] = dlg_capture
    saved = {k: orch.__dict__.get(k, None) for k in patches}
    had = {k: k in orch.__dict__ for k in patches}
    core_saved = {k: getattr(orch._core, k, None) for k in ("t1_propagate", "t2_semantic")}
    cwd = os.getcwd()
    state: Dict[str, Any] = {}
    if variant == "real":
        from clematis.graph.store import InMemoryGraphStore
        state = {"store": InMemoryGraphStore(), "active_graphs": []}
    if variant == "llm":
        state["llm_adapter"] = AdapterDouble(300, "obj")
    ctx = SimpleNamespace(turn_id=1, agent_id="A", cfg=cfg, config=cfg, now="2025-01-01T00:00:00+00:00")
    try:
        os.chdir(wd)
        for k, v in patches.items():
            setattr(orch, k, v)
        res = orch.run_turn(ctx, state, "hello world")
        obs["line"] = res.line
    finally:
        os.chdir(cwd)
        for k in patches:
            if had[k]:
                setattr(orch, k, saved[k])
            else:
                try:
                    delattr(orch, k)
                except AttributeError:
                    pass
        for k, v in core_saved.items():
            setattr(orch._core, k, v)
    return obs


def replay_turn(case) -> Dict[str, Any]:
    inp, out = case["inp"], case["out"]
    fails: List[Dict[str, Any]] = []
    guarded = 0
    n = 0
    sims = sim_floats(inp["sim"], inp["thr"])
    rags = sim_floats(inp["rag"], inp["thr"])
    variants = ["patched", "plain", "llm"]
    if inp["sim"] == 0 and inp["nbig"] == 0 and inp["lab"] == "none" and inp["nhits"] == 0:
        variants.append("real")
    for vi, variant in enumerate(variants):
        sim = sims[vi % len(sims)] if variant != "real" else 0.0
        rag = rags[vi % len(rags)]
        where = f"run_turn[{variant}](sim={sim!r}, max_rag_loops={inp['loops']}, max_ops_per_turn={inp['cap']}, tokens={inp['budget']}, retrieved={rag!r} x{inp['nhits']})"
        try:
            obs = run_one_turn(inp, sim, rag, variant)
        except Exception as e:       # noqa: BLE001
            import traceback
            fails.append(_fail("AtMostOneRefinement", f"{where} raised {type(e).__name__}: {e}\n{traceback.format_exc()[-800:]}", family="turn", exc=type(e).__name__))
            break
        n += 1
        b = obs.get("bundle") or {}
        pol = (b.get("cfg", {}).get("t3", {}) or {}).get("policy") or {}
        thr = (float(pol.get("tau_low", 0.4)), float(pol.get("tau_high", 0.8)))
        want_slice = {} if inp["slice"] == NONE else {"t3_ops": inp["slice"]}
        if thr != (0.4, 0.8) or b.get("agent", {}).get("caps", {}).get("ops") != inp["cap"] or (b.get("slice_caps") or {}) != want_slice:
            guarded += 1          # the bundle run_turn built is outside this table (thresholds / caps differ)
            continue
        calls = obs["t2_calls"]
        if calls > 2 or (inp["loops"] == 0 and calls != 1):
            fails.append(_fail("AtMostOneRefinement", f"{where}: {calls} retrieval calls in the turn (queries {obs['queries']})", family="turn"))
        elif calls != out["calls"]:
            fails.append(_fail("RetrievalMatchesTable", f"{where}: {calls} retrieval calls in the turn (queries {obs['queries']}), table says {out['calls']}", family="turn"))
        did_yield = any(s == "turn.jsonl" and p.get("yielded") for s, p in obs["logs"])
        if did_yield != bool(out["yielded"]):
            fails.append(_fail("OpsMatchTable", f"{where}: turn yielded={did_yield}, table says {out['yielded']} (slice t3_ops budget {inp['slice']})", family="turn", what="yield"))
            break
        if out["yielded"]:
            # the turn stops at the stage boundary after planning: judge the planner's plan, nothing was spoken
            fails += clause_checks(inp, out, obs.get("plan0"), where, "turn", check_rr=True)
            if "plan" in obs or any(s == "t3_dialogue.jsonl" for s, _p in obs["logs"]):
                fails.append(_fail("OpsMatchTable", f"{where}: the slice's t3_ops budget was used up but the turn went on to speak", family="turn", what="yield"))
            if fails:
                break
            continue
        if variant == "patched":
            fails += clause_checks(inp, out, obs.get("plan"), where, "turn", check_rr=True)
            p0 = obs.get("plan0")
            if p0 is not None and "RequestRetrieve" in kinds_of(p0) and inp["sim"] >= out["lo"]:
                fails.append(_fail("RetrieveOnlyBelowLow", f"{where}: planner requested retrieval at similarity >= low threshold", family="turn"))
        else:
            oc = next((p.get("ops_counts") for s, p in obs["logs"] if s == "t3_plan.jsonl"), None)
            nops = sum((oc or {}).values())
            if oc is None or nops > inp["cap"]:
                fails.append(_fail("OpsWithinMinCap", f"{where}: logged ops_counts {oc} exceed the per-turn cap {inp['cap']}", family="turn"))
            elif nops != len(out["ops"]):
                fails.append(_fail("OpsMatchTable", f"{where}: logged ops_counts {oc}, decision table says {out['ops']}", family="turn"))
        # the utterance at the dialogue seam (returned by speak / logged speak metrics), and the turn's line;
        # an empty utterance makes run_turn echo the input text as the line - that echo is not an utterance
        line = obs.get("line")
        logged = next((p.get("tokens") for s, p in obs["logs"] if s == "t3_dialogue.jsonl"), None)
        utok = len((obs["utter"] or "").split()) if "utter" in obs else logged
        ltok = len((line or "").split())
        echo = (utok == 0 and line == "hello world")
        if utok is None or utok > max(inp["budget"], 0) or (ltok > max(inp["budget"], 0) and not echo):
            fails.append(_fail("UtteranceWithinTokens", f"{where}: utterance has {utok} tokens (line {ltok}), budget {inp['budget']}: {str(line)[:120]!r}", family="turn", backend=variant))
        if fails:
            break
    return {"fails": fails, "n": n, "guarded": guarded}


# ---- Speak ------------------------------------------------------------------------------------------
STYLES = {"none": "", "one": "calm", "two": "very calm"}
TEMPLATES = {"default": "{style_prefix}| summary: {labels}. next: {intent}", "noprefix": "summary: {labels}. next: {intent}",
             "unknown": "{nope} {labels} {intent}", "snippets": "{snippets_text}", "literal": None}


def _speak_inputs(inp, k: int, budget: int, caps_tokens: int):
    from clematis.engine.types import Plan, SpeakOp
    tmpl = TEMPLATES[inp["tmpl"]]
    labels = [f"w{i:04d}" for i in range(k)] if inp["tmpl"] in ("default", "noprefix", "unknown") else ["alpha"]
    retrieved = [{"id": "e1", "score": 0.9, "owner": "any", "text": join_mixed(["snip"] * k)}, {"id": "e2", "score": 0.5}]
    if inp["tmpl"] == "literal":
        tmpl = join_mixed(["word"] * k)
    db = {"version": "t3-dialog-bundle-v1", "now": "2025-09-19T00:00:00+00:00",
          "agent": {"id": "agentA", "style_prefix": STYLES[inp["style"]], "caps": {"tokens": caps_tokens, "ops": 3}},
          "text": {"input": "hello world", "labels_from_t1": ["fallback"]},
          "retrieved": retrieved,
          "dialogue": {"template": tmpl, "include_top_k_snippets": 2, "identity": "I am Clematis"}}
    if inp["backend"] == "nospeak":
        plan = Plan(version="t3-plan-v1", ops=[])
    else:
        plan = Plan(version="t3-plan-v1", ops=[SpeakOp(kind="Speak", intent="summary", topic_labels=labels, max_tokens=budget)])
    return db, plan


def _speak_call(inp, k: int, budget: int, caps_tokens: int):
    from clematis.engine.stages.t3 import speak, llm_speak
    db, plan = _speak_inputs(inp, k, budget, caps_tokens)
    if inp["backend"] in ("rule", "nospeak"):
        return speak(db, plan)
    mode = {"llm_obj": "obj", "llm_dict": "dict", "llm_raise": "raise", "llm_prefixed": "prefixed"}[inp["backend"]]
    ad = AdapterDouble(k, mode, STYLES[inp["style"]])
    return llm_speak(db, plan, ad)


def replay_speak(case) -> Dict[str, Any]:
    inp, out = case["inp"], case["out"]
    fails: List[Dict[str, Any]] = []
    n_target, B = inp["raw"], inp["budget"]
    # find the padding that renders exactly `raw` tokens at an unlimited budget (the tree against itself)
    raw_text = None
    k_found = None
    try:
        base, _m = _speak_call(inp, 0, HUGE, HUGE)
        n0 = len(base.split())
        for k in sorted({max(0, n_target - n0 + d) for d in (-1, 0, 1, 2)} | {0}):
            t, _m = _speak_call(inp, k, HUGE, HUGE)
            if len(t.split()) == n_target:
                raw_text, k_found = t, k
                break
    except Exception as e:       # noqa: BLE001
        return {"fails": [_fail("UtteranceWithinTokens", f"speak raised {type(e).__name__}: {e} on {inp}", family="speak", exc=type(e).__name__)], "n": 0, "guarded": 0}
    if raw_text is None:
        return {"fails": [], "n": 0, "guarded": 1}      # this template class cannot render `raw` tokens
    n = 0
    guarded = 0
    for caps in ("same", "other"):
        if caps == "other" and (inp["backend"] == "nospeak" or B == 0):
            guarded += 1 if B == 0 and inp["backend"] != "nospeak" else 0
            continue        # the Speak op's budget 0 with another agent cap: which one is "its budget" is undocumented
        caps_tokens = B if caps == "same" else 100000
        where = f"{inp['backend']}(template={inp['tmpl']}, style={inp['style']!r}, raw tokens={n_target}, budget={B}, agent cap={caps_tokens})"
        try:
            utter, m = _speak_call(inp, k_found, B, caps_tokens)
            utter2, m2 = _speak_call(inp, k_found, B, caps_tokens)
        except Exception as e:       # noqa: BLE001
            fails.append(_fail("UtteranceWithinTokens", f"{where} raised {type(e).__name__}: {e}", family="speak", exc=type(e).__name__))
            break
        n += 1
        toks = (utter or "").split()
        if len(toks) > max(B, 0):
            fails.append(_fail("UtteranceWithinTokens", f"{where}: utterance has {len(toks)} tokens: {utter[:100]!r}", family="speak", backend=inp["backend"]))
        elif len(toks) != out["tokens"] or toks != raw_text.split()[:out["tokens"]]:
            fails.append(_fail("SpeakMatchesTable", f"{where}: utterance has {len(toks)} tokens {toks[:6]}, table says the first {out['tokens']} of the rendering", family="speak", backend=inp["backend"]))
        elif m.get("tokens") != out["tokens"]:
            fails.append(_fail("SpeakMatchesTable", f"{where}: metrics.tokens={m.get('tokens')}, table says {out['tokens']}", family="speak", what="metrics.tokens"))
        elif inp["backend"] in ("rule", "nospeak") and bool(m.get("truncated")) != out["truncated"]:
            fails.append(_fail("SpeakMatchesTable", f"{where}: metrics.truncated={m.get('truncated')}, table says {out['truncated']}", family="speak", what="metrics.truncated"))
        elif out["truncated"] and not m.get("truncated"):
            fails.append(_fail("SpeakMatchesTable", f"{where}: truncation not reported", family="speak", what="metrics.truncated"))
        if (utter, m) != (utter2, m2):
            fails.append(_fail("PlannerPure", f"{where}: same inputs, different utterances", family="speak"))
        if fails:
            break
    return {"fails": fails, "n": n, "guarded": guarded}


# ---- random bundles (clauses evaluated directly) ----------------------------------------------------
def random_bundle(args) -> Dict[str, Any]:
    from clematis.engine.stages.t3 import deliberate, rag_once
    seed, i = args
    r = rng(seed, "bundle", i)
    lo = r.choice([0.0, 0.1, 0.25, 0.4, 0.5, r.random()])
    hi = r.choice([lo, 0.8, 1.0, min(1.0, lo + r.random())])
    hi = max(hi, lo)
    eps = r.choice([0.0, 0.1, 0.05, 1.0, r.random()])
    s = r.choice([lo, hi, math.nextafter(lo, -1), math.nextafter(hi, -1), math.nextafter(hi, 2), r.uniform(-1, 1.2), 0.0, 1.0])
    cap = r.randrange(0, 7)
    sl = r.choice([None, None, 0, 1, 2, 3, 5, 8])
    nodes = [{"id": r.choice(["n:", "n:é", "a→b", "x"]) + str(r.randrange(20)), "label": r.choice(["L", "m", ""]) + str(j),
              "delta": r.choice([eps, -eps, math.nextafter(eps, -1), 0.0, r.uniform(-1, 1)])} for j in range(r.randrange(0, 40))]
    labels = [r.choice(["b", "a", "é", "Z", ""]) for _ in range(r.randrange(0, 8))]
    b = {"version": "t3-bundle-v1", "now": "2025-09-19T00:00:00+00:00",
         "agent": {"id": "A", "style_prefix": "", "caps": {"tokens": r.choice([1, 3, 256]), "ops": cap}},
         "world": {"hot_labels": [], "k": 0}, "t1": {"touched_nodes": nodes, "metrics": {}},
         "t2": {"retrieved": [], "metrics": {"sim_stats": {"mean": s, "max": s}}},
         "text": {"input": r.choice(["", "hi", "héllo wörld"]), "labels_from_t1": labels},
         "cfg": {"t3": {"tokens": r.choice([1, 3, 256]), "policy": {"tau_high": hi, "tau_low": lo, "epsilon_edit": eps}},
                 "t2": {"owner_scope": r.choice(["any", "agent", "world", "bogus"]), "k_retrieval": r.choice([0, 1, 6, 64]), "sim_threshold": 0.3}},
         "slice_caps": {} if sl is None else {"t3_ops": sl}}
    snap = copy.deepcopy(b)
    fails: List[Dict[str, Any]] = []
    where = f"random bundle {i} (s={s!r}, lo={lo!r}, hi={hi!r}, cap={cap}, slice={sl})"
    try:
        p = deliberate(b)
        q = deliberate(copy.deepcopy(snap))
    except Exception as e:       # noqa: BLE001
        return {"fails": [_fail("PlannerPure", f"{where}: deliberate raised {type(e).__name__}: {e}", family="random", exc=type(e).__name__)]}
    if b != snap or p != q:
        fails.append(_fail("PlannerPure", f"{where}: bundle mutated or plan not reproducible", family="random"))
    mc = cap if sl is None else min(cap, sl)

    def judge(plan, s_eff, tag):
        ks = kinds_of(plan)
        if len(ks) > mc:
            fails.append(_fail("OpsWithinMinCap", f"{where} {tag}: {len(ks)} ops > {mc}", family="random"))
        if ks and ks[0] != "Speak":
            fails.append(_fail("SpeakFirst", f"{where} {tag}: {ks}", family="random"))
        if ks and ks[0] == "Speak":
            it = plan.ops[0].intent
            want = ({"summary"} if s_eff >= hi else {"assertion", "ack"} if s_eff >= lo else {"question"})
            if it not in want:
                fails.append(_fail("IntentByThresholds", f"{where} {tag}: intent {it!r}, evidence {s_eff!r} -> {sorted(want)}", family="random"))
    judge(p, s, "plan")
    if "RequestRetrieve" in kinds_of(p) and not s < lo:
        fails.append(_fail("RetrieveOnlyBelowLow", f"{where}: RequestRetrieve although {s!r} >= {lo!r}", family="random"))
    calls = []
    sc = r.choice([lo, hi, math.nextafter(lo, -1), r.uniform(-0.2, 1.1)])

    def fn(payload):
        calls.append(1)
        return {"retrieved": [{"id": "e", "score": sc}] if r.random() < 0.8 else []}
    try:
        p1, m1 = rag_once(b, p, fn)
        p2, m2 = rag_once(b, p1, fn, already_used=True)
    except Exception as e:       # noqa: BLE001
        fails.append(_fail("PlannerPure", f"{where}: rag_once raised {type(e).__name__}: {e}", family="random", exc=type(e).__name__))
        return {"fails": fails}
    if len(calls) > 1 or (len(calls) == 1) != ("RequestRetrieve" in kinds_of(p)) or p2 != p1:
        fails.append(_fail("AtMostOneRefinement", f"{where}: {len(calls)} retrievals for plan {kinds_of(p)}", family="random"))
    if calls:
        judge(p1, float(m1.get("post_s_max", s)), "refined")
        if not (m1.get("post_s_max") == max(s, sc if m1.get("k_retrieved") else 0.0)):
            fails.append(_fail("IntentByThresholds", f"{where}: post evidence {m1.get('post_s_max')!r} is not max(pre, retrieved)", family="random", what="post_s_max"))
    if b != snap:
        fails.append(_fail("PlannerPure", f"{where}: rag_once mutated the bundle", family="random"))
    return {"fails": fails}


# ---- driver -----------------------------------------------------------------------------------------
CONSTS_Q = {"TurnSlices": [NONE, 1, 2], "ThrIdx": [1, 2, 3], "NBig": [0, 1, 5], "NSmall": [0, 2], "Caps": [0, 1, 2, 3, 4], "SliceCaps": [0, 1, 2, 3, 4, NONE],
            "RagScores": [0, 1, 3], "RagLoops": [0, 1, 2], "RawTokens": [0, 1, 2, 3, 4, 5, 6, 255, 256, 257, 400],
            "Budgets": [0, 1, 3, 256], "SanFull": True}
CONSTS_T = {"TurnSlices": [NONE, 0, 1, 2, 3], "ThrIdx": [1, 2, 3, 4], "NBig": [0, 1, 2, 3, 4, 5], "NSmall": [0, 1, 2, 3, 4, 5], "Caps": [0, 1, 2, 3, 4],
            "SliceCaps": [0, 1, 2, 3, 4, NONE], "RagScores": [0, 1, 2, 3, 4], "RagLoops": [0, 1, 2, 5],
            "RawTokens": [0, 1, 2, 3, 4, 5, 6, 7, 255, 256, 257, 400, 1000], "Budgets": [0, 1, 3, 256], "SanFull": True}

PARTS = {
    "Delib": (["OpsWithinMinCap", "SpeakFirst", "IntentByThresholds", "RetrieveOnlyBelowLow"], "replay_delib"),
    "Rag": (["OpsWithinMinCap", "SpeakFirst", "IntentByThresholdsRefined", "AtMostOneRefinementRag"], "replay_rag"),
    "Turn": (["OpsWithinMinCap", "SpeakFirst", "IntentByThresholds", "AtMostOneRefinement"], "replay_turn"),
    "Speak": (["UtteranceWithinTokens"], "replay_speak"),
    "San": (["SanitiserAcceptsOnlySingleObjectWithinLimits"], "replay_san"),
}


def _consts(run, part: str) -> Dict[str, Any]:
    c = dict(CONSTS_Q if run.quick else CONSTS_T)
    if part == "Rag":       # the refinement table has four more dimensions: thin out the bundle dimensions
        c.update({"ThrIdx": [1, 3] if run.quick else [1, 2, 3, 4], "NBig": [0, 2], "NSmall": [0, 1] if not run.quick else [0],
                  "Caps": [0, 1, 2, 3] if run.quick else [0, 1, 2, 3, 4], "SliceCaps": [1, 2, NONE] if run.quick else [0, 1, 2, 3, NONE]})
    if part == "Turn":
        c.update({"NBig": [0, 2], "Caps": [0, 1, 2, 3], "Budgets": [0, 1, 3, 256] if not run.quick else [0, 3, 256],
                  "RagScores": [0, 3] if run.quick else [0, 1, 2, 3, 4]})
    return c


def _record(run, part, case, res, replay_extra=None):
    run.traces += 1
    run.case((part, json.dumps(case["inp"], sort_keys=True)))
    run.guarded_out += int(res.get("guarded", 0) or 0)
    if not res["fails"]:
        run.ok(f"{part}.conforms")
    for f in res["fails"]:
        rep = {"family": part, "case": case}
        rep.update(replay_extra or {})
        run.fail(f["clause"], f["sig"], {"case": case}, f["msg"], replay=rep)


def check(run) -> None:
    q = run.quick
    _WD["dir"] = run.workdir
    run.rule = ("every class vector of the five exhaustively enumerated Planner.tla tables concretised (1-4 concrete inputs each) and "
                "run through the real deliberate / rag_once / run_turn / speak / llm_speak / parse_and_validate; plus seeded random "
                "bundles and garbage strings; distinct = distinct (table, class vector) / random index")
    fns = globals()
    for part in ("Delib", "Rag", "Turn", "Speak", "San"):
        invs, fn = PARTS[part]
        consts = _consts(run, part)
        run.constants[part] = consts
        cfg = make_cfg(consts, invs, [], spec="Spec" + part, emit=False, view=None, constraint="EmitCase")
        res = run.tlc("Planner", cfg, name=f"Planner_{part}", workers=8, timeout_s=1500)
        run.model_must_hold(res)
        cases = res.emitted
        if part == "San":
            nvar = 2 if q else 3
            outs = pmap(c13_san.replay_san, [(c, nvar) for c in cases])
            nacc = 0
            for c, o in zip(cases, outs):
                _record(run, part, c, o, {"nvar": nvar})
                run.evaluations += o["n"] - 1
                nacc += o["accepted"]
            run.ok("San.accepting_vectors", nacc)
        else:
            outs = pmap(fns[fn], cases)
            for c, o in zip(cases, outs):
                _record(run, part, c, o)
                run.evaluations += max(o.get("n", 1) - 1, 0)
        # non-vacuity per table
        if part == "Delib":
            run.ok("Delib.cases_with_retrieve_request", sum(1 for c in cases if "RequestRetrieve" in c["out"]["ops"]))
            run.ok("Delib.cases_cut_by_cap", sum(1 for c in cases if len(c["out"]["ops"]) == c["out"]["mincap"]))
        if part == "Turn":
            run.ok("Turn.cases_yielded_after_planning", sum(1 for c in cases if c["out"]["yielded"]))
        if part in ("Rag", "Turn"):
            run.ok(f"{part}.cases_refined", sum(1 for c in cases if c["out"]["refined"]))
        if part == "Speak":
            run.ok("Speak.cases_truncated", sum(1 for c in cases if c["out"]["truncated"]))
        if cases:
            run.sample({"table": part, "case": cases[len(cases) * 2 // 3]}, cap=8)
    run.exhaustive = True
    # ---- random bundles ----
    nb = 3000 if q else 100000
    args = [(run.seed, i) for i in range(nb)]
    for a, o in zip(args, pmap(random_bundle, args)):
        run.traces += 1
        run.case(("randbundle", a[1]))
        if not o["fails"]:
            run.ok("RandomBundle.clauses_hold")
        for f in o["fails"]:
            run.fail(f["clause"], f["sig"], {"seed": a[0], "i": a[1]}, f["msg"], replay={"family": "randbundle", "args": list(a)})
    # ---- SanitiserTotal: garbage ----
    ng = 4000 if q else 120000
    args = [(run.seed, i) for i in range(ng)]
    nacc = 0
    for a, o in zip(args, pmap(c13_san.replay_garbage, args)):
        run.traces += 1
        run.case(("garbage", a[1]))
        nacc += o["accepted"]
        if not o["fails"]:
            run.ok("SanitiserTotal.no_exception")
        for f in o["fails"]:
            run.fail(f["clause"], f["sig"], {"seed": a[0], "i": a[1]}, f["msg"], replay={"family": "garbage", "args": list(a)})
    run.ok("Garbage.accepted_and_within_limits", nacc)
    from . import c13_llm
    c13_llm.check(run)
    run.assumptions += [
        "thresholds are those carried by the bundle (documented defaults 0.8/0.4/0.10 when the bundle has no policy block); run_turn cases use the bundle run_turn built",
        "token = whitespace-separated token (str.split), as documented for the dialogue budget",
        "Speak op with max_tokens=0 and a different agent token cap is guarded out (which of the two is the budget is undocumented)",
        "single fenced json/jsonc/untagged block is accepted (parse_and_validate docstring); docs/m3 'no code fences' describes the fixture path",
        "SanitiserTotal is bounded testing over seeded garbage families",
        "utterance = result of speak/llm_speak at the dialogue seam; run_turn's echo of the input text for an empty utterance is not an utterance",
    ]


def replay(rep) -> int:
    r = rep["replay"]
    if "filter_turn" in r or "planner_guard" in r:
        from . import c13_llm
        os.makedirs("/verif/.work/C13_replay", exist_ok=True)
        fails = (c13_llm.filter_turn_case(dict(r["filter_turn"], workdir="/verif/.work/C13_replay")) if "filter_turn" in r
                 else c13_llm.planner_guard_case(r["planner_guard"]))
        for cl, msg in fails:
            print(f"{cl}: {msg}")
        if fails:
            print(f"VIOLATION property=C13 replay={rep.get('_path', '?')}")
            return 1
        print("replay: conforms")
        return 0
    fam = r["family"]
    if fam == "San":
        res = c13_san.replay_san((r["case"], r.get("nvar", 3)))
    elif fam == "garbage":
        res = c13_san.replay_garbage(tuple(r["args"]))
    elif fam == "randbundle":
        res = random_bundle(tuple(r["args"]))
    else:
        res = globals()[PARTS[fam][1]](r["case"])
    for f in res["fails"]:
        print(f"{f['clause']}: {f['msg']}")
    if res["fails"]:
        print(f"VIOLATION property=C13 replay={rep.get('_path', '?')}")
        return 1
    print("replay: conforms")
    return 0
