"""C07 — delta snapshots reconstruct the full payload exactly.

(M)    Delta.tla: the path-based codec over all pairs of small JSON objects (keys over {a . \\} incl.
       empty and dotted keys, typed scalars, dict<->scalar<->list replacement); RoundTrip,
       PathsDisjoint, SplitJoinInverse as invariants — exhaustive.  The naive scheme (join/split on
       bare dots, host-language equality) is model-checked too and must be refuted (non-vacuity).
       SnapshotStore.tla: directory of full/delta files under WriteAuto / DeleteBaseline /
       CorruptBaseline / Read / LoadLatest; invariant: a read never returns a mixed state.
(S->C)  every enumerated pair through the real compute_delta/apply_delta (typed comparison);
       every store history through write_snapshot_auto / read_snapshot / load_latest_snapshot.
(C->S)  seeded random JSON (deep, wide, realistic GEL ids) -> (base, cur, rebuilt) traces; DeltaTrace
       decides rebuilt = cur by typed TLA+ value equality.
"""
from __future__ import annotations

import copy
import json
import os
import shutil
import tempfile
from typing import Any, Dict, List, Tuple

from ..util import make_cfg, pmap, rng

MANIFEST = {
    "technique": "TLA+ model of the delta codec model-checked with TLC over all pairs of small JSON objects (round-trip invariant; naive scheme refuted as a control) and of the snapshot store under baseline faults; every enumerated pair/history replayed on the real codec/reader/writer; random JSON round-trips validated by TLC value equality",
    "text": "Exhaustive model checking of the codec's round-trip law over all payload pairs up to a size bound (3-4 keys incl. empty/dotted/backslash keys, typed scalars, nesting depth 2) and of the store's fallback behaviour, bound to the code by replaying each enumerated pair on compute_delta/apply_delta and each store history on write_snapshot_auto/read_snapshot/load_latest_snapshot, plus TLC-validated random round-trips on large JSON.",
    "note": "Bounded: nesting depth 2, <=2 keys per object at top level, <=1 below, 3-4 distinct keys, for the exhaustive part; random JSON (depth <=5, <=30 keys) beyond. Only codec `none` (zstandard is not installed). Equality is JSON-typed (true != 1).",
}

CHARMAPS = [{"a": "a", ".": ".", "\\": "\\", "b": "b"},
            {"a": "n→é", ".": ".", "\\": "\\", "b": "β"}]


def dec(x, cm):
    t = x["t"]
    if t == "o":
        return {"".join(cm[c] for c in k): dec(v, cm) for k, v in x["kv"]}
    if t == "i":
        return int(x["v"])
    if t == "b":
        return bool(x["v"])
    if t == "s":
        return "s%d" % x["v"]
    if t == "l":       # lists are atoms of the codec; they differ only in the JSON type of a nested scalar
        if cm is CHARMAPS[1]:   # second family: a dict INSIDE a list that gains / loses keys (directly and one list deeper)
            return [[{"k": 1}], [{"k": 1, "m": 2}], [[{"k": 1, "m": 2}]], [[{"k": 1}]]][x["v"] % 4]
        return [[{"k": 1}, 2], [{"k": True}, 2], [{"k": 1.0}, 2], [1, True, {"k.": "v"}]][x["v"] % 4]
    if t == "n":
        return None
    raise ValueError(t)


def typed(x):
    """canonical typed rendering: distinguishes True from 1 and 1 from 1.0"""
    return json.dumps(x, sort_keys=True, ensure_ascii=False)


def classify(base, cur) -> str:
    """signature component: which feature of the pair is involved"""
    def keys(o, acc):
        if isinstance(o, dict):
            for k, v in o.items():
                acc.append(k)
                keys(v, acc)
        return acc
    ks = keys(base, []) + keys(cur, [])
    feats = []
    if any("." in k for k in ks):
        feats.append("dotted-key")
    if any(k == "" for k in ks):
        feats.append("empty-key")
    if any("\\" in k for k in ks):
        feats.append("backslash-key")
    if not feats:
        feats.append("typed-scalar")
    return "+".join(feats)


def replay_pair(case) -> List[Tuple[str, str, str]]:
    from clematis.engine.util.snapshot_delta import compute_delta, apply_delta
    fails = []
    for ci, cm in enumerate(CHARMAPS):
        base, cur = dec(case["base"], cm), dec(case["cur"], cm)
        b0, c0 = copy.deepcopy(base), copy.deepcopy(cur)
        try:
            d = compute_delta(base, cur)
            # the delta travels through JSON on disk
            d = json.loads(json.dumps(d))
            out = apply_delta(base, d)
        except Exception as e:
            fails.append(("RoundTrip", classify(base, cur), f"codec raised {type(e).__name__}: {e} on base={base!r} cur={cur!r}"))
            continue
        if typed(out) != typed(cur):
            fails.append(("RoundTrip", classify(base, cur), f"base={typed(base)} cur={typed(cur)} rebuilt={typed(out)}"))
        if typed(base) != typed(b0) or typed(cur) != typed(c0):
            fails.append(("PureNoMutation", "mutation", f"codec mutated its arguments: base={typed(b0)}->{typed(base)}"))
    return fails


# ---- random JSON -------------------------------------------------------------------------------
IDS = ["n1", "n.1", "a→b", "n.1→n.2", "", ".", "..", "a.", ".a", "é", "x\\y", "x\\.y", "\\", "id", "0", "1"]


def rand_json(r, depth, width):
    n = r.randrange(0, width + 1)
    out = {}
    for _ in range(n):
        k = r.choice(IDS) if r.random() < 0.8 else "".join(r.choice("ab.\\→é ") for _ in range(r.randrange(0, 5)))
        x = r.random()
        if depth > 0 and x < 0.4:
            out[k] = rand_json(r, depth - 1, max(1, width // 2))
        elif x < 0.5:
            out[k] = r.choice([[r.randrange(3), {"a.b": 1}][: r.randrange(0, 3)], [{"k": 1}], [{"k": True}], [{"k": 1.0}], [[0], [False]], [[0], [0]]])
        else:
            out[k] = r.choice([0, 1, True, False, None, "s", "", 1.5, -7, 2 ** 40, "1"])
    return out


def mutate(r, o, depth):
    o = copy.deepcopy(o)
    ks = list(o.keys())
    for k in ks:
        x = r.random()
        if x < 0.2:
            del o[k]
        elif x < 0.4:
            o[k] = r.choice([0, 1, True, False, None, {}, [], "s", {"z": 1}, [{"k": 1}], [{"k": True}], [{"k": 1.0}]])
        elif x < 0.6 and isinstance(o[k], dict):
            o[k] = mutate(r, o[k], depth - 1)
    extra = rand_json(r, max(0, depth - 1), 3)
    for k, v in extra.items():
        if r.random() < 0.5:
            o[k] = v
    return o


def tag(x):
    if isinstance(x, dict):
        return {"t": "o", "v": {("k" + k.encode("utf-8").hex()): tag(v) for k, v in x.items()}}
    if isinstance(x, bool):
        return {"t": "b", "v": int(x)}
    if isinstance(x, int):
        return {"t": "i", "v": [x >> 40, (x >> 20) & 0xFFFFF, x & 0xFFFFF] if x >= 0 else [-1, (-x) >> 20, (-x) & 0xFFFFF]}
    if isinstance(x, float):
        return {"t": "f", "v": repr(x)}
    if isinstance(x, str):
        return {"t": "s", "v": x.encode("utf-8").hex()}
    if x is None:
        return {"t": "n", "v": 0}
    if isinstance(x, list):
        return {"t": "l", "v": [tag(y) for y in x]}
    raise TypeError(type(x))


def gen_random_trace(args):
    from clematis.engine.util.snapshot_delta import compute_delta, apply_delta
    seed, tidn = args
    r = rng(seed, "delta", tidn)
    base = rand_json(r, r.randrange(1, 5), r.choice([2, 5, 12, 30]))
    cur = mutate(r, base, 4) if r.random() < 0.7 else rand_json(r, 3, 8)
    try:
        d = json.loads(json.dumps(compute_delta(base, cur)))
        out = apply_delta(base, d)
        err = ""
    except Exception as e:
        out, err = {}, f"{type(e).__name__}: {e}"
    return {"tid": tidn, "ev": [{"cur": tag(cur), "rebuilt": tag(out), "raised": bool(err)}]}, (base, cur, out, err)


def check(run) -> None:
    q = run.quick
    run.rule = ("all pairs (base, cur) of JSON objects up to the bound enumerated by TLC and replayed on compute_delta/apply_delta under "
                "two key concretisations; store histories from SnapshotStore; random large JSON round-trips validated by TLC; "
                "distinct = distinct pair/history/trace")
    keysets = {"dots": '{<<"a">>, <<".">>, <<"a", ".", "a">>}', "empty_bsl": '{<<>>, <<"\\\\">>, <<"a">>}'}
    if not q:
        keysets = {"four": '{<<>>, <<"a">>, <<".">>, <<"a", ".", "a">>}', "bsl": '{<<"\\\\">>, <<"\\\\", ".">>, <<"a", "\\\\">>}',
                   "dots2": '{<<".", ".">>, <<"a", ".">>, <<".", "a">>}'}
    atoms = '{[t |-> "i", v |-> 1], [t |-> "b", v |-> 1]}' if q else '{[t |-> "i", v |-> 1], [t |-> "b", v |-> 1], [t |-> "s", v |-> 0]}'
    atoms2 = '{[t |-> "l", v |-> 0], [t |-> "l", v |-> 1], [t |-> "l", v |-> 2], [t |-> "n", v |-> 0]}' if q else '{[t |-> "i", v |-> 0], [t |-> "b", v |-> 0], [t |-> "l", v |-> 0], [t |-> "l", v |-> 1], [t |-> "l", v |-> 2], [t |-> "l", v |-> 3], [t |-> "n", v |-> 0]}'
    runs = [(kn, ks, atoms) for kn, ks in keysets.items()]
    # (two keys also in thorough: with three keys and seven atoms the pair space is 6.8 million cases and the
    # harness ran out of memory)
    runs.append(("atoms2", '{<<"a">>, <<"a", ".", "a">>}', atoms2))
    for kn, ks, at in runs:
        cfg = ("SPECIFICATION Spec\nCONSTANTS\n KeySet <- KeysC\n Atoms <- AtomsC\n Scheme = \"escaped\"\n MaxTop = 2\n MaxInner = 1\n"
               "INVARIANT RoundTrip\nINVARIANT PathsDisjoint\nINVARIANT SplitJoinInverse\nINVARIANT NoChangeEmptyDelta\nCONSTRAINT EmitCase\n")
        res = _tlc_with_defs(run, "Delta", cfg, f"Delta_{kn}", {"KeysC": ks, "AtomsC": at}, workers=8, timeout=1500)
        run.model_must_hold(res)
        outs = pmap(replay_pair, res.emitted)
        for case, fails in zip(res.emitted, outs):
            run.traces += 1
            run.case(("pair", kn, json.dumps(case, sort_keys=True)))
            if not fails:
                run.ok("RoundTrip.conforms")
            for clause, feat, msg in fails:
                run.fail(clause, {"feature": feat}, case, msg, replay={"pair": case})
        if res.emitted:
            run.sample({"family": "pair", "keyset": kn, "case": res.emitted[len(res.emitted) // 2]}, cap=5)
    # control: the naive scheme must be refuted by TLC
    cfg = ("SPECIFICATION Spec\nCONSTANTS\n KeySet <- KeysC\n Atoms <- AtomsC\n Scheme = \"naive\"\n MaxTop = 2\n MaxInner = 1\nINVARIANT RoundTrip\n")
    res = _tlc_with_defs(run, "Delta", cfg, "Delta_naive_control", {"KeysC": '{<<"a">>, <<".">>}', "AtomsC": atoms}, workers=4, timeout=300)
    if res.violation is None:
        from ..tlc import TLCError
        raise TLCError("the naive path scheme should violate RoundTrip in the model")
    run.ok("Model.naive_scheme_refuted")
    run.exhaustive = True
    # ---- random JSON, validated by TLC ----
    n = 300 if q else 5000
    gens = pmap(gen_random_trace, [(run.seed, i + 1) for i in range(n)], chunk=50)
    traces = [g[0] for g in gens]
    ctl = {"tid": -1, "ev": [{"cur": tag({"a": 1}), "rebuilt": tag({"a": True}), "raised": False}]}
    v = run.validate_traces("DeltaTrace", {}, traces + [ctl], name="DeltaTrace")
    if v[-1][0] == "ok":
        from ..tlc import TLCError
        raise TLCError("DeltaTrace accepted the negative control (1 vs true)")
    run.ok("DeltaTrace.negative_control_rejected")
    for (t, (base, cur, out, err)) in gens:
        verdict, _ = v[t["tid"]]
        run.traces += 1
        run.case(("rand", t["tid"]))
        if verdict == "ok":
            run.ok("RoundTrip.trace_accepted")
        else:
            run.fail("RoundTrip", {"feature": classify(base, cur), "direction": "trace"}, {"base": base, "cur": cur, "rebuilt": out, "raised": err},
                     f"random pair: base={typed(base)[:300]} cur={typed(cur)[:300]} rebuilt={typed(out)[:300]} {err}",
                     replay={"random": [run.seed, t["tid"]]})
    run.sample({"family": "random", "base": gens[0][1][0], "cur": gens[0][1][1]}, cap=6)
    from . import c07_store
    c07_store.check(run)
    run.assumptions += ["small-scope hypothesis for the exhaustive part (depth 2, <=2 keys per level)",
                        "JSON equality is typed; floats are compared by repr"]


def _tlc_with_defs(run, module, cfg, name, defs: Dict[str, str], workers=4, timeout=600):
    return run.tlc(module, cfg, name=name, workers=workers, timeout_s=timeout, defs=defs)


def replay(rep) -> int:
    r = rep["replay"]
    if "pair" in r:
        fails = replay_pair(r["pair"])
    elif "random" in r:
        _, (base, cur, out, err) = gen_random_trace(tuple(r["random"]))
        fails = [] if (not err and typed(out) == typed(cur)) else [("RoundTrip", classify(base, cur), f"base={typed(base)} cur={typed(cur)} rebuilt={typed(out)} {err}")]
    else:
        from . import c07_store
        fails = c07_store.replay(r)
    for f in fails:
        print(": ".join(map(str, f)))
    if fails:
        print(f"VIOLATION property=C07 replay={rep.get('_path', '?')}")
        return 1
    print("replay: conforms")
    return 0
