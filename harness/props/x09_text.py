"""X09 helpers, first half: spellings of the TextNorm.tla classes, case replay on quality_norm (normalize_text, tokenize,
apply_aliases, load_alias_map), the python reference of the stated rules and the random families with real Unicode."""
from __future__ import annotations

import os
import shutil
import unicodedata
from typing import Any, Dict, List, Optional, Sequence, Tuple

from ..util import rng

Fail = Tuple[str, str]

# ---------------------------------------------------------------------------------------------------------------------
# character classes of TextNorm.tla: (raw spelling, its folded form = NFKC then lower)
PIECES: Dict[int, List[Tuple[str, str]]] = {
    1: [("f", "f")],
    2: [("i", "i")],
    3: [("F", "f")],
    # digit 7: ASCII, fullwidth, superscript, mathematical bold (astral), circled, subscript
    4: [("7", "7"), ("\uff17", "7"), ("\u2077", "7"), ("\U0001d7d5", "7"), ("\u2466", "7"), ("\u2087", "7")],
    5: [(" ", " ")],
    # tab, newline, NBSP, ideographic space, em space, CR, VT, FF, FS, US, NEL, line / paragraph separator, U+205F, ogham space, U+202F, thin space
    6: [(c, " ") for c in "\x09\x0a\xa0\u3000\u2003\x0d\x0b\x0c\x1c\x1f\x85\u2028\u2029\u205f\u1680\u202f\u2009"],
    # punctuation and format characters that NFKC and lower() leave alone (em dash, guillemet, ideographic full stop,
    # zero width space, zero width joiner, inverted question mark, dagger)
    7: [(c, c) for c in "!,-.?(/\u2014\xab\u3002'\"+@\u200b\u200d\xbf\u2020"],
    # compatibility forms of F / f: fullwidth, circled, squared (astral), script, mathematical bold (astral), fullwidth small,
    # circled small, modifier small, double-struck (astral)
    8: [("\uff26", "f"), ("\u24bb", "f"), ("\U0001f135", "f"), ("\u2131", "f"), ("\U0001d405", "f"), ("\uff46", "f"), ("\u24d5", "f"), ("\u1da0", "f"), ("\U0001d53d", "f")],
    # lower-case (or caseless) non-ASCII letters and digits: e-acute, n-tilde, zhe, lambda, CJK, sharp s, dotless i, final sigma,
    # o-slash, alef, e + combining acute (composed by NFKC), arabic-indic digit three
    9: [("\xe9", "\xe9"), ("\xf1", "\xf1"), ("\u0436", "\u0436"), ("\u03bb", "\u03bb"), ("\u4e2d", "\u4e2d"), ("\xdf", "\xdf"), ("\u0131", "\u0131"), ("\u03c2", "\u03c2"), ("\xf8", "\xf8"), ("\u05d0", "\u05d0"), ("e\u0301", "\xe9"), ("\u0663", "\u0663")],
    10: [("_", "_"), ("\uff3f", "_")],
    11: [("\ufb01", "fi")],
    # upper-case non-ASCII letters: E-acute, N-tilde, Zhe, Lambda, O-slash, E + combining acute, capital sharp s
    12: [("\xc9", "\xe9"), ("\xd1", "\xf1"), ("\u0416", "\u0436"), ("\u039b", "\u03bb"), ("\xd8", "\xf8"), ("E\u0301", "\xe9"), ("\u1e9e", "\xdf")],
}
LETTER = {1: "f", 2: "i", 4: "7"}
# tokeniser options of the enumerated table (mirrored into the cfg): stop sets are sets of tokens over the classes 1, 2, 4
OPTS = [{"stop": [], "min": 2}, {"stop": [[1], [1, 2]], "min": 1}, {"stop": [[2], [1, 1], [4]], "min": 3}]


def opts_tla() -> str:
    def tok(t):
        return "<<" + ", ".join(map(str, t)) + ">>"
    return "<<" + ", ".join("[stop |-> {%s}, min |-> %d]" % (", ".join(tok(t) for t in o["stop"]), o["min"]) for o in OPTS) + ">>"


def self_check() -> Optional[str]:
    """the spelling table against the Unicode database (a wrong table is a machinery failure, never a verdict)"""
    for cls, ps in PIECES.items():
        for raw, folded in ps:
            f = unicodedata.normalize("NFKC", raw).lower()
            if cls == 6:
                if not all(ch.isspace() for ch in f):
                    return f"class 6 piece {raw!r} is not whitespace"
            elif f != folded:
                return f"class {cls} piece {raw!r} folds to {f!r}, table says {folded!r}"
            if cls in (7, 9, 10) and (any(ch.isspace() for ch in folded) or any(ch in ASCII_ALNUM for ch in folded)):
                return f"class {cls} piece {raw!r} must stay a non-space, non-ASCII-alphanumeric character"
            if cls == 7 and raw != folded:
                return f"class 7 piece {raw!r} is not stable"
    return None


def piece(cls: int, pos: int, salt: int) -> Tuple[str, str]:
    ps = PIECES[cls]
    return ps[(pos * 7 + salt * 3 + cls) % len(ps)]


def spell_tok(t: Sequence[int]) -> str:
    return "".join(LETTER[c] for c in t)


def run_text_case(c) -> List[Fail]:
    from clematis.engine.stages.t2.quality_norm import normalize_text, tokenize
    s = list(c["i"]["s"] or [])
    o = c["o"]
    salt = sum(s)
    pcs = [piece(cls, p, salt) for p, cls in enumerate(s)]
    raw = "".join(p[0] for p in pcs)
    norm, src = list(o["norm"] or []), list(o["src"] or [])
    want = "".join(" " if cls == 5 else (LETTER[cls] if cls in (1, 2) else pcs[src[k] - 1][1]) for k, cls in enumerate(norm))
    base = [spell_tok(t) for t in (o["base"] or [])]
    where = f"classes {s} spelled {raw!r}"
    fails: List[Fail] = []
    try:
        n1 = normalize_text(raw)
        n2 = normalize_text(n1)
        if n1 != want:
            fails.append(("NormaliseLowerNFKC", f"{where}: normalize_text = {n1!r}, spec {want!r}"))
        if n2 != n1:
            fails.append(("NormaliseIdempotent", f"{where}: normalize_text twice = {n2!r}, once = {n1!r}"))
        t0 = tokenize(raw)
        if t0 != base:
            fails.append(("TokensAreMaximalAlnumRuns", f"{where}: tokenize = {t0!r}, spec {base!r}"))
        if tokenize(raw, stopset=None, min_token_len=1, stemmer="none") != t0 or tokenize(raw, [], 0, "") != t0:
            fails.append(("StopAndMinLenFilter", f"{where}: explicit defaults change the tokens {t0!r}"))
        for k, opt in enumerate(OPTS):
            stop = [spell_tok(t) for t in opt["stop"]]
            stop_arg: Any = (stop, tuple(stop), set(stop), frozenset(stop))[(salt + k) % 4]
            got = tokenize(raw, stopset=stop_arg, min_token_len=opt["min"])
            exp = [spell_tok(t) for t in (o["tok"][k] or [])]
            if got != exp:
                fails.append(("StopAndMinLenFilter", f"{where}: tokenize(stop={sorted(stop)}, min_token_len={opt['min']}) = {got!r}, spec {exp!r}"))
        tn = tokenize(n1)
        if tn != t0 or (t0 == base and tn != [spell_tok(t) for t in (o["tokn"] or [])]):
            fails.append(("TokeniseOfNormalisedEqualsTokenise", f"{where}: tokenize(normalize_text(s)) = {tn!r}, tokenize(s) = {t0!r}"))
        if not s and (normalize_text(None) != "" or tokenize(None) != []):      # type: ignore[arg-type]
            fails.append(("NormaliseLowerNFKC", "falsy input must give '' / []"))
    except Exception as e:      # noqa: BLE001
        fails.append(("Total", f"{where}: raised {type(e).__name__}: {e}"))
    return fails


# ---------------------------------------------------------------------------------------------------------------------
# aliasing
WORD = {1: "llm", 2: "gpu", 3: "nvidia_cuda", 4: "llms"}
SEPS = [" ", "  ", ", ", " - ", "\t", " / ", "\u3000", " \u2014 ", ";"]
EMPTY_CANON = ["", " ", "!!", "\u2014", "\t", " , "]


def _fullwidth(w: str) -> str:
    return "".join(chr(ord(ch) + 0xFEE0) if "!" <= ch <= "~" else ch for ch in w)


def spell_canon(seq: Sequence[int], salt: int) -> str:
    if not seq:
        return EMPTY_CANON[salt % len(EMPTY_CANON)]
    ws = []
    for j, t in enumerate(seq):
        w = WORD[t]
        v = (salt + j) % 4
        ws.append(w.upper() if v == 1 else _fullwidth(w) if v == 2 else w.capitalize() if v == 3 else w)
    body = SEPS[salt % len(SEPS)].join(ws)
    return (" " + body + "  ") if salt % 5 == 0 else body


def alias_map(m: Sequence[Sequence[int]], salt: int) -> Dict[str, str]:
    return {WORD[k + 1]: spell_canon(v, salt + k) for k, v in enumerate(m) if list(v) != [0]}


def run_alias_case(c) -> List[Fail]:
    from clematis.engine.stages.t2.quality_norm import apply_aliases
    toks = list(c["i"]["toks"] or [])
    m = [list(v or []) for v in (c["i"]["m"] or [])]
    o = c["o"]
    salt = sum(toks) + sum(len(v) + sum(v) for v in m)
    amap = alias_map(m, salt)
    inp = [WORD[t] for t in toks]
    once = [WORD[t] for t in (o["once"] or [])]
    twice = [WORD[t] for t in (o["twice"] or [])]
    where = f"tokens {inp} alias map {amap!r}"
    fails: List[Fail] = []
    try:
        before_t, before_m = list(inp), dict(amap)
        arg: Any = tuple(inp) if salt % 3 == 0 else inp
        got = apply_aliases(arg, amap)
        if not amap:
            for empty in (None, {}):
                g0 = apply_aliases(inp, empty)
                if g0 != inp:
                    fails.append(("AliasNoneOrEmptyMapIsIdentity", f"tokens {inp} with alias map {empty!r}: {g0!r}"))
        if got != once:
            cl = "AliasExpansionOrderPreserved" if sorted(got) == sorted(once) else "AliasSinglePassLeftToRight"
            fails.append((cl, f"{where}: apply_aliases = {got!r}, spec {once!r}"))
        got2 = apply_aliases(list(got), amap)
        if got == once and got2 != twice:
            fails.append(("AliasIdempotenceAsDocumented", f"{where}: second application = {got2!r}, spec {twice!r} (first {once!r})"))
        if inp != before_t or amap != before_m:
            fails.append(("AliasInputNotMutated", f"{where}: apply_aliases changed its arguments"))
        up = [w.upper() for w in inp]            # exact-token match: an upper-case spelling of a key is not a key
        gu = apply_aliases(up, amap)
        if gu != up:
            fails.append(("AliasExactTokenMatch", f"tokens {up} alias map {amap!r}: apply_aliases = {gu!r}, spec unchanged"))
    except Exception as e:      # noqa: BLE001
        fails.append(("Total", f"{where}: raised {type(e).__name__}: {e}"))
    return fails


# ---------------------------------------------------------------------------------------------------------------------
# alias map files
KEYS = {1: "llm", 2: "gpu"}
VALS = {1: "nvidia_cuda", 2: "large language model", 9: "[x, y]"}
NEW_CONTENT = "gpu: nvidia_cuda\n"


def spell_line(code: int, pos: int) -> str:
    if code == 0:
        return ("", "   ")[pos % 2]
    if code == 1:
        return ("# comment: not a pair", "#llm: x")[pos % 2]
    if code == 2:
        return ("justtext", "no colon here")[pos % 2]
    if 100 <= code < 200:
        k, v = divmod(code - 100, 10)
        return (f"{KEYS[k]}: {VALS[v]}", f"{KEYS[k]}:   {VALS[v]}  ")[pos % 2]
    if 200 <= code < 300:
        return f"{KEYS[code - 200]}: [x, y]"
    k, v = divmod(code - 300, 10)
    return f"- {KEYS[k]}: {VALS[v]}"


def spell_slots(sl: Sequence[int]) -> Dict[str, str]:
    names = ["llm", "gpu", "- llm", "- gpu"]
    return {names[i]: VALS[v] for i, v in enumerate(sl) if v}


def run_load_case(arg) -> List[Fail]:
    from clematis.engine.stages.t2.quality_norm import load_alias_map
    c, root = arg
    kind, lines, rw = c["i"]["kind"], list(c["i"]["lines"] or []), c["i"]["rw"]
    o = c["o"]
    d = os.path.join(root, f"{kind}_{'_'.join(map(str, lines)) or 'e'}_{rw}")
    shutil.rmtree(d, ignore_errors=True)
    os.makedirs(d)
    path = os.path.join(d, "aliases.yaml")
    text = "".join(spell_line(code, p) + "\n" for p, code in enumerate(lines))
    if lines and sum(lines) % 3 == 0:
        text = text[:-1]                 # no newline at the end of the file
    where = f"{kind} content {text!r} then {rw}"
    fails: List[Fail] = []
    try:
        if kind == "nopath":
            for p in ("", None):
                if load_alias_map(p) != {}:      # type: ignore[arg-type]
                    fails.append(("LoadAliasMapTotal", f"load_alias_map({p!r}) is not {{}}"))
            return fails
        if kind == "file":
            with open(path, "w", encoding="utf-8", newline="") as f:
                f.write(text)
        elif kind == "badutf8":
            with open(path, "wb") as f:
                f.write(text.encode("utf-8") + b"\xff\xfe\xfa\n")
        elif kind == "dir":
            os.makedirs(path)
        first = load_alias_map(path)
        want1 = spell_slots(o["first"])
        if first != want1 or not all(isinstance(k, str) and isinstance(v, str) for k, v in first.items()):
            cl = "LoadLastDuplicateWins" if kind == "file" and all(100 <= x < 200 or x in (0, 1) for x in lines) else "LoadAliasMapTotal"
            fails.append((cl, f"{where}: load_alias_map = {first!r}, spec {want1!r}"))
        snapshot = dict(first)
        if rw == "replace":
            with open(path, "w", encoding="utf-8") as f:
                f.write(NEW_CONTENT)
        elif rw == "delete":
            os.remove(path)
        alt = os.path.join(d, ".", "..", os.path.basename(d), "aliases.yaml")       # another spelling of the same absolute path
        second = load_alias_map(alt if sum(lines) % 2 else path)
        if second != spell_slots(o["second"]) or second != snapshot:
            fails.append(("LoadCachedPerPath", f"{where}: second load_alias_map = {second!r}, spec (first result, cached) {spell_slots(o['second'])!r}"))
        fresh_path = os.path.join(d, "copy.yaml")
        if rw != "delete" and kind in ("file", "missing") and os.path.exists(path):
            shutil.copyfile(path, fresh_path)
        if kind in ("file", "missing"):
            fresh = load_alias_map(fresh_path)
            if fresh != spell_slots(o["fresh"]):
                fails.append(("LoadAliasMapTotal", f"{where}: the same bytes under a new path give {fresh!r}, spec {spell_slots(o['fresh'])!r}"))
    except Exception as e:      # noqa: BLE001
        fails.append(("LoadAliasMapTotal", f"{where}: raised {type(e).__name__}: {e}"))
    finally:
        shutil.rmtree(d, ignore_errors=True)
    return fails


# ---------------------------------------------------------------------------------------------------------------------
# python reference of the stated rules (random families)
ASCII_ALNUM = frozenset("0123456789abcdefghijklmnopqrstuvwxyzABCDEFGHIJKLMNOPQRSTUVWXYZ")
SUFFIXES = ("ingly", "edly", "ing", "ness", "ment", "tion", "es", "s", "ed")     # porter-lite, in its fixed order


def ref_normalize(s: str) -> str:
    """NFKC -> lower -> runs of whitespace to one space, none at the ends"""
    t = unicodedata.normalize("NFKC", s).lower()
    out: List[str] = []
    pend = False
    for ch in t:
        if ch.isspace():
            pend = bool(out)
        else:
            if pend:
                out.append(" ")
            out.append(ch)
            pend = False
    return "".join(out)


def ref_split(n: str, extra: str = "") -> List[str]:
    toks, cur = [], ""
    for ch in n:
        if ch in ASCII_ALNUM or (extra and ch in extra):
            cur += ch
        else:
            if cur:
                toks.append(cur)
            cur = ""
    if cur:
        toks.append(cur)
    return toks


def ref_stem(t: str) -> str:
    for suf in SUFFIXES:
        if t.endswith(suf) and len(t) - len(suf) > 2:
            return t[: len(t) - len(suf)]
    return t


def ref_tokenize(s: str, stop: Sequence[str], minlen: int, stemmer: str) -> List[str]:
    toks = [t for t in ref_split(ref_normalize(s)) if len(t) >= minlen and t not in stop]
    return [ref_stem(t) for t in toks] if stemmer == "porter-lite" else toks


def ref_apply(tokens: Sequence[str], amap: Dict[str, str]) -> List[str]:
    out: List[str] = []
    for t in tokens:
        out.extend(ref_split(ref_normalize(amap[t]), "_") if t in amap else [t])
    return out


POOL_ASCII = list("abcdefghiIJKSTHWYstxyzAF019 ._-,!")
POOL_WS = list("\x09\x0a\x0d\x0b\x0c\x1c\x1f\x85\xa0\u1680\u2000\u2003\u2009\u2028\u2029\u202f\u205f\u3000")
# fullwidth forms, ligatures, roman numerals, TM / TEL / MHz squares, fractions, superscripts, spacing diaeresis / acute (NFKC: space +
# combining mark), ellipses, DZ digraphs, Kelvin / Ohm / Angstrom signs, long s forms, the 18-character ligature U+FDFA, a.m., a/c,
# circled and modifier letters, circled digit, the era square
POOL_COMPAT = list("\uff21\uff46\uff17\uff3f\ufb00\ufb01\ufb02\ufb03\ufb06\u2160\u216b\u2171\u2122\u2121\u3392\xbd\xb2\u2075\xa8\xb4\u2026\u2025\u01c5\u01c4\u01c6\u212a\u2126\u212b\u017f\u1e9b\ufdfa\u33c2\u2100\u24b6\u24d0\u1d2c\u02b0\u1d34\u2460\u32ff")
# combining marks: acute, dot above, diaeresis, cedilla, macron below, caron, ring, dot below, ypogegrammeni, ogonek, grave, solidus overlay, shadda, vector
POOL_MARKS = list("\u0301\u0307\u0308\u0327\u0331\u030c\u030a\u0323\u0345\u0328\u0300\u0338\u0651\u20d7")
# Turkish dotted / dotless i, sharp s, sigmas, accented capitals, letters that exist precomposed in lower case only (j-caron, h-line-below,
# t-diaeresis), 'n-apostrophe, Greek with ypogegrammeni, Armenian ligature, Georgian / Cherokee case pairs
POOL_CASE = list("\u0130\u0131I\xdf\u1e9e\u03a3\u03c3\u03c2\u0391\u03a9\xc9\xe9\xd1\u0416\u0436\u01f0\u1e96\u1e97\u0149\u1f88\u1fbc\u0587\u10a0\u13a0\uab70\u1c90")
# zero width space / non-joiner / joiner, word joiner, BOM, soft hyphen, arabic letter mark
POOL_ZW = list("\u200b\u200c\u200d\u2060\ufeff\xad\u061c")
POOL_ASTRAL = list("\U0001d400\U0001d41a\U0001d7d7\U0001f130\U0001f600\U00010400\U00010428\U0001e900\U0001e922\U00020000\U0001f1e9\U0001f468\U000118a0\U0001d6bc")
POOL_OTHER = list("\u4e2d\u6587\u0663\u0967\u1100\u1161\uac00\u0e01\u05d0\xf8\xe6\u0153")
POOLS = [POOL_ASCII] * 4 + [POOL_WS, POOL_COMPAT, POOL_MARKS, POOL_MARKS, POOL_CASE, POOL_CASE, POOL_ZW, POOL_ASTRAL, POOL_OTHER]
STEMS = ["runn", "cat", "mend", "posi", "studi", "bl", "go", "class", "process", "amaz", "us", "be", "kind", "state", "add", "sing", "th", "need"]


def random_string(r, n: int) -> str:
    out = []
    for _ in range(n):
        p = POOLS[r.randrange(len(POOLS))]
        out.append(p[r.randrange(len(p))])
    return "".join(out)


def random_text_case(arg) -> Dict[str, Any]:
    """one random string with real Unicode: normalize_text / tokenize against the reference and the clauses checked directly"""
    from clematis.engine.stages.t2.quality_norm import normalize_text, tokenize
    seed, i = arg
    r = rng(seed, "x09text", i)
    fails: List[Fail] = []
    ok: Dict[str, int] = {}
    if i % 4 == 3:       # english-like words for the stemmer
        words = [r.choice(STEMS) + r.choice(["", "", "s", "es", "ed", "ing", "ingly", "edly", "ness", "ment", "tion", "ings", "ss"]) for _ in range(r.randrange(1, 9))]
        s = r.choice([" ", ", ", "\t", "  "]).join(w.upper() if r.random() < 0.2 else w for w in words)
    else:
        s = random_string(r, r.randrange(0, 25))
    where = f"s={s!r} ({' '.join('U+%04X' % ord(ch) for ch in s[:30])})"
    out: Dict[str, Any] = {"fails": fails, "ok": ok, "case": s, "not_nfkc": False, "tok_differs": False}
    try:
        n1 = normalize_text(s)
        want = ref_normalize(s)
        if n1 != want:
            fails.append(("NormaliseLowerNFKC", f"{where}: normalize_text = {n1!r}, reference (NFKC, lower, collapse) {want!r}"))
        else:
            ok["NormaliseLowerNFKC"] = 1
        if any(ch.isspace() and ch != " " for ch in n1) or "  " in n1 or n1 != n1.strip() or n1 != n1.lower():
            fails.append(("NormaliseLowerNFKC", f"{where}: normalize_text = {n1!r} keeps whitespace other than single inner spaces, or upper case"))
        n2 = normalize_text(n1)
        if unicodedata.is_normalized("NFKC", n1):
            if n2 != n1:
                fails.append(("NormaliseIdempotent", f"{where}: normalize_text twice = {n2!r}, once = {n1!r} (which is NFKC-normalised)"))
            else:
                ok["NormaliseIdempotent"] = 1
        else:
            out["not_nfkc"] = True        # DEVIATION N1: lower() after NFKC left a composable sequence
            ok["DEVIATION_N1.output_not_NFKC"] = 1
            if n2 != n1:
                ok["DEVIATION_N1.not_idempotent"] = 1
        nstop = r.randrange(0, 4)
        base = tokenize(s)
        stop = [r.choice(base) for _ in range(nstop)] if base else []
        if stop and r.random() < 0.3:
            stop.append(stop[0].upper())
        minlen = r.choice([0, 1, 1, 2, 3, 4])
        stemmer = r.choice(["none", "porter-lite", "porter-lite", "unknown"])
        if base != ref_split(want):
            fails.append(("TokensAreMaximalAlnumRuns", f"{where}: tokenize = {base!r}, reference {ref_split(want)!r}"))
        else:
            ok["TokensAreMaximalAlnumRuns"] = 1
        got = tokenize(s, stopset=stop, min_token_len=minlen, stemmer=stemmer)
        exp = ref_tokenize(s, stop, minlen, stemmer)
        if got != exp:
            cl = "StemmerPorterLite" if stemmer == "porter-lite" and tokenize(s, stopset=stop, min_token_len=minlen) == ref_tokenize(s, stop, minlen, "none") else "StopAndMinLenFilter"
            fails.append((cl, f"{where}: tokenize(stop={stop}, min_token_len={minlen}, stemmer={stemmer!r}) = {got!r}, reference {exp!r}"))
        else:
            ok["StemmerPorterLite" if stemmer == "porter-lite" else "StopAndMinLenFilter"] = 1
        tn = tokenize(n1)
        if tn != base:
            if out["not_nfkc"]:
                out["tok_differs"] = True
                ok["DEVIATION_N1.tokens_differ"] = 1
            else:
                fails.append(("TokeniseOfNormalisedEqualsTokenise", f"{where}: tokenize(normalize_text(s)) = {tn!r}, tokenize(s) = {base!r}"))
        else:
            ok["TokeniseOfNormalisedEqualsTokenise"] = 1
    except Exception as e:      # noqa: BLE001
        fails.append(("Total", f"{where}: raised {type(e).__name__}: {e}"))
    return out


VOCAB = ["llm", "gpu", "cuda", "nvidia_cuda", "large", "language", "model", "ml", "ai", "x7", "caf", "a", "b", "c"]


def random_alias_case(arg) -> Dict[str, Any]:
    """bigger alias maps with chains and cycles, canonicals spelled with real Unicode; three applications against the reference"""
    from clematis.engine.stages.t2.quality_norm import apply_aliases
    seed, i = arg
    r = rng(seed, "x09alias", i)
    fails: List[Fail] = []
    ok: Dict[str, int] = {}
    keys = r.sample(VOCAB, r.randrange(0, 8))
    amap: Dict[str, str] = {}
    for k in keys:
        n = r.choice([0, 1, 1, 1, 2, 2, 3, 4])
        ws = []
        for _ in range(n):
            w = r.choice(keys) if (keys and r.random() < 0.45) else r.choice(VOCAB + ["caf\xe9", "\ufb01ne", "t\xfcr", "\u0130stanbul", "\u01c5"])
            v = r.randrange(5)
            ws.append(w.upper() if v == 1 else _fullwidth(w) if v == 2 else w.capitalize() if v == 3 else w)
        amap[k] = r.choice(SEPS).join(ws) if ws else r.choice(EMPTY_CANON)
    toks = [r.choice(VOCAB + ["LLM", "Gpu", "caf\xe9", ""]) for _ in range(r.randrange(0, 13))]
    where = f"tokens {toks} alias map {amap!r}"
    out: Dict[str, Any] = {"fails": fails, "ok": ok, "case": {"tokens": toks, "map": amap}, "idem": None}
    try:
        a1 = apply_aliases(list(toks), amap)
        r1 = ref_apply(toks, amap)
        if a1 != r1:
            fails.append(("AliasExpansionOrderPreserved" if sorted(a1) == sorted(r1) else "AliasSinglePassLeftToRight",
                          f"{where}: apply_aliases = {a1!r}, reference {r1!r}"))
            return out
        ok["AliasSinglePassLeftToRight"] = 1
        a2 = apply_aliases(list(a1), amap)
        a3 = apply_aliases(list(a2), amap)
        if a2 != ref_apply(r1, amap) or a3 != ref_apply(ref_apply(r1, amap), amap):
            fails.append(("AliasSinglePassLeftToRight", f"{where}: second / third application {a2!r} / {a3!r} differ from the reference"))
        fixed = all((t not in amap) or ref_split(ref_normalize(amap[t]), "_") == [t] for t in a1)
        out["idem"] = a2 == a1
        if fixed:
            if a2 != a1:
                fails.append(("AliasIdempotenceAsDocumented", f"{where}: no token of the first result {a1!r} is a rewritten key, yet the second application gives {a2!r}"))
            else:
                ok["AliasIdempotenceAsDocumented"] = 1
        else:
            ok["DEVIATION_A1.reapplying_changes_result" if a2 != a1 else "AliasIdempotent(keys present in result)"] = 1
    except Exception as e:      # noqa: BLE001
        fails.append(("Total", f"{where}: raised {type(e).__name__}: {e}"))
    return out
