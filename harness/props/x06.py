"""X06 (extra, beyond the listed properties) — the graph-assisted ("hybrid") rerank of retrieval hits.

(M)    HybridRerank.tla enumerates hit lists (ids, scores), GEL edge sets and t2.hybrid vectors on an exact
       dyadic grid, computes the expected order / bonus per hit / metrics, and states the clauses as
       invariants (Permutation, OffIsIdentity, TopOnePinned, OrderByAdjustedScoreThenId, BonusWithinCap,
       AnchorsFromTopM, OnlyEdgesAboveThreshold, OnlyConsideredHitsMatter, TailBeyondKmaxUntouched,
       MetricsConsistent).
(S->C)  every enumerated case is replayed on the real clematis.engine.stages.hybrid.rerank_with_gel with a real
       engine state (state["graph"] / state["gel"] as the engine keeps them), a validated configuration and
       EpisodeRef hits, and once more through T2's own call site (stages/t2/quality.py:apply_quality):
       order, metrics, object identity of the hits (nothing invented / dropped / copied), no mutation of the
       caller's list, of the graph or of the configuration's values.
       A Python transcription of the spec's operators with fractions.Fraction is first checked against every
       TLC case (it must agree with the spec: machinery), then used as the oracle of a seeded random family:
       larger hit lists, odd ids, finer dyadic weights, every item shape the adapter accepts.
"""
from __future__ import annotations

import json
import os
from fractions import Fraction as Fr
from types import SimpleNamespace
from typing import Any, Dict, List, Optional, Tuple

from ..util import Def, make_cfg, pmap, rng, split_defs

MANIFEST = {"technique": "TLA+ decision table of the GEL-assisted rerank (anchors, 1-/2-hop walk, threshold, degree normalisation, cap, pinned top-1, tail beyond k_max, metrics) "
                         "on an exact dyadic grid enumerated by TLC; every case replayed on rerank_with_gel and through T2's apply_quality; "
                         "Fraction transcription of the spec as oracle of a seeded random family",
            "text": "extra spec beyond the listed properties", "note": "not a listed property; run with ./check X06"}

INVARIANTS = ["Permutation", "TailBeyondKmaxUntouched", "OffIsIdentity", "TopOnePinned", "OrderByAdjustedScoreThenId", "BonusWithinCap",
              "AnchorsFromTopM", "OnlyEdgesAboveThreshold", "OnlyConsideredHitsMatter", "MetricsConsistent"]

# spec id -> real id; the string order is the integer order (and is neither numeric nor by length)
NAMES = {1: "e10", 2: "e9", 3: "m:b", 4: "n", 5: "zz"}
assert sorted(NAMES.values()) == [NAMES[i] for i in sorted(NAMES)]
ARROW = "→"


# ---- the world -----------------------------------------------------------------------------------------
def gel_graph(edges: List[Tuple[str, str, float]], node_ids) -> Dict[str, Any]:
    """a GEL graph as clematis.engine.gel keeps it under state["graph"] (canonical undirected key, src <= dst)"""
    E: Dict[str, Any] = {}
    for a, b, w in edges:
        src, dst = (a, b) if a <= b else (b, a)
        key = f"{src}{ARROW}{dst}"
        E[key] = {"id": key, "src": src, "dst": dst, "weight": float(w), "rel": "coact", "updated_at": None,
                  "attrs": {"coact": 1, "last_seen_turn": 1}}
    return {"nodes": {i: {"id": i, "label": i, "attrs": {}} for i in sorted(node_ids)}, "edges": E,
            "meta": {"schema": "v1.1", "merges": [], "splits": [], "promotions": [], "concept_nodes_count": 0, "edges_count": len(E)}}


_BASE_STATE = None
_CFGS: Dict[Any, Any] = {}


def base_state() -> Dict[str, Any]:
    global _BASE_STATE
    if _BASE_STATE is None:
        from .. import engine as E
        _BASE_STATE = E.mk_state(E.DEFAULT_GRAPHS, [])
    return dict(_BASE_STATE)


def hybrid_dict(c: Dict[str, Any]) -> Dict[str, Any]:
    """t2.hybrid from a vector whose numbers are Fractions (or exact floats)"""
    return {"enabled": bool(c["en"]), "use_graph": bool(c["ug"]), "anchor_top_m": int(c["m"]), "walk_hops": int(c["hops"]),
            "edge_threshold": float(c["th"]), "lambda_graph": float(c["lam"]), "damping": float(c["damp"]),
            "degree_norm": str(c["deg"]), "max_bonus": float(c["cap"]), "k_max": int(c["kmax"])}


def real_cfg(c: Dict[str, Any]):
    from .. import engine as E
    h = hybrid_dict(c)
    key = json.dumps(h, sort_keys=True)
    if key not in _CFGS:
        cfg = E.validated_cfg({"t2": {"hybrid": h}})
        got = dict(cfg["t2"]["hybrid"])
        if got != h:
            from ..tlc import TLCError
            raise TLCError(f"X06: the validator changed the hybrid vector {h} into {got}")
        _CFGS[key] = cfg
    return _CFGS[key], key


class _Obj:
    """a hit that exposes its id / score through the alternative attribute names the adapter accepts"""

    def __init__(self, i, s):
        self.episode_id = i
        self.similarity = s


def mk_items(hits: List[Tuple[str, float]], shape: str, r=None) -> List[Any]:
    from clematis.engine.types import EpisodeRef
    out = []
    for k, (i, s) in enumerate(hits):
        sh = shape if shape != "mixed" else ("ref", "tuple", "dict", "obj", "dict2")[(r.randrange(5) if r else k % 5)]
        if sh == "ref":
            out.append(EpisodeRef(id=i, owner="A", score=float(s), text=f"t {i}"))
        elif sh == "tuple":
            out.append((i, float(s), "rest"))
        elif sh == "dict":
            out.append({"id": i, "score": float(s), "text": "x"})
        elif sh == "dict2":
            out.append({"node_id": i, "sim": float(s)})
        else:
            out.append(_Obj(i, float(s)))
    return out


def call_real(hits, edges, c, shape="ref", via="direct", r=None):
    """-> (order as input positions (0-based) or None, metrics, problems)"""
    from .. import engine as E
    from clematis.engine.stages.hybrid import rerank_with_gel
    cfg, key = real_cfg(c)
    st = base_state()
    g = gel_graph(edges, {i for i, _ in hits} | {a for a, _, _ in edges} | {b for _, b, _ in edges})
    st["graph"] = g
    st["gel"] = g
    gsnap = json.dumps(g, sort_keys=True)
    ctx = E.mk_ctx(cfg)
    items = mk_items(hits, shape, r)
    before = list(items)
    problems: List[Tuple[str, str]] = []
    try:
        if via == "direct":
            res = rerank_with_gel(ctx, st, items)
            new, metrics = res
        else:
            from clematis.engine.stages.t2.quality import apply_quality
            tup = apply_quality(ctx, st, items, "query", cfg, cfg["t2"])
            new = tup[0]
            metrics = dict(tup[2] or {})
            metrics["hybrid_used"] = tup[1]
            if tup[3] or tup[5]:
                problems.append(("T2Wiring", "fusion / mmr ran although t2.quality is off"))
    except Exception as e:      # noqa: BLE001
        return None, {}, [("RerankTotal", f"raised {type(e).__name__}: {e}")]
    if len(items) != len(before) or any(x is not y for x, y in zip(items, before)):
        problems.append(("NoInPlaceMutation", "the caller's list was changed in place"))
    if json.dumps(g, sort_keys=True) != gsnap:
        problems.append(("NoInPlaceMutation", "the GEL graph was changed by the rerank"))
    if json.dumps(dict(cfg["t2"]["hybrid"]), sort_keys=True) != key:
        problems.append(("NoInPlaceMutation", f"t2.hybrid was changed by the rerank: {dict(cfg['t2']['hybrid'])}"))
    if not isinstance(new, list) or not isinstance(metrics, dict):
        return None, {}, problems + [("Permutation", f"returned {type(new).__name__}, {type(metrics).__name__}")]
    if via == "direct" and new is items and len(items) > 0:
        problems.append(("NoInPlaceMutation", "the result is the caller's list object, not a new list"))
    pos = {id(x): k for k, x in enumerate(before)}
    order = [pos.get(id(x), -1) for x in new]
    if sorted(order) != list(range(len(before))):
        problems.append(("Permutation", f"the result is not a permutation of the very hits passed in: positions {order} of {len(before)} hits"))
        return None, metrics, problems
    return order, metrics, problems


# ---- Fraction transcription of HybridRerank.tla (operators named as in the spec) -------------------------
def _pow2(n: int) -> bool:
    return n > 0 and (n & (n - 1)) == 0


def model(hits: List[Tuple[str, Fr]], edges: List[Tuple[str, str, Fr]], c: Dict[str, Any]) -> Dict[str, Any]:
    n = len(hits)
    K = min(n, c["kmax"])
    ident = list(range(n))

    def same(kc, kr, m):
        return {"order": ident, "bonus": [Fr(0)] * n, "adj": [Fr(s) for _, s in hits], "used": False, "kc": kc, "kr": kr, "m": m, "exact": True}
    if not c["en"] or not c["ug"] or not edges or n == 0:
        return same(-1, -1, -1)
    if K <= 1:
        return same(K, -1, -1)
    wmap = {frozenset((a, b)): Fr(w) for a, b, w in edges}

    def W(x, y):
        return wmap.get(frozenset((x, y)), Fr(0))
    th, hops = Fr(c["th"]), c["hops"]
    M = max(1, min(c["m"], K))
    ids = [hits[i][0] for i in range(K)]
    idset = set(ids)
    one = [Fr(0)] * K
    aw = [Fr(0)] * K
    path = [Fr(0)] * K
    if hops == 1 and M >= 2:
        for i in range(K):
            one[i] = sum((W(ids[u], ids[i]) for u in range(M) if u != i and abs(W(ids[u], ids[i])) >= th), Fr(0))
    if hops == 2:
        for i in range(K):
            best = Fr(0)
            for u in range(M):
                w1 = W(ids[u], ids[i])
                if u != i and abs(w1) >= th and abs(w1) > abs(best):
                    best = w1
            aw[i] = best
        for p in range(K):
            best = Fr(0)
            for j in range(K):
                w2 = W(ids[j], ids[p])
                val = aw[j] * w2
                if j != p and aw[j] != 0 and abs(w2) >= th and abs(val) > abs(best):
                    best = val
            path[p] = best
    contrib = any(one[i] != 0 or path[i] != 0 for i in range(K))
    raw = [(Fr(c["damp"]) * path[i]) if hops == 2 else one[i] for i in range(K)]
    deg = [sum(1 for a, b, w in edges if abs(Fr(w)) >= th and ((a == ids[i] and b in idset) or (b == ids[i] and a in idset))) for i in range(K)]
    inv = c["deg"] == "invdeg"
    norm = [(raw[i] / deg[i]) if inv and deg[i] > 0 else raw[i] for i in range(K)]
    exact = all(_pow2(x.denominator) for x in norm)
    cap = Fr(c["cap"])
    bon = [max(-cap, min(cap, norm[i])) if i < K else Fr(0) for i in range(n)]
    adj = [Fr(hits[i][1]) + Fr(c["lam"]) * bon[i] for i in range(n)]
    if not contrib:
        return same(K, 0, M)
    rest = sorted(range(1, K), key=lambda p: (-adj[p], hits[p][0]))
    order = [0] + rest + list(range(K, n))
    return {"order": order, "bonus": bon, "adj": adj, "used": True, "kc": K, "kr": sum(1 for j, p in enumerate(order) if j != p), "m": M, "exact": exact}


# ---- comparison of one real call with the expectation -----------------------------------------------------
def compare(where: str, exp: Dict[str, Any], c: Dict[str, Any], n: int, order, metrics, via: str, ids: List[str]) -> List[Tuple[str, str]]:
    fails: List[Tuple[str, str]] = []
    K = min(n, c["kmax"])
    if order is not None:
        want = list(exp["order"])
        if any(order[i] != i for i in range(K, n)):
            fails.append(("TailBeyondKmaxUntouched", f"{where}: hits beyond k_max={c['kmax']} moved: result positions {order}"))
        elif n and order[0] != 0:
            fails.append(("TopOnePinned", f"{where}: the top hit moved: result positions {order}, spec {want}"))
        elif exp["exact"] and order != want:
            if want == list(range(n)):
                fails.append(("OffIsIdentity", f"{where}: the order changed to {[ids[p] for p in order]}, spec: unchanged {[ids[p] for p in want]}"))
            else:
                fails.append(("OrderByAdjustedScoreThenId", f"{where}: order {[ids[p] for p in order]}, spec {[ids[p] for p in want]} "
                                                            f"(bonus {[str(b) for b in exp['bonus']]}, adjusted {[str(a) for a in exp['adj']]})"))
        moved = sum(1 for j, p in enumerate(order) if j != p)
        if "k_reordered" in metrics and metrics["k_reordered"] != moved:
            fails.append(("MetricsConsistent", f"{where}: k_reordered={metrics['k_reordered']} but {moved} positions changed their occupant"))
        if not metrics.get("hybrid_used") and moved:
            fails.append(("MetricsConsistent", f"{where}: hybrid_used is false although the order changed to positions {order}"))
    used = metrics.get("hybrid_used")
    if used is not exp["used"]:
        fails.append(("MetricsConsistent", f"{where}: hybrid_used={used!r}, spec {exp['used']}"))
    for key, fld in (("k_considered", "kc"), ("k_reordered", "kr"), ("anchor_top_m", "m")):
        if fld == "kr" and not exp["exact"]:
            continue
        got = metrics.get(key, -1)
        if got != exp[fld] or (got != -1 and type(got) is not int):
            fails.append(("MetricsConsistent", f"{where}: metrics[{key}]={metrics.get(key, 'absent')!r}, spec {exp[fld] if exp[fld] != -1 else 'absent'}"))
    if exp["m"] != -1:       # the echo of the effective settings
        echo = {"walk_hops": c["hops"], "edge_threshold": float(c["th"]), "lambda_graph": float(c["lam"]),
                "damping": float(c["damp"]) if c["hops"] == 2 else 0.0, "degree_norm": c["deg"], "k_max": c["kmax"]}
        for k2, v in echo.items():
            if metrics.get(k2) != v:
                fails.append(("MetricsConsistent", f"{where}: metrics[{k2}]={metrics.get(k2)!r}, the effective setting is {v!r}"))
    if via != "direct":
        fails = [("T2Wiring", m) for _, m in fails]
    return fails


# ---- family 1: TLC cases -----------------------------------------------------------------------------------
def concretise(case) -> Tuple[List[Tuple[str, Fr]], List[Tuple[str, str, Fr]], Dict[str, Any]]:
    hits = [(NAMES[h["id"]], Fr(h["s"], 8)) for h in (case["hits"] or [])]
    edges = [(NAMES[e["a"]], NAMES[e["b"]], Fr(e["w"], 4)) for e in sorted(case["edges"] or [], key=lambda e: (e["a"], e["b"], e["w"]))]
    k = case["cfg"]
    c = {"en": k["en"], "ug": k["ug"], "m": k["m"], "hops": k["hops"], "damp": Fr(k["damp"], 2), "th": Fr(k["th"], 4),
         "lam": Fr(k["lam"], 2), "deg": k["deg"], "cap": Fr(k["cap"], 4), "kmax": k["kmax"]}
    return hits, edges, c


def expected_of(case) -> Dict[str, Any]:
    o = case["out"]
    return {"order": [p - 1 for p in (o["order"] or [])], "bonus": [Fr(b, 128) for b in (o["bonus"] or [])],
            "adj": [Fr(a, 256) for a in (o["adj"] or [])], "used": o["used"], "kc": o["kc"], "kr": o["kr"], "m": o["m"], "exact": o["exact"]}


def run_case(case) -> List[Tuple[str, str]]:
    hits, edges, c = concretise(case)
    exp = expected_of(case)
    # the Python transcription must agree with the spec (it is the oracle of the random family)
    mo = model(hits, edges, c)
    both = exp["exact"] and mo["exact"]
    for f in (("exact", "used", "kc", "m", "order", "bonus", "adj", "kr") if both else ("exact", "used", "kc", "m")):
        if mo[f] != exp[f]:
            return [("__machinery__", f"the Python transcription of the spec disagrees with TLC on {f}: {mo[f]} vs {exp[f]} for {json.dumps(case)[:600]}")]
    ids = [i for i, _ in hits]
    where = f"hits={[(i, float(s)) for i, s in hits]} edges={[(a, b, float(w)) for a, b, w in edges]} hybrid={hybrid_dict(c)}"
    fails: List[Tuple[str, str]] = []
    for via in ("direct", "t2"):
        order, metrics, problems = call_real(hits, edges, c, "ref", via)
        fails += [(cl if via == "direct" else "T2Wiring", f"{where} [{via}]: {m}") for cl, m in problems]
        fails += compare(f"{where} [{via}]", exp, c, len(hits), order, metrics, via, ids)
    if not exp["exact"]:
        fails.append(("__inexact__", ""))
    return fails


# ---- family 2: seeded random inputs against the clauses ----------------------------------------------------
ODD_IDS = ["ep1", "ep10", "ep2", "Ep3", "e", "", "m:apple", "m:Apple", "ép", "z→y", "10", "9", "a b", "ñ", "中", "zz", "ep-7", "_x", "~", "A"]


def random_case(args) -> List[Tuple[str, str]]:
    seed, i = args
    r = rng(seed, "x06", i)
    n = r.choice([2, 3, 5, 6, 8, 12])
    pool = list(ODD_IDS)
    r.shuffle(pool)
    ids = pool[:n]
    outside = pool[n:n + 2]
    den = r.choice([8, 16])
    scores = [Fr(r.randrange(0, den + 1), den) for _ in range(n)]
    hits = list(zip(ids, scores))
    if r.random() < 0.7:
        hits.sort(key=lambda h: (-h[1], h[0]))
    wgrid = [Fr(1, 8), Fr(1, 4), Fr(1, 2), Fr(3, 4), Fr(1), Fr(-1, 4), Fr(-1, 2), Fr(-1), Fr(0), Fr(3, 8)]
    pairs = set()
    edges = []
    for _ in range(r.randrange(0, 2 * n + 1)):
        a, b = r.sample(ids + (outside if r.random() < 0.3 else []), 2)
        if frozenset((a, b)) in pairs:
            continue
        pairs.add(frozenset((a, b)))
        edges.append((a, b, r.choice(wgrid)))
    c = {"en": r.random() < 0.93, "ug": r.random() < 0.93, "m": r.choice([1, 2, 2, 3, 4, n, n + 3]), "hops": r.choice([1, 2]),
         "damp": r.choice([Fr(0), Fr(1, 4), Fr(1, 2), Fr(1)]), "th": r.choice([Fr(0), Fr(1, 8), Fr(1, 4), Fr(1, 2), Fr(1)]),
         "lam": r.choice([Fr(0), Fr(1, 4), Fr(1, 2), Fr(1), Fr(1)]), "deg": r.choice(["none", "none", "invdeg"]),
         "cap": r.choice([Fr(0), Fr(1, 8), Fr(1, 2), Fr(1, 2), Fr(2)]), "kmax": r.choice([1, 2, max(1, n - 2), n, 128, 128])}
    shape = r.choice(["ref", "tuple", "dict", "obj", "mixed"])
    mo = model(hits, edges, c)
    where = f"random {i}: n={n} shape={shape} hits={[(a, float(s)) for a, s in hits]} edges={[(a, b, float(w)) for a, b, w in edges]} hybrid={hybrid_dict(c)}"
    order, metrics, problems = call_real(hits, edges, c, shape, "direct", r)
    fails = [(cl, f"{where}: {m}") for cl, m in problems]
    if order is None:
        return fails
    K = min(n, c["kmax"])
    # the clauses, on the REAL result, with the adjusted scores recomputed exactly
    if any(order[j] != j for j in range(K, n)):
        fails.append(("TailBeyondKmaxUntouched", f"{where}: result positions {order}"))
    if order[0] != 0:
        fails.append(("TopOnePinned", f"{where}: result positions {order}"))
    if any(abs(b) > c["cap"] for b in mo["bonus"]):
        fails.append(("__machinery__", f"{where}: the oracle's bonus exceeds the cap"))
    used = bool(metrics.get("hybrid_used"))
    if used != mo["used"]:
        fails.append(("MetricsConsistent", f"{where}: hybrid_used={used}, spec {mo['used']}"))
    if not mo["used"] and order != list(range(n)):
        fails.append(("OffIsIdentity", f"{where}: no graph contribution, but result positions {order}"))
    if mo["used"] and order[0] == 0:
        tol = Fr(0) if mo["exact"] else Fr(1, 10 ** 9)
        for j in range(1, K - 1):
            p, q = order[j], order[j + 1]
            d = mo["adj"][p] - mo["adj"][q]
            if d < -tol or (mo["exact"] and d == 0 and not hits[p][0] < hits[q][0]):
                fails.append(("OrderByAdjustedScoreThenId", f"{where}: {hits[p][0]!r} (adjusted {mo['adj'][p]}) is ranked before {hits[q][0]!r} (adjusted {mo['adj'][q]}); "
                                                            f"result {[hits[x][0] for x in order]}, spec {[hits[x][0] for x in mo['order']]}"))
                break
    for key, fld in (("k_considered", "kc"), ("anchor_top_m", "m")):
        if metrics.get(key, -1) != mo[fld]:
            fails.append(("MetricsConsistent", f"{where}: metrics[{key}]={metrics.get(key, 'absent')!r}, spec {mo[fld] if mo[fld] != -1 else 'absent'}"))
    moved = sum(1 for j, p in enumerate(order) if j != p)
    if metrics.get("k_reordered", -1) != (moved if mo["kr"] != -1 else -1):
        fails.append(("MetricsConsistent", f"{where}: k_reordered={metrics.get('k_reordered', 'absent')!r}, {moved} positions changed (spec: {'reported' if mo['kr'] != -1 else 'absent'})"))
    if not mo["exact"]:
        fails.append(("__inexact__", ""))
    return fails


# ---- the universes ---------------------------------------------------------------------------------------
def _seqs(xs) -> Def:
    return Def("{" + ", ".join("<<" + ", ".join(str(v) for v in x) + ">>" for x in xs) + "}")


def _edges(xs) -> Def:
    return Def("{" + ", ".join(f"[a |-> {a}, b |-> {b}, w |-> {w}]" for a, b, w in xs) + "}")


# (a, b, weight in 1/4): both signs, the magnitudes 1/4 1/2 1 and 0; +1/2 and -1/2 tie in magnitude at hit 2; the pair
# (3,4) occurs twice (strong / zero weight: a graph holds one of them); hit 2 also has an edge to id 5, which is no hit
CANDS8 = [(1, 2, 2), (1, 3, 1), (1, 4, 4), (2, 3, -2), (2, 4, 2), (3, 4, 4), (2, 5, 4), (3, 4, 0)]
CANDS4 = [(1, 2, 2), (1, 3, 4), (2, 3, -2), (3, 4, 1)]


def slices(q: bool) -> List[Tuple[str, Dict[str, Any]]]:
    on = {"Gates": ["on"]}
    if q:
        return [
            ("walks", dict(on, Ns=[4], IdOrders=_seqs([[1, 2, 3, 4], [2, 4, 1, 3]]), ScoreVecs=_seqs([[7, 6, 6, 5], [6, 6, 6, 6]]),
                           EdgeCands=_edges(CANDS8), MaxEdges=3, Ms=[1, 2, 3], Hops=[1, 2], Damps=[0, 1], Ths=[0, 2], Lams=[1, 2],
                           Degs=["none", "invdeg"], Caps=[8], KMaxes=[128])),
            ("config", dict(on, Ns=[3, 4], IdOrders=_seqs([[1, 2, 3, 4]]), ScoreVecs=_seqs([[7, 6, 5, 5], [5, 7, 4, 6]]),
                            EdgeCands=_edges(CANDS4), MaxEdges=4, Ms=[1, 2, 5], Hops=[1, 2], Damps=[0, 1], Ths=[0, 2], Lams=[0, 1, 2],
                            Degs=["none", "invdeg"], Caps=[1, 8], KMaxes=[2, 3, 128])),
            ("gates", dict(Gates=["on", "disabled", "nograph"], Ns=[0, 1, 2, 4], IdOrders=_seqs([[1, 2, 3, 4], [2, 4, 1, 3]]),
                           ScoreVecs=_seqs([[7, 6, 6, 5], [6, 6, 6, 6]]), EdgeCands=_edges(CANDS8), MaxEdges=2, Ms=[1, 2], Hops=[1, 2], Damps=[1],
                           Ths=[0], Lams=[2], Degs=["none"], Caps=[8], KMaxes=[1, 2, 128])),
        ]
    out = []
    svs = [[7, 6, 6, 5], [6, 6, 6, 6], [5, 7, 4, 6], [8, 4, 4, 0], [6, 5, 5, 5]]
    for k, o in enumerate([[1, 2, 3, 4], [2, 4, 1, 3], [4, 3, 2, 1]]):
        for nn in (3, 4):
            out.append((f"walks_o{k}_n{nn}", dict(on, Ns=[nn], IdOrders=_seqs([o]), ScoreVecs=_seqs(svs), EdgeCands=_edges(CANDS8), MaxEdges=4,
                                                  Ms=[1, 2, 3], Hops=[1, 2], Damps=[0, 1], Ths=[0, 2], Lams=[1, 2], Degs=["none", "invdeg"], Caps=[1, 8],
                                                  KMaxes=[128])))
    for k, sv in enumerate([[7, 6, 5, 5], [5, 7, 4, 6]]):
        for nn in (3, 4):
            out.append((f"config_s{k}_n{nn}", dict(on, Ns=[nn], IdOrders=_seqs([[1, 2, 3, 4]]), ScoreVecs=_seqs([sv]), EdgeCands=_edges(CANDS4), MaxEdges=4,
                                                   Ms=[1, 2, 3, 5], Hops=[1, 2], Damps=[0, 1, 2], Ths=[0, 2, 4], Lams=[0, 1, 2], Degs=["none", "invdeg"],
                                                   Caps=[0, 1, 8], KMaxes=[1, 2, 3, 128])))
    out.append(("gates", dict(Gates=["on", "disabled", "nograph"], Ns=[0, 1, 2, 3, 4], IdOrders=_seqs([[1, 2, 3, 4], [2, 4, 1, 3], [4, 3, 2, 1]]),
                              ScoreVecs=_seqs(svs), EdgeCands=_edges(CANDS8), MaxEdges=3, Ms=[1, 2], Hops=[1, 2], Damps=[1],
                              Ths=[0], Lams=[2], Degs=["none"], Caps=[8], KMaxes=[1, 2, 128])))
    return out


def account(run, cases, results, sample):
    from ..tlc import TLCError
    for c, fails in zip(cases, results):
        for clause, msg in fails:
            if clause == "__machinery__":
                raise TLCError(msg)
        inexact = any(cl == "__inexact__" for cl, _ in fails)
        fails = [f for f in fails if f[0] != "__inexact__"]
        key = json.dumps([c["hits"], c["edges"], c["cfg"]], sort_keys=True)
        run.traces += 1
        run.case(key)
        if inexact:
            run.guarded_out += 1      # order / k_reordered not compared (a division by 3 that is not exact on the grid)
            if not fails:
                run.ok("HybridRerank.conforms_without_arithmetic")
        elif not fails:
            run.ok("HybridRerank.conforms")
            if c["out"]["used"]:
                run.ok("HybridRerank.conforms.hybrid_used")
                if c["out"]["kr"] > 0:
                    run.ok("HybridRerank.conforms.reordered")
                    if sample is None and c["out"]["kr"] >= 3 and c["cfg"]["hops"] == 2:
                        sample = c
        seen = set()
        for clause, msg in fails:
            if clause in seen:
                continue
            seen.add(clause)
            run.fail(clause, {"clause": clause, "family": "tlc"}, {"hits": c["hits"], "edges": c["edges"], "cfg": c["cfg"]}, msg, replay={"case": c})
    return sample


def check(run) -> None:
    from ..tlc import TLCError
    q = run.quick
    run.rule = ("every (hit list, GEL edge set, t2.hybrid vector) of the HybridRerank.tla slices replayed on rerank_with_gel and through apply_quality; "
                "seeded random family against the clauses with Fraction arithmetic; distinct = distinct (hits, edges, vector)")
    # TLC enumerates initial states with one thread: the slices run as separate TLC processes (3 at a time), each finished
    # slice is replayed at once on 3 worker processes (at most 6 busy processes, one slice of cases in memory)
    import concurrent.futures as cf
    procs = 3
    sample = None

    def tlc_slice(item):
        name, consts = item
        cfg = make_cfg(consts, INVARIANTS, [], emit=False, view=None, constraint="EmitCase")
        res = run.tlc("HybridRerank", cfg, name=f"HybridRerank_{name}", workers=1, timeout_s=1500, defs=split_defs(consts), heap="3g")
        res.text = ""
        return name, consts, res
    with cf.ThreadPoolExecutor(max_workers=3) as ex:
        futs = [ex.submit(tlc_slice, it) for it in slices(q)]
        for fut in cf.as_completed(futs):
            name, consts, res = fut.result()
            run.model_must_hold(res)
            cases = res.emitted
            res.emitted = []
            if not cases:
                raise TLCError(f"HybridRerank slice {name} emitted no cases")
            run.constants[name] = {k: str(v) for k, v in consts.items()}
            sample = account(run, cases, pmap(run_case, cases, procs=procs, chunk=500), sample)
            del cases
    procs = 6
    nr = 3000 if q else 60000
    args = [(run.seed, i) for i in range(nr)]
    for a, fails in zip(args, pmap(random_case, args, procs=procs, chunk=250)):
        for clause, msg in fails:
            if clause == "__machinery__":
                raise TLCError(msg)
        inexact = any(cl == "__inexact__" for cl, _ in fails)
        fails = [f for f in fails if f[0] != "__inexact__"]
        run.traces += 1
        run.case(("rand", a[1]))
        if not fails:
            run.ok("HybridRerank.random_clauses" + ("_tolerant" if inexact else ""))
        seen = set()
        for clause, msg in fails:
            if clause in seen:
                continue
            seen.add(clause)
            run.fail(clause, {"clause": clause, "family": "random"}, {"seed": a[0], "i": a[1]}, msg, replay={"random": list(a)})
    if sample is not None:
        run.sample({"hits": sample["hits"], "edges": sample["edges"], "cfg": sample["cfg"], "out": sample["out"]}, cap=2)
    run.assumptions += ["hit ids are distinct (T2 retrieves each episode once)",
                        "scores, weights and settings lie on a dyadic grid so that the implementation's doubles are exact; invdeg cases whose division by 3 "
                        "is not exact are compared without the arithmetic-dependent parts (counted in guarded_out)"]
    run.exhaustive = False


def replay(rep) -> int:
    r = rep["replay"]
    fails = run_case(r["case"]) if "case" in r else random_case(tuple(r["random"]))
    fails = [f for f in fails if f[0] != "__inexact__"]
    for f in fails:
        print(": ".join(f))
    if fails:
        print(f"VIOLATION property=X06 replay={rep.get('_path', '?')}")
        return 1
    print("replay: conforms")
    return 0
