"""C11 — retrieval honours scope, thresholds, caps and documented ranking.

(M)    Retrieval.tla: the documented tier walk (owner scope, per-tier filters, cosine threshold, top-k by
       (-cos, id), top-m clusters by centroid cosine, dedupe across tiers, early stop at k, combined
       rescoring, use cap, residual nudges) over <= 5 episodes in integer arithmetic.  TLC enumerates the
       inputs in Init (small facets exhaustively, the full documented scope by RandomSubset sampling) and
       checks the clauses AtMostK, Distinct, OwnerScope, Threshold, TierRules, RankingLaw,
       ResidualExistingNodes, ResidualLabelsFromUsedHits, ResidualCap, SliceCapOnUse as invariants.
(S->C)  every emitted case is run on the real t2_semantic (stage caches off) with exact geometry through
       ctx.enc (query = e1, episode vectors with exactly representable cosines on the half grid):
       ids / order / k_returned / k_used / residual deltas compared with the spec, and every clause is
       ALSO evaluated directly on the real result.  The same worlds are run with the hybrid (GEL edges in
       state["graph"]) and quality (fusion, MMR) layers open: RerankIsPermutation + residual clauses only.
(C->S)  random memories of 50..300 episodes with the real hash embeddings: AtMostK, Distinct, OwnerScope,
       Threshold, sortedness by the documented combined score recomputed from the episode fields,
       residual clauses, slice cap, rerank permutation.
"""
from __future__ import annotations

import datetime as dt
import json
import os
import shutil
import tempfile
import zlib
from concurrent.futures import ThreadPoolExecutor
from types import SimpleNamespace
from typing import Any, Dict, List, Optional, Tuple

from .. import tlc as _tlc
from ..util import Def, make_cfg, pmap, rng, split_defs

MANIFEST = {
    "technique": "TLA+ transcription of the documented T2 tier walk in exact integer arithmetic, the clauses model-checked as invariants with TLC over exhaustively enumerated small facets and a RandomSubset sample of the full documented scope (<= 5 episodes); every enumerated case replayed on the real t2_semantic with exact geometry injected through ctx.enc; rerank layers (hybrid GEL, fusion, MMR) judged as permutations on the same worlds; random large memories with the real hash embeddings checked clause by clause",
    "text": "Model checking of the documented retrieval (owner scope, recency window, top-m clusters by centroid cosine, cosine threshold, per-tier top-k by (-cos,id), dedupe, early stop at k, combined rescoring alpha*(cos+1)/2+beta*recency+gamma*importance with id tie-break, slice use-cap, capped residual nudges from the used hits) with all property clauses as invariants, bound to the code by replaying every TLC-enumerated case on the real t2_semantic (ids, order, k_returned, k_used, residual deltas equal to the spec; each clause also evaluated directly on the real result), by running the same worlds with hybrid/fusion/MMR layers open (same multiset of ids, residual clauses), and by clause evaluation on random 50-300 episode memories with the real hash embeddings.",
    "note": "Cosines live on the half grid {-1,-1/2,0,1/2,1} (plus zero and bit-identical duplicate vectors) realised by float32 vectors whose norms and dot products are exact; thresholds 0.3/0.6 sit off the grid, 0.5 on it. Cases whose outcome hinges on an exact tie between distinct inputs evaluated in non-exact float arithmetic (cluster centroids, combined scores with a non-dyadic recency term) are excluded and counted (guarded_out); ties between bit-identical inputs are kept. Unnamed clusters tie-break by an undocumented hash: such ties at the top-m cut are guarded. BM25/MMR/hybrid scores are not modelled (permutation property only). Labels are distinct after lower-casing; label matching is substring containment. In-memory backend only; perf.parallel off.",
}

CLAUSES = ["AtMostK", "Distinct", "OwnerScope", "Threshold", "TierRules", "RankingLaw", "ResidualExistingNodes",
           "ResidualLabelsFromUsedHits", "ResidualCap", "SliceCapOnUse"]
NOCAP = 99
OWN = {1: "A", 2: "B", 3: "world"}
CLU = {0: None, 1: "c1", 2: "c2"}
TIER = {1: "exact_semantic", 2: "cluster_semantic", 3: "archive"}
SCOPE = {0: "any", 1: "agent", 2: "world"}
NODE_ID = {1: "n:a", 2: "n:b", 3: "n:c", 4: "n:d"}
LABEL = {1: "Apple", 2: "cherry pie", 3: "Date", 4: "Ghost"}          # labels in the graph carry capitals
WORDS = {1: ["apple", "pineapple tart"], 2: ["cherry pie", "sour cherry pies"], 3: ["date", "update"], 4: ["ghost", "ghostly"]}
EXTRA_NODES = [("n:y", "unmentioned"), ("n:z", "")]                 # never matched / empty label
NOW = dt.datetime(2025, 9, 1, tzinfo=dt.timezone.utc)
NOW_ISO = "2025-09-01T00:00:00Z"
DIM = 1 + 3 * 5 + 3
QUERY = "apple date memo"

FULL = {"Ns": [5], "Owners": [1, 2, 3], "Ages": [0, 10, 40, 400], "Clusters": [0, 1, 2], "Imps": [0, 1, 2],
        "Vecs": Def("{-2, -1, 0, 1, 2, 3, 4}"), "Mentions": Def("SUBSET (1..4)"), "Nodes": [1, 2, 3],
        "Ks": [1, 2, 3, 64], "Thrs": Def("{-20, 6, 10, 12}"),
        "TierSeqs": Def("{<<>>, <<1>>, <<2>>, <<3>>, <<1, 2>>, <<1, 3>>, <<2, 3>>, <<1, 2, 3>>}"),
        "TopMs": [1, 2, 3], "RecentDays": [10, 30], "Weights": Def("(0..4) \\X (0..4) \\X (0..4)"),
        "Scopes": [0, 1, 2], "ResCaps": [0, 1, 2, 32], "SliceCaps": [0, 1, NOCAP], "SampleEps": 0, "SampleCfg": 0}
NOMENT = Def("{{}}")


def facets(q: bool) -> List[Tuple[str, dict, int]]:
    """(name, constants, number of JVMs with distinct seeds).  SampleEps = 0 -> exhaustive facet."""
    F = FULL
    out: List[Tuple[str, dict, int]] = []
    # ---- exhaustive small facets ------------------------------------------------------------------
    # owner scope x threshold x k (2 episodes)
    out.append(("ex_scope", dict(F, Ns=[2], Ages=[0], Clusters=[0], Imps=[1], Vecs=Def("{1, 2, 3, 4}" if q else "{-2, 0, 1, 2, 3, 4}"),
                                 Mentions=NOMENT, Ks=[1, 2, 64], TierSeqs=Def("{<<3>>}"), TopMs=[3], RecentDays=[30],
                                 Weights=Def("{<<4, 0, 0>>}"), ResCaps=[32], SliceCaps=[NOCAP]), 1))
    for k in (1, 2, 64):      # tiers x dedupe x early stop (3 episodes)
        out.append((f"ex_tiers_k{k}", dict(F, Ns=[3], Owners=[1], Ages=[0, 40], Clusters=[1, 2] if q else [0, 1, 2], Imps=[1], Vecs=Def("{1, 2}"),
                                           Mentions=NOMENT, Ks=[k], Thrs=Def("{6}" if q else "{6, 12}"), TopMs=[1], RecentDays=[30],
                                           Weights=Def("{<<4, 0, 0>>}"), Scopes=[0], ResCaps=[32], SliceCaps=[NOCAP]), 1))
    # residual nudges x caps (2 episodes)
    out.append(("ex_resid", dict(F, Ns=[2], Owners=[1], Ages=[0], Clusters=[0], Imps=[1], Vecs=Def("{1, 2}"),
                                 Mentions=Def("{{}, {1}, {2, 3}, {1, 2, 3}, {4}, {1, 4}}"), Ks=[1, 64], Thrs=Def("{-20}"),
                                 TierSeqs=Def("{<<3>>}"), TopMs=[3], RecentDays=[30], Weights=Def("{<<4, 0, 0>>}"), Scopes=[0]), 1))
    if not q:
        for w3 in range(5):   # ranking law: all weights on the quarter grid (2 episodes)
            out.append((f"ex_rank_g{w3}", dict(F, Ns=[2], Owners=[1], Ages=[0, 10, 400], Clusters=[0], Imps=[0, 1, 2], Vecs=Def("{-2, 1, 4}"),
                                               Mentions=NOMENT, Ks=[64], Thrs=Def("{-20}"), TierSeqs=Def("{<<3>>}"), TopMs=[3], RecentDays=[30],
                                               Weights=Def("(0..4) \\X (0..4) \\X {%d}" % w3), Scopes=[0], ResCaps=[32], SliceCaps=[NOCAP]), 1))
    # ---- samples of the documented scope -------------------------------------------------------------
    se, sc, j = (300, 10, 2) if q else (1200, 10, 16)
    out.append(("s_full", dict(F, SampleEps=se, SampleCfg=sc), j))
    out.append(("s_full34", dict(F, Ns=[3, 4], SampleEps=se // 3 if q else se // 2, SampleCfg=sc), max(1, j // 4)))
    # tier walk, rich in hits: one owner, permissive thresholds, all tiers/k/ages/clusters
    out.append(("s_walk", dict(F, Ns=[4, 5], Owners=[1], Vecs=Def("{0, 1, 2, 4}"), Mentions=NOMENT, Thrs=Def("{-20, 6, 10}"),
                               Weights=Def("{<<4, 0, 0>>, <<2, 1, 1>>, <<0, 4, 0>>}"), Scopes=[0, 1], ResCaps=[32], SliceCaps=[NOCAP],
                               SampleEps=se // 2, SampleCfg=sc), j))
    # ranking law: everything retrieved, all weights/ages/importances
    out.append(("s_rank", dict(F, Owners=[1], Clusters=[0, 1], Mentions=NOMENT, Ks=[2, 3, 64], Thrs=Def("{-20}"),
                               TierSeqs=Def("{<<3>>, <<1, 2, 3>>, <<2, 1>>}"), Scopes=[0], ResCaps=[32], SliceCaps=[NOCAP],
                               SampleEps=se, SampleCfg=sc), j))
    # owner scope with permissive thresholds
    out.append(("s_scope", dict(F, Ns=[4, 5], Ages=[0, 40], Imps=[1], Vecs=Def("{1, 2, 4, 3}"), Mentions=NOMENT, Thrs=Def("{-20, 6}"),
                                Weights=Def("{<<4, 0, 0>>, <<1, 2, 1>>}"), ResCaps=[32], SliceCaps=[NOCAP], SampleEps=se // 2, SampleCfg=sc), max(1, j // 2)))
    # residual nudges on the used prefix
    out.append(("s_resid", dict(F, Owners=[1, 3], Ages=[0, 400], Clusters=[0], Vecs=Def("{1, 2, 4}"), Ks=[1, 2, 3, 64], Thrs=Def("{-20, 6}"),
                                TierSeqs=Def("{<<3>>, <<1, 3>>}"), Weights=Def("{<<4, 0, 0>>, <<0, 0, 4>>, <<1, 1, 1>>}"), Scopes=[0, 2],
                                Nodes=[1, 2, 3], SampleEps=se // 2, SampleCfg=sc), max(1, j // 2)))
    return out


# ---- concretisation ------------------------------------------------------------------------------
def vec_of(code: int, i: int):
    """float32 vector with exactly representable norm 1 (or 0) and exact cosine S2(code)/2 to e1"""
    import numpy as np
    v = np.zeros(DIM, dtype=np.float32)
    base = 1 + 3 * (i - 1)
    if code in (2, -2):
        v[0] = code / 2
    elif code in (1, -1):
        v[0] = code / 2
        v[base:base + 3] = 0.5
    elif code == 0:
        v[base] = 1.0
    elif code == 4:
        v[0] = 0.5
        v[16:19] = 0.5
    return v                      # code 3: the zero vector


class _Enc:
    def encode(self, texts):
        import numpy as np
        out = []
        for _ in texts:
            v = np.zeros(DIM, dtype=np.float32)
            v[0] = 1.0
            out.append(v)
        return out


def s2_of(code: int) -> int:
    return 0 if code == 3 else (1 if code == 4 else code)


def text_of(ment: List[int], i: int) -> str:
    words = [WORDS[x][(i + x) % 2] for x in sorted(ment)]
    return " ".join(["memo", str(i)] + words)


def iso_days_ago(days: int) -> str:
    return (NOW - dt.timedelta(days=days)).isoformat().replace("+00:00", "Z")


def episodes_of(case) -> List[dict]:
    eps = []
    for i, e in enumerate(case["eps"], start=1):
        aux: Dict[str, Any] = {"importance": e["m"] / 2}
        if CLU[e["c"]] is not None:
            aux["cluster_id"] = CLU[e["c"]]
        eps.append({"id": f"e{i}", "owner": OWN[e["o"]], "text": text_of(e["t"], i), "ts": iso_days_ago(e["a"]),
                    "aux": aux, "vec_full": vec_of(e["v"], i), "tags": []})
    return eps


_BASES: Dict[str, Any] = {}
_STORES: Dict[Tuple[int, ...], Any] = {}


def _base(kind: str):
    from .. import engine as E
    if kind not in _BASES:
        over = {"t1": {"cache": {"enabled": False}}, "t2": {"cache": {"enabled": False}}}
        if kind == "quality":
            over = E.deep_merge(over, {"perf": {"enabled": True, "metrics": {"report_memory": True}},
                                       "t2": {"quality": {"enabled": True, "fusion": {"alpha_semantic": 0.5},
                                                          "mmr": {"enabled": True, "lambda": 0.5, "k": 2}}}})
        _BASES[kind] = E.validated_cfg(over)
    return _BASES[kind]


def _store(nodes: Tuple[int, ...]):
    from .. import engine as E
    if nodes not in _STORES:
        g = {"g:surface": {"nodes": [(NODE_ID[x], LABEL[x], []) for x in nodes] + [(a, b, []) for a, b in EXTRA_NODES], "edges": []}}
        _STORES[nodes] = E.mk_store(g)
    return _STORES[nodes]


def make_cfg_real(kind: str, t2over: dict, hybrid: Optional[dict] = None, quality: Optional[dict] = None):
    """a validated base configuration with the (range-checked) T2 settings of the case written in"""
    from .. import engine as E
    base = _base(kind)
    cfg = E.AttrDict(base)
    t2 = E.AttrDict(base["t2"])
    assert 1 <= t2over["k_retrieval"] and -1.0 <= t2over["sim_threshold"] <= 1.0
    for k, v in t2over.items():
        t2[k] = E.to_attr(v) if isinstance(v, dict) else v
    if hybrid is not None:
        t2["hybrid"] = E.AttrDict(base["t2"]["hybrid"], enabled=True, **hybrid)
    if quality is not None:
        qd = E.AttrDict(base["t2"]["quality"])
        qd["fusion"] = E.AttrDict(qd["fusion"], alpha_semantic=quality["alpha"])
        mm = E.AttrDict(qd["mmr"], enabled=quality["mmr"], k=quality["k"], k_final=quality["k"])
        mm["lambda"] = quality["lam"]
        mm["lambda_relevance"] = quality["lam"]
        qd["mmr"] = mm
        t2["quality"] = qd
    cfg["t2"] = t2
    return cfg


def t2over_of(cf) -> dict:
    a, b, g = cf["w"]
    return {"k_retrieval": cf["k"], "sim_threshold": cf["thr"] / 20, "tiers": [TIER[t] for t in cf["tiers"]],
            "clusters_top_m": cf["m"], "exact_recent_days": cf["rd"], "owner_scope": SCOPE[cf["scope"]],
            "residual_cap_per_turn": cf["rcap"], "ranking": {"alpha_sim": a / 4, "beta_recency": b / 4, "gamma_importance": g / 4}}


def call_real(cfg, eps: List[dict], order: List[int], nodes: Tuple[int, ...], scap, agent: str = "A", enc=True,
              edges: Optional[dict] = None, text: str = QUERY, store=None):
    from .. import engine as E
    from clematis.engine.stages.t2.core import t2_semantic
    from clematis.memory.index import InMemoryIndex
    idx = InMemoryIndex()
    for j in order:
        idx.add(dict(eps[j]))
    state = {"store": store if store is not None else _store(nodes), "active_graphs": ["g:surface"], "mem_index": idx,
             "version_etag": "0", "_boot_loaded": True}
    if edges is not None:
        state["graph"] = {"nodes": {}, "edges": edges, "meta": {}}
    extra: Dict[str, Any] = {}
    if enc:
        extra["enc"] = _Enc()
    if scap is not None:
        extra["slice_budgets"] = {"t2_k": scap}
    ctx = E.mk_ctx(cfg, agent, now=NOW_ISO, **extra)
    t1 = type("T1", (), {"graph_deltas": [], "metrics": {}})()
    return t2_semantic(ctx, state, text, t1)


def call_seq(steps, eps: List[dict], order: List[int], scap, agent: str, text: str, store):
    """several t2_semantic calls on ONE engine state (one memory index, process-global stage caches not reset in
    between): steps = [(cfg, now_iso)]"""
    from .. import engine as E
    from clematis.engine.stages.t2.core import t2_semantic
    from clematis.memory.index import InMemoryIndex
    idx = InMemoryIndex()
    for j in order:
        idx.add(dict(eps[j]))
    state = {"store": store, "active_graphs": ["g:surface"], "mem_index": idx, "version_etag": "0", "_boot_loaded": True}
    out = []
    E.reset_global_caches()
    try:
        for step in steps:
            if callable(step):
                step(state)        # an edit of the engine state between two calls
                continue
            cfg, now = step
            extra: Dict[str, Any] = {}
            if scap is not None:
                extra["slice_budgets"] = {"t2_k": scap}
            ctx = E.mk_ctx(cfg, agent, now=now, **extra)
            t1 = type("T1", (), {"graph_deltas": [], "metrics": {}})()
            out.append(t2_semantic(ctx, state, text, t1))
    finally:
        E.reset_global_caches()
    return out


def with_t2(cfg, **over):
    """copy of a real configuration with t2 / perf settings replaced"""
    from .. import engine as E
    c = E.AttrDict(cfg)
    for k, v in over.items():
        c[k] = E.to_attr(E.deep_merge(dict(cfg.get(k) or {}), v))
    return c


LATER_ISO = "2025-09-01T18:00:00Z"       # the same calendar day as NOW, 18 hours on: cut-offs and recency have moved


# ---- clause evaluation on a real result -------------------------------------------------------------
def residual_clauses(res, texts: Dict[str, str], node_labels: Dict[str, str], rcap: int, scap, fails, where: str, counts):
    """the residual / use-cap clauses evaluated directly on a real T2Result (any layer configuration)"""
    ids = [str(r.id) for r in res.retrieved]
    m = res.metrics
    k_used_doc = len(ids) if scap is None else min(max(int(scap), 0), len(ids))
    counts["SliceCapOnUse"] += 1
    if m.get("k_returned") != len(ids) or m.get("k_used") != k_used_doc:
        fails.append(("SliceCapOnUse", "k_used", f"{where}: k_returned={m.get('k_returned')} k_used={m.get('k_used')} for {len(ids)} hits, slice cap {scap}"))
    deltas = res.graph_deltas_residual
    nodes = [d.get("id") for d in deltas]
    counts["ResidualExistingNodes"] += 1
    if any(d.get("op") != "upsert_node" for d in deltas) or any(x not in node_labels for x in nodes) or len(set(nodes)) != len(nodes):
        fails.append(("ResidualExistingNodes", "unknown-node", f"{where}: residual deltas {deltas} (existing nodes {sorted(node_labels)})"))
    used_texts = [(texts.get(i) or "").lower() for i in ids[:k_used_doc]]
    counts["ResidualLabelsFromUsedHits"] += 1
    for x in nodes:
        lb = (node_labels.get(x) or "").lower()
        if x in node_labels and (not lb or not any(lb in t for t in used_texts)):
            all_texts = [(texts.get(i) or "").lower() for i in ids]
            kind = "unused-hit" if lb and any(lb in t for t in all_texts) else "label-not-in-hits"
            fails.append(("ResidualLabelsFromUsedHits", kind, f"{where}: node {x} (label {node_labels.get(x)!r}) nudged, but the label occurs in none of the {k_used_doc} used hits {ids[:k_used_doc]} (retrieved {ids}, slice cap {scap})"))
            break
    counts["ResidualCap"] += 1
    if len(nodes) > rcap:
        fails.append(("ResidualCap", "cap0" if rcap == 0 else "over-cap", f"{where}: {len(nodes)} residual nudges {nodes} with residual_cap_per_turn={rcap}"))
    return ids, k_used_doc, nodes


def comb_int(e, w) -> int:
    rec = 0 if e["a"] >= 365 else 365 - e["a"]
    return 365 * w[0] * (s2_of(e["v"]) + 2) + 4 * w[1] * rec + 730 * w[2] * e["m"]


def replay_case(case) -> Tuple[List[Tuple[str, str, str]], Dict[str, int], bool]:
    """-> (failures (clause, kind, message), per-clause evaluation counts, guarded)"""
    import collections
    counts: Dict[str, int] = collections.Counter()
    fails: List[Tuple[str, str, str]] = []
    E_, cf = case["eps"], case["cf"]
    n = len(E_)
    eps = episodes_of(case)
    h = zlib.crc32(json.dumps(case, sort_keys=True).encode())
    order = [list(range(n)), list(reversed(range(n))), list(range(n // 2, n)) + list(range(n // 2))][h % 3]
    nodes = tuple(sorted(case.get("nodes", [1, 2, 3])))
    scap = None if cf["scap"] == NOCAP else cf["scap"]
    t2o = t2over_of(cf)
    texts = {e["id"]: e["text"] for e in eps}
    node_labels = {NODE_ID[x]: LABEL[x] for x in nodes}
    node_labels.update(dict(EXTRA_NODES))
    where = "plain"
    try:
        res = call_real(make_cfg_real("plain", t2o), eps, order, nodes, scap)
    except Exception as ex:
        return [("TierRules", "raised", f"t2_semantic raised {type(ex).__name__}: {ex}")], counts, False
    ids, k_used, rnodes = residual_clauses(res, texts, node_labels, cf["rcap"], scap, fails, where, counts)
    guarded = bool(case["guard"])
    known = all(i in texts for i in ids)
    num = [int(i[1:]) for i in ids] if known else []
    # ---- clauses that do not depend on ties ---------------------------------------------------------
    counts["AtMostK"] += 1
    if len(ids) > cf["k"]:
        fails.append(("AtMostK", "more-than-k", f"{len(ids)} hits {ids} with k_retrieval={cf['k']}"))
    counts["Distinct"] += 1
    if len(set(ids)) != len(ids) or not known:
        fails.append(("Distinct", "duplicate" if known else "unknown-id", f"hits {ids}"))
    if known:
        counts["OwnerScope"] += 1
        bad = [f"e{i}" for i in num if not (cf["scope"] == 0 or (cf["scope"] == 1 and E_[i - 1]["o"] == 1) or (cf["scope"] == 2 and E_[i - 1]["o"] == 3))]
        if bad:
            fails.append(("OwnerScope", SCOPE[cf["scope"]], f"owner_scope={SCOPE[cf['scope']]} (agent A) returned {bad} owned by {[OWN[E_[int(b[1:]) - 1]['o']] for b in bad]}"))
        counts["Threshold"] += 1
        bad = [f"e{i}" for i in num if 10 * s2_of(E_[i - 1]["v"]) < cf["thr"]]
        if bad:
            fails.append(("Threshold", "below", f"sim_threshold={cf['thr'] / 20}: returned {bad} with cosines {[s2_of(E_[int(b[1:]) - 1]['v']) / 2 for b in bad]}"))
        sc = [(float(r.score), s2_of(E_[i - 1]["v"]) / 2) for r, i in zip(res.retrieved, num)]
        if any(a != b for a, b in sc):
            fails.append(("Threshold", "score-not-cosine", f"reported scores {sc} differ from the exact cosines"))
    if guarded or not known:
        return fails, counts, guarded
    # ---- tie-sensitive clauses + conformance with the spec's prediction -----------------------------
    tiers = set(cf["tiers"])
    chosen = set(case["chosen"])
    counts["TierRules"] += 1
    for i in num:
        e = E_[i - 1]
        ck = (10 + i) if e["c"] == 0 else e["c"]
        if not ((1 in tiers and e["a"] <= cf["rd"]) or (2 in tiers and ck in chosen) or 3 in tiers):
            fails.append(("TierRules", "unjustified-hit", f"e{i} (age {e['a']}d, cluster {CLU[e['c']]}) is admitted by none of the tiers {[TIER[t] for t in cf['tiers']]} (recent_days={cf['rd']}, top-{cf['m']} clusters {sorted(chosen)})"))
            break
    counts["RankingLaw"] += 1
    cb = [comb_int(E_[i - 1], cf["w"]) for i in num]
    for p in range(len(num) - 1):
        if not (cb[p] > cb[p + 1] or (cb[p] == cb[p + 1] and num[p] < num[p + 1])):
            kind = "tie-not-by-id" if cb[p] == cb[p + 1] else "not-descending"
            fails.append(("RankingLaw", kind, f"order {ids}: combined*5840 = {cb} (weights/4 = {cf['w']})"))
            break
    want = [f"e{i}" for i in case["ids"]]
    if ids != want and not any(f[0] in ("AtMostK", "Distinct", "OwnerScope", "Threshold", "TierRules", "RankingLaw") for f in fails):
        if sorted(ids) == sorted(want):
            fails.append(("RankingLaw", "order-differs-from-spec", f"order {ids}, documented order {want}"))
        elif set(ids) < set(want) and set(cf["tiers"]) == {1} and all(E_[i - 1]["a"] == cf["rd"] for i in case["ids"] if f"e{i}" not in ids):
            miss = [f"e{i}" for i in case["ids"] if f"e{i}" not in ids]
            fails.append(("TierRules", "recency-boundary-excluded", f"retrieved {ids}, documented {want}: {miss} are exactly exact_recent_days={cf['rd']} days old (the window is inclusive)"))
        elif set(ids) < set(want) and all(10 * s2_of(E_[i - 1]["v"]) == cf["thr"] for i in case["ids"] if f"e{i}" not in ids):
            miss = [f"e{i}" for i in case["ids"] if f"e{i}" not in ids and 10 * s2_of(E_[i - 1]["v"]) == cf["thr"]]
            fails.append(("Threshold", "at-threshold-excluded", f"retrieved {ids}, documented {want}: {miss} have cosine exactly sim_threshold={cf['thr'] / 20} (cos >= threshold admits them)"))
        else:
            fails.append(("TierRules", "walk-differs-from-spec", f"retrieved {ids}, documented tier walk gives {want} (tiers {[TIER[t] for t in cf['tiers']]}, k={cf['k']})"))
    counts["conforms.ids"] += 1
    if ids == want and k_used != case["k_used"]:
        fails.append(("SliceCapOnUse", "k_used-differs-from-spec", f"k_used {k_used}, spec {case['k_used']}"))
    want_nodes = [NODE_ID[x] for x in case["residual"]]
    if ids == want and rnodes != want_nodes and not any(f[0].startswith("Residual") for f in fails):
        clause = "ResidualCap" if len(want_nodes) == cf["rcap"] else "ResidualLabelsFromUsedHits"
        fails.append((clause, "residual-differs-from-spec", f"residual nudges {rnodes}, spec {want_nodes} (used hits {ids[:k_used]}, cap {cf['rcap']})"))
    counts["conforms.residual"] += 1
    return fails, counts, guarded


def layer_params(r) -> Tuple[dict, dict, dict]:
    hyb = {"anchor_top_m": r.choice([1, 2, 8]), "walk_hops": r.choice([1, 2]), "degree_norm": r.choice(["none", "invdeg"]),
           "lambda_graph": r.choice([0.25, 1.0]), "edge_threshold": r.choice([0.0, 0.1]), "k_max": r.choice([1, 2, 3, 128]),
           "max_bonus": r.choice([0.5, 0.05])}
    qual = {"alpha": r.choice([0.0, 0.5, 1.0]), "mmr": r.random() < 0.7, "lam": r.choice([0.0, 0.5, 1.0]), "k": r.choice([None, 1, 2, 64])}
    return hyb, qual, {}


def gel_edges(r, ids: List[str]) -> dict:
    edges = {}
    for a in range(len(ids)):
        for b in range(a + 1, len(ids)):
            if r.random() < 0.6:
                x, y = sorted([ids[a], ids[b]])
                edges[f"{x}→{y}"] = {"src": x, "dst": y, "weight": r.choice([1.0, 0.5, -0.5, 0.05, 0.3, -1.0]), "rel": "coact"}
    return edges


def rerank_case(case) -> Tuple[List[Tuple[str, str, str]], Dict[str, int]]:
    """the same world with the hybrid / quality layers open: permutation + residual clauses only"""
    import collections
    counts: Dict[str, int] = collections.Counter()
    fails: List[Tuple[str, str, str]] = []
    cf = case["cf"]
    eps = episodes_of(case)
    n = len(eps)
    nodes = tuple(sorted(case.get("nodes", [1, 2, 3])))
    scap = None if cf["scap"] == NOCAP else cf["scap"]
    t2o = t2over_of(cf)
    texts = {e["id"]: e["text"] for e in eps}
    node_labels = {NODE_ID[x]: LABEL[x] for x in nodes}
    node_labels.update(dict(EXTRA_NODES))
    order = list(range(n))
    h = zlib.crc32(json.dumps(case, sort_keys=True).encode())
    r = rng(h, "layers")
    hyb, qual, _ = layer_params(r)
    edges = gel_edges(r, [e["id"] for e in eps])
    try:
        base = call_real(make_cfg_real("plain", t2o), eps, order, nodes, scap)
    except Exception as ex:
        return [("TierRules", "raised", f"t2_semantic raised {type(ex).__name__}: {ex}")], counts
    base_ids = sorted(str(x.id) for x in base.retrieved)
    layers = [("hybrid", "plain", hyb, None, edges), ("quality", "quality", None, qual, None), ("hybrid+quality", "quality", hyb, qual, edges)]
    for name, kind, hp, qp, ed in layers:
        try:
            res = call_real(make_cfg_real(kind, t2o, hybrid=hp, quality=qp), eps, order, nodes, scap, edges=ed)
        except Exception as ex:
            fails.append(("RerankIsPermutation", "raised:" + name, f"layer {name}: t2_semantic raised {type(ex).__name__}: {ex}"))
            continue
        ids, _, _ = residual_clauses(res, texts, node_labels, cf["rcap"], scap, fails, f"layer {name} {hp or ''} {qp or ''}", counts)
        counts["RerankIsPermutation"] += 1
        if sorted(ids) != base_ids:
            fails.append(("RerankIsPermutation", name, f"layer {name} (hybrid={hp}, quality={qp}, edges={sorted((ed or {}).items())}): ids {ids} are not a permutation of the unreranked {base_ids}"))
        if name == "hybrid" and res.metrics.get("hybrid_used"):
            counts["hybrid_reordered"] += 1
        if kind == "quality" and ids != [str(x.id) for x in base.retrieved]:
            counts["quality_reordered"] += 1
    return fails, counts


# ---- C->S: random large memories, real hash embeddings ----------------------------------------------
VOCAB = ["apple", "banana", "cherry", "pie", "date", "elder", "fig", "grape", "ghost", "update", "pineapple", "memo"]
_VEC: Dict[str, Any] = {}


def _hvec(text: str):
    from .. import engine as E
    if text not in _VEC:
        _VEC[text] = E.hash_vec(text, 32)
    return _VEC[text]


def random_world(seed: int, i: int):
    r = rng(seed, "c11rand", i)
    n = r.randrange(50, 301)
    eps = []
    for j in range(n):
        text = " ".join(r.choice(VOCAB) for _ in range(r.randrange(1, 4)))
        days = r.choice([0, 1, 9, 10, 11, 29, 30, 31, 40, 200, 364, 365, 400, r.randrange(0, 500)])
        secs = r.choice([0, 0, 1, 43200, 86399])
        inst = NOW - dt.timedelta(days=days, seconds=secs)
        ts = inst.isoformat().replace("+00:00", "Z")
        if r.random() < 0.3:
            # the same instant written with a non-zero UTC offset (ISO 8601 allows it; the oracle parses offsets)
            off = r.choice([dt.timedelta(hours=9), dt.timedelta(hours=-5, minutes=-30), dt.timedelta(hours=14), dt.timedelta(hours=-11)])
            ts = inst.astimezone(dt.timezone(off)).isoformat()
        aux: Dict[str, Any] = {"importance": r.choice([0.0, 0.5, 1.0, r.random()])}
        c = r.choice(["c1", "c2", "c3", "c4", None])
        if c:
            aux["cluster_id"] = c
        eps.append({"id": f"m{j:03d}", "owner": r.choice(["A", "A", "B", "world", "C"]), "text": text, "ts": ts, "aux": aux,
                    "vec_full": _hvec(text), "tags": []})
    for d in range(r.choice([0, 4, 12])):       # bit-identical twins under other ids: exact ties, resolved by id
        src = r.choice(eps)
        eps.append(dict(src, id=f"d{d:02d}" if r.random() < 0.5 else f"z{d:02d}", aux=dict(src["aux"])))
    n = len(eps)
    tiers_all = ["exact_semantic", "cluster_semantic", "archive"]
    tiers = r.choice([tiers_all, ["exact_semantic"], ["cluster_semantic"], ["archive"], ["archive", "exact_semantic"], ["exact_semantic", "cluster_semantic"], [],
                      ["cluster_semantic", "exact_semantic", "archive"]])
    cf = {"k_retrieval": r.choice([1, 2, 3, 8, 64, 500]), "sim_threshold": r.choice([-1.0, -0.1, 0.0, 0.1, 0.3, 0.6]), "tiers": tiers,
          "clusters_top_m": r.choice([1, 2, 3]), "exact_recent_days": r.choice([10, 30]), "owner_scope": r.choice(["any", "agent", "world"]),
          "residual_cap_per_turn": r.choice([1, 2, 32] if r.random() < 0.8 else [0]),
          "ranking": {"alpha_sim": r.choice([0.75, 0.0, 1.0, r.random()]), "beta_recency": r.choice([0.2, 0.0, 1.0, r.random()]),
                      "gamma_importance": r.choice([0.05, 0.0, 1.0, r.random()])}}
    scap = r.choice([None, None, 0, 1, 3, 1000])
    agent = r.choice(["A", "B", "Z"])
    text = " ".join(r.choice(VOCAB) for _ in range(r.randrange(1, 4)))
    order = list(range(n))
    r.shuffle(order)
    return eps, cf, scap, agent, text, order, r


def _cos32(a, b) -> float:
    import numpy as np
    a = np.asarray(a, dtype=np.float32)
    b = np.asarray(b, dtype=np.float32)
    na = float(np.linalg.norm(a)) or 1.0
    nb = float(np.linalg.norm(b)) or 1.0
    return float(np.dot(a, b) / (na * nb))


def random_case(args) -> Tuple[List[Tuple[str, str, str]], Dict[str, int]]:
    import collections
    from .. import engine as E
    seed, i = args
    counts: Dict[str, int] = collections.Counter()
    fails: List[Tuple[str, str, str]] = []
    eps, cf, scap, agent, text, order, r = random_world(seed, i)
    by_id = {e["id"]: e for e in eps}
    texts = {e["id"]: e["text"] for e in eps}
    graphs = {"g:surface": {"nodes": [("n:a", "Apple", []), ("n:b", "cherry pie", []), ("n:c", "Date", []), ("n:e", "elder", []), ("n:y", "unmentioned", []), ("n:z", "", [])], "edges": []}}
    node_labels = {a: b for a, b, _ in graphs["g:surface"]["nodes"]}
    store = E.mk_store(graphs)
    where = f"random case {i}"
    try:
        res = call_real(make_cfg_real("plain", cf), eps, order, (), scap, agent=agent, enc=False, text=text, store=store)
    except Exception as ex:
        return [("TierRules", "raised", f"{where}: t2_semantic raised {type(ex).__name__}: {ex}")], counts
    ids, k_used, _ = residual_clauses(res, texts, node_labels, cf["residual_cap_per_turn"], scap, fails, where, counts)
    counts["AtMostK"] += 1
    if len(ids) > cf["k_retrieval"]:
        fails.append(("AtMostK", "more-than-k", f"{where}: {len(ids)} hits with k_retrieval={cf['k_retrieval']}"))
    counts["Distinct"] += 1
    if len(set(ids)) != len(ids) or any(x not in by_id for x in ids):
        fails.append(("Distinct", "duplicate", f"{where}: hits {ids}"))
        return fails, counts
    counts["OwnerScope"] += 1
    want_owner = {"any": None, "agent": agent, "world": "world"}[cf["owner_scope"]]
    bad = [x for x in ids if want_owner is not None and by_id[x]["owner"] != want_owner]
    if bad:
        fails.append(("OwnerScope", cf["owner_scope"], f"{where}: owner_scope={cf['owner_scope']} agent={agent} returned {bad[:4]} owned by {[by_id[x]['owner'] for x in bad[:4]]}"))
    qv = _hvec(" ".join(text.split()))
    counts["Threshold"] += 1
    for ref in res.retrieved:
        c = _cos32(qv, by_id[str(ref.id)]["vec_full"])
        if abs(float(ref.score) - c) > 1e-6:
            fails.append(("Threshold", "score-not-cosine", f"{where}: {ref.id} score {ref.score!r}, cosine {c!r}"))
            break
        if float(ref.score) < cf["sim_threshold"]:
            fails.append(("Threshold", "below", f"{where}: {ref.id} score {ref.score!r} < sim_threshold {cf['sim_threshold']}"))
            break
    # tier rules decidable without a float-sensitive cut
    counts["TierRules"] += 1
    tiers = cf["tiers"]
    if not tiers and ids:
        fails.append(("TierRules", "unjustified-hit", f"{where}: hits {ids[:4]} with no tier configured"))
    if tiers == ["exact_semantic"]:
        cutoff = NOW - dt.timedelta(days=cf["exact_recent_days"])
        old = [x for x in ids if dt.datetime.fromisoformat(by_id[x]["ts"].replace("Z", "+00:00")) < cutoff]
        if old:
            fails.append(("TierRules", "unjustified-hit", f"{where}: exact tier only, recent_days={cf['exact_recent_days']}: returned {old[:3]} with ts {[by_id[x]['ts'] for x in old[:3]]}"))
    # documented combined score recomputed from the episode fields
    counts["RankingLaw"] += 1
    rk = cf["ranking"]
    comb = []
    for ref in res.retrieved:
        e = by_id[str(ref.id)]
        age = max(0.0, (NOW - dt.datetime.fromisoformat(e["ts"].replace("Z", "+00:00"))).total_seconds() / 86400.0)
        rec = max(0.0, min(1.0, 1.0 - age / 365.0))
        comb.append((rk["alpha_sim"] * (float(ref.score) + 1.0) / 2.0 + rk["beta_recency"] * rec + rk["gamma_importance"] * e["aux"]["importance"],
                     (float(ref.score), e["ts"], e["aux"]["importance"])))
    for p in range(len(ids) - 1):
        if comb[p][0] < comb[p + 1][0] - 1e-9:
            fails.append(("RankingLaw", "not-descending", f"{where}: {ids[p]} (combined {comb[p][0]!r}) listed before {ids[p + 1]} (combined {comb[p + 1][0]!r})"))
            break
        if comb[p][1] == comb[p + 1][1] and not ids[p] < ids[p + 1]:
            fails.append(("RankingLaw", "tie-not-by-id", f"{where}: identical inputs {comb[p][1]} listed {ids[p]} before {ids[p + 1]}"))
            break
        if comb[p][1] == comb[p + 1][1]:
            counts["RankingLaw.identical_input_ties"] += 1
    # the same retrieval with a warm stage cache (asked earlier the same day) and through the sharded parallel path
    # is the same retrieval: scope, tier rules and ranking hold on every path that serves t2_semantic
    def proj(rs):
        return [(str(x.id), round(float(x.score), 12)) for x in rs.retrieved]
    base_cfg = make_cfg_real("plain", cf)
    try:
        cached = with_t2(base_cfg, t2={"cache": {"enabled": True, "max_entries": 64, "ttl_s": 3600}})
        warm = call_seq([(cached, NOW_ISO), (cached, LATER_ISO)], eps, order, scap, agent, text, store)[1]
        cold = call_seq([(base_cfg, LATER_ISO)], eps, order, scap, agent, text, store)[0]
        counts["WarmCacheSameRetrieval"] += 1
        if proj(warm) != proj(cold):
            k = next((j for j, (x, y) in enumerate(zip(proj(warm), proj(cold))) if x != y), min(len(proj(warm)), len(proj(cold))))
            fails.append(("TierRules", "warm-cache", f"{where}: asked at {LATER_ISO} after the same question at {NOW_ISO} (stage cache on) returns "
                                                     f"{proj(warm)[k:k + 3]} where a fresh retrieval returns {proj(cold)[k:k + 3]} (position {k}; recent_days={cf['exact_recent_days']})"))
        # a graph edit between two identical questions that keeps the SET of labels but moves a label to another node
        # (n:a "Apple" <-> n:y "unmentioned"): the residual nudges of the second answer name the node that carries the
        # label now
        from clematis.engine.types import Node as _Node
        st_sw = E.mk_store(graphs)
        st_sw2 = E.mk_store(graphs)
        if i % 2:
            # twin variant: two isolated nodes whose ids sort first pin both labels at the head of the label map, so the
            # swap changes which node carries a label without changing the labels or their order
            for st_ in (st_sw, st_sw2):
                st_.upsert_nodes("g:surface", [_Node(id="n:0", label="Apple"), _Node(id="n:00", label="unmentioned")])

        def swap(state):
            state["store"].upsert_nodes("g:surface", [_Node(id="n:a", label="unmentioned"), _Node(id="n:y", label="Apple")])
        seq_sw = call_seq([(cached, NOW_ISO), swap, (cached, NOW_ISO)], eps, order, scap, agent, text, st_sw)
        swap({"store": st_sw2})
        fresh_sw = call_seq([(base_cfg, NOW_ISO)], eps, order, scap, agent, text, st_sw2)[0]
        counts["WarmCacheAfterLabelMove"] += 1
        if sorted(d_.get("id") for d_ in (seq_sw[-1].graph_deltas_residual or [])) != sorted(d_.get("id") for d_ in (fresh_sw.graph_deltas_residual or [])):
            fails.append(("ResidualLabelsFromUsedHits", "warm-cache-label-move",
                          f"{where}: after the labels of n:a and n:y were swapped the same question (stage cache on) nudges "
                          f"{sorted(d_.get('id') for d_ in (seq_sw[-1].graph_deltas_residual or []))}, a fresh retrieval nudges "
                          f"{sorted(d_.get('id') for d_ in (fresh_sw.graph_deltas_residual or []))}"))
        par_cfg = with_t2(base_cfg, perf={"enabled": True, "parallel": {"enabled": True, "t2": True, "max_workers": 3}})
        par = call_seq([(par_cfg, NOW_ISO)], eps, order, scap, agent, text, store)[0]
        counts["ParallelPathSameRetrieval"] += 1
        if proj(par) != proj(res):
            k = next((j for j, (x, y) in enumerate(zip(proj(par), proj(res))) if x != y), min(len(proj(par)), len(proj(res))))
            fails.append(("TierRules" if cf["owner_scope"] == "any" else "OwnerScope", "parallel-path",
                          f"{where}: sharded parallel path (3 workers, scope {cf['owner_scope']}, tiers {cf['tiers']}, top-m {cf['clusters_top_m']}) returns "
                          f"{proj(par)[k:k + 3]} where the sequential path returns {proj(res)[k:k + 3]} (position {k})"))
    except Exception as ex:  # noqa: BLE001
        fails.append(("TierRules", "raised:paths", f"{where}: warm / parallel retrieval raised {type(ex).__name__}: {ex}"))
    # rerank layers on the same memory
    hyb, qual, _ = layer_params(r)
    edges = gel_edges(r, ids[:6] + [e["id"] for e in eps[:3]])
    for name, kind, hp, qp, ed in [("hybrid", "plain", hyb, None, edges), ("quality", "quality", None, qual, None)]:
        try:
            res2 = call_real(make_cfg_real(kind, cf, hybrid=hp, quality=qp), eps, order, (), scap, agent=agent, enc=False, text=text, store=store, edges=ed)
        except Exception as ex:
            fails.append(("RerankIsPermutation", "raised:" + name, f"{where} layer {name}: t2_semantic raised {type(ex).__name__}: {ex}"))
            continue
        ids2, _, _ = residual_clauses(res2, texts, node_labels, cf["residual_cap_per_turn"], scap, fails, f"{where} layer {name}", counts)
        counts["RerankIsPermutation"] += 1
        if sorted(ids2) != sorted(ids):
            fails.append(("RerankIsPermutation", name, f"{where} layer {name} ({hp or qp}): {len(ids2)} ids vs {len(ids)} unreranked; missing {sorted(set(ids) - set(ids2))[:4]} extra {sorted(set(ids2) - set(ids))[:4]}"))
        if ids2 != ids:
            counts[f"{name}_reordered"] += 1
    return fails, counts


def orchestrator_cap_case(k) -> Tuple[List[Tuple[str, str, str]], Dict[str, int]]:
    """the per-slice cap as the orchestrator derives it from scheduler.budgets.t2_k (0 is a cap, not "no cap"):
    one real run_turn, the T2 result observed through the stage seam"""
    import collections
    from .. import engine as E
    from ..turnrun import Session
    import clematis.engine.orchestrator as orch_
    from clematis.engine.stages.t2 import t2_semantic as real_t2
    os.environ["CI"] = "true"
    counts: Dict[str, int] = collections.Counter()
    fails: List[Tuple[str, str, str]] = []
    work = tempfile.mkdtemp(prefix="c11cap_", dir=_WORK[0] or "/verif/.work")
    try:
        over = {"scheduler": {"enabled": True, "quantum_ms": 100000, "budgets": {"wall_ms": 200000, "t2_k": k}}}
        s = Session(os.path.join(work, "s"), base_cfg=over)
        seen: Dict[str, Any] = {}

        def spy(c_, st_, tx_, t1_):
            r_ = real_t2(c_, st_, tx_, t1_)
            seen["res"] = r_
            return r_
        o = s.run({"sched": True, "cfg_extra": over}, extra_patches=lambda i_: [E.patched_attr(orch_, t2_semantic=spy)])
        counts["OrchestratorSliceCap"] += 1
        r = seen.get("res")
        if o["raised"] or r is None:
            return [("UsedWithinSliceCap", "raised", f"run_turn with scheduler.budgets.t2_k={k}: {o['raised'] or 'T2 not reached'}")], counts
        k_used = int((r.metrics or {}).get("k_used", -1))
        if k_used > k:
            fails.append(("UsedWithinSliceCap", "orchestrator-cap", f"scheduler.budgets.t2_k={k}: T2 used {k_used} of {len(r.retrieved)} hits"))
        if k == 0 and (r.graph_deltas_residual or []):
            fails.append(("ResidualLabelsFromUsedHits", "orchestrator-cap", f"scheduler.budgets.t2_k=0: residual nudges {r.graph_deltas_residual} with no hit allowed to be used"))
    finally:
        shutil.rmtree(work, ignore_errors=True)
    return fails, counts


_WORK = [None]


# ---- driver -------------------------------------------------------------------------------------------
def _selfcheck_geometry() -> None:
    from clematis.memory.index import _cosine
    q = _Enc().encode(["x"])[0]
    for code in (-2, -1, 0, 1, 2, 3, 4):
        for i in range(1, 6):
            c = _cosine(q, vec_of(code, i))
            if c != s2_of(code) / 2:
                raise _tlc.TLCError(f"C11: geometry is not exact: code {code} episode {i} has cosine {c!r}")


def _run_jobs(run, jobs):
    """several single-threaded TLC processes side by side (Init enumeration is sequential in TLC)"""
    invs = CLAUSES

    def one(job):
        name, consts, seed = job
        cfg = make_cfg(consts, invs, [], emit=False, view=None, constraint="EmitCase")
        return _tlc.run_tlc("Retrieval", cfg, run.workdir, name=name, workers=1, timeout_s=1500, defs=split_defs(consts),
                            seed=seed, heap="1500m", jvm_opts=["-XX:ParallelGCThreads=2", "-XX:CICompilerCount=2"])
    with ThreadPoolExecutor(max_workers=16) as ex:
        results = list(ex.map(one, jobs))
    for (name, consts, seed), res in zip(jobs, results):
        run.states += res.distinct
        run.transitions += res.generated
        run.tlc_runs.append({"module": "Retrieval", "name": name, "cmd": res.cmd, "generated": res.generated, "distinct": res.distinct,
                             "diameter": res.diameter, "wall_s": round(res.wall_s, 2), "emitted": len(res.emitted),
                             "timed_out": res.timed_out, "violation": (res.violation or {}).get("name")})
        run.model_must_hold(res)
        if res.timed_out or len(res.emitted) != res.distinct:
            raise _tlc.TLCError(f"C11: TLC run {name} emitted {len(res.emitted)} of {res.distinct} cases (timed out: {res.timed_out})")
    return results


def _sig(clause: str, kind: str) -> dict:
    return {"clause": clause, "kind": kind}


def reader_path_case(args) -> Tuple[List[Tuple[str, str, str]], Dict[str, int]]:
    """the embed-store reader (perf.t2.reader.partitions + a store on disk) is another way to score the rows of the same
    memory: owner scope, similarity threshold, k and distinctness bind it as they bind the index search"""
    import collections
    import tempfile as _tf
    import shutil as _sh
    from pathlib import Path
    import numpy as np
    from configs.validate import validate_config
    from clematis.engine.stages.t2.core import t2_semantic
    from clematis.engine.util.embed_store import write_shard
    from clematis.memory.index import InMemoryIndex
    seed, i = args
    r = rng(seed, "c11reader", i)
    counts: Dict[str, int] = collections.Counter()
    fails: List[Tuple[str, str, str]] = []
    # exact geometry: query e1, rows (c, s, 0, 0) with c on a coarse grid
    grid = [(1.0, 0.0), (0.96, 0.28), (0.6, 0.8), (0.28, 0.96), (0.0, 1.0), (-0.6, 0.8)]
    owners = ["A", "B", "world"]
    rows = {}
    for j in range(r.randrange(2, 9)):
        c, s_ = r.choice(grid)
        rows[f"m{j:02d}"] = (r.choice(owners), [c, s_, 0.0, 0.0], c)
    scope = r.choice(["agent", "world", "any"])
    thr = r.choice([-1.0, 0.0, 0.5, 0.9])
    k = r.choice([1, 2, 3, 64])
    agent = r.choice(["A", "B"])
    tmp = _tf.mkdtemp(prefix="c11rd_", dir=_WORK[0] or None)
    try:
        root = Path(tmp) / "t2"
        # where a row is FILED in the store (the directory of a derived vector store is not the authority on who owns an
        # episode: in every third case one row sits in another owner's directory, e.g. re-attributed after the store was written)
        filed = {x: o for x, (o, _, _) in rows.items()}
        if i % 3 == 0 and rows:
            x0 = sorted(rows)[r.randrange(len(rows))]
            filed[x0] = r.choice([o for o in owners if o != rows[x0][0]])
        for ow in owners:
            ids = [x for x in rows if filed[x] == ow]
            if ids:
                write_shard(root / ow / "2025Q3", ids, np.asarray([rows[x][1] for x in ids], dtype=np.float32), dtype="fp32", precompute_norms=True)
        raw = {"k_surface": 4, "t2": {"backend": "inmemory", "k_retrieval": k, "sim_threshold": thr, "owner_scope": scope, "embed_root": str(root),
                                      "cache": {"enabled": False}},
               "perf": {"enabled": True, "t2": {"reader": {"partitions": {"enabled": True, "layout": "owner_quarter", "path": str(root)}}}}}
        try:
            cfg = validate_config(raw)
        except Exception as e:      # noqa: BLE001 - outside the quantifier
            return [], counts
        idx = InMemoryIndex()
        for x, (o, v, _c) in rows.items():
            idx.add({"id": x, "owner": o, "text": f"text {x}", "ts": "2025-08-20T00:00:00Z", "vec_full": v, "aux": {}})

        class Enc:
            def encode(self, texts):
                return [np.array([1.0, 0.0, 0.0, 0.0], dtype=np.float32) for _ in texts]
        ctx = SimpleNamespace(cfg=cfg, now=NOW_ISO, enc=Enc(), agent_id=agent)
        try:
            res = t2_semantic(ctx, {"mem_index": idx, "mem_backend": "inmemory"}, "q", SimpleNamespace(graph_deltas=[]))
        except Exception as e:      # noqa: BLE001
            return [("TierRules", "reader-raised", f"reader path: t2_semantic raised {type(e).__name__}: {e}")], counts
        if res.metrics.get("tier_sequence") != ["embed_store"]:
            counts["reader.path_not_taken"] += 1
            return fails, counts
        counts["reader.path_taken"] += 1
        got = [(str(x.id), float(x.score)) for x in res.retrieved]
        where = f"embed-store reader: scope={scope} agent={agent} thr={thr} k={k} rows={ {x: (o, c) for x, (o, _v, c) in rows.items()} }"
        want_owner = {"agent": agent, "world": "world", "any": None}[scope]
        foreign = [x for x, _ in got if want_owner is not None and rows[x][0] != want_owner]
        if foreign:
            fails.append(("OwnerScope", "reader-path", f"{where}: returned {foreign} of other owners ({got})"))
        below = [(x, sc) for x, sc in got if sc < thr - 1e-6]
        if below:
            fails.append(("Threshold", "reader-path", f"{where}: returned {below} below the threshold"))
        if len(got) > k:
            fails.append(("AtMostK", "reader-path", f"{where}: {len(got)} items"))
        if len({x for x, _ in got}) != len(got):
            fails.append(("Distinct", "reader-path", f"{where}: duplicates in {got}"))
        if not fails:
            counts["reader.conforms"] += 1
        return fails, counts
    finally:
        _sh.rmtree(tmp, ignore_errors=True)


def check(run) -> None:
    q = run.quick
    _selfcheck_geometry()
    run.rule = ("every case enumerated by TLC from Retrieval.tla (exhaustive small facets + RandomSubset samples of the documented scope) run on the real "
                "t2_semantic and compared with the spec and with every clause; the same worlds with rerank layers; random large memories; distinct = distinct case")
    fs = facets(q)
    run.constants = {name: {k: (str(v) if isinstance(v, Def) else v) for k, v in consts.items()} for name, consts, _ in fs}
    jobs = []
    for name, consts, nj in fs:
        consts = dict(consts)
        nodes = consts["Nodes"]
        for j in range(nj):
            jobs.append((f"{name}_{j}" if nj > 1 else name, consts, run.seed * 1000 + len(jobs) + 1))
    wave = 16
    emitted_total = 0
    why: Dict[str, int] = {"cluster_centroid_tie_at_top_m_cut": 0, "combined_score_tie_nonexact_recency": 0}
    for w0 in range(0, len(jobs), wave):
        results = _run_jobs(run, jobs[w0:w0 + wave])
        cases = []
        for (name, consts, _), res in zip(jobs[w0:w0 + wave], results):
            for c in res.emitted:
                c["nodes"] = consts["Nodes"]
                cases.append(c)
            if name in ("ex_resid", "s_rank_0", "s_walk_0"):
                pick = [c for c in res.emitted if len(c["ids"]) >= 2 and not c["guard"]]
                if pick:
                    run.sample({"facet": name, "case": pick[len(pick) // 2]}, cap=4)
        emitted_total += len(cases)
        outs = pmap(replay_case, cases)
        for c, (fails, counts, guarded) in zip(cases, outs):
            run.traces += 1
            run.case(hash(json.dumps(c, sort_keys=True)))
            for k, v in counts.items():
                run.ok(k, v)
            if guarded:
                run.guarded_out += 1
                why["cluster_centroid_tie_at_top_m_cut"] += int(bool(c.get("gcluster")))
                why["combined_score_tie_nonexact_recency"] += int(bool(c.get("grank")))
            elif not fails:
                run.ok("Retrieval.conforms")
            for clause, kind, msg in fails:
                run.fail(clause, _sig(clause, kind), c, msg, replay={"case": c})
        # rerank layers on the worlds that return at least two hits (plus a few others)
        rr = [c for n_, c in enumerate(cases) if (len(c["ids"]) >= 2 and (not q or n_ % 2 == 0)) or n_ % 23 == 0]
        for c, (fails, counts) in zip(rr, pmap(rerank_case, rr)):
            run.traces += 1
            for k, v in counts.items():
                run.ok(k, v)
            if not fails:
                run.ok("Rerank.conforms")
            for clause, kind, msg in fails:
                run.fail(clause, _sig(clause, kind), c, msg, replay={"rerank": c})
        del cases, outs, results
    run.exhaustive = True
    run.extra["guarded_out_reasons"] = why
    run.extra["cases_enumerated"] = emitted_total
    # ---- C->S random memories ------------------------------------------------------------------------
    nrand = 250 if q else 6000
    args = [(run.seed, i) for i in range(nrand)]
    for a, (fails, counts) in zip(args, pmap(random_case, args, chunk=8)):
        run.traces += 1
        run.case(("rand", a[1]))
        for k, v in counts.items():
            run.ok(k, v)
        if not fails:
            run.ok("Random.conforms")
        for clause, kind, msg in fails:
            run.fail(clause, _sig(clause, kind), {"seed": a[0], "i": a[1]}, msg, replay={"random": list(a)})
    _WORK[0] = run.workdir
    for kk, (fails, counts) in zip((0, 1, 2, 64), pmap(orchestrator_cap_case, [0, 1, 2, 64], chunk=1)):
        run.traces += 1
        run.case(("orch_cap", kk))
        for k, v in counts.items():
            run.ok(k, v)
        for clause, kind, msg in fails:
            run.fail(clause, _sig(clause, kind), {"t2_k": kk}, msg, replay={"orch_cap": kk})
    _WORK[0] = run.workdir
    nread = 120 if q else 3000
    rargs = [(run.seed, i) for i in range(nread)]
    for a, (fails, counts) in zip(rargs, pmap(reader_path_case, rargs, chunk=8)):
        run.traces += 1
        run.case(("reader", a[1]))
        for k, v in counts.items():
            run.ok(k, v)
        for clause, kind, msg in fails:
            run.fail(clause, _sig(clause, kind), {"seed": a[0], "i": a[1]}, msg, replay={"reader": list(a)})
    for must in ("hybrid_reordered", "quality_reordered", "RerankIsPermutation", "RankingLaw.identical_input_ties", "reader.path_taken"):
        if run.clauses.get(must, 0) == 0:
            raise _tlc.TLCError(f"C11: vacuous run: counter {must} is 0")
    run.assumptions += [
        "exhaustive = the ex_* facets are enumerated completely; the s_* facets are uniform RandomSubset samples of the documented scope (constants in the evidence)",
        "cosines on the half grid realised by float32 vectors with exact norms/dot products; query = e1 through ctx.enc; logical now = 2025-09-01T00:00:00Z",
        "guarded_out: outcome depends on an exact tie between distinct inputs in non-exact float arithmetic (centroid cosines across the top-m cut incl. all ties of unnamed clusters, combined scores with non-dyadic recency)",
        "labels distinct after lower-casing; label matching = substring containment in the lower-cased text; one active graph",
        "rerank layers: only the multiset of ids and the residual/use-cap clauses are judged; random memories: clauses with tolerance 1e-9 on the recomputed combined score, cluster top-m not re-derived",
        "in-memory index, sequential path (perf.parallel off), stage caches off",
    ]


def replay(rep) -> int:
    r = rep["replay"]
    if "case" in r:
        fails = replay_case(r["case"])[0]
    elif "rerank" in r:
        fails = rerank_case(r["rerank"])[0]
    elif "orch_cap" in r:
        fails = orchestrator_cap_case(r["orch_cap"])[0]
    elif "reader" in r:
        fails = reader_path_case(tuple(r["reader"]))[0]
    else:
        fails = random_case(tuple(r["random"]))[0]
    for f in fails:
        print(f"{f[0]} [{f[1]}]: {f[2]}")
    if fails:
        print(f"VIOLATION property=C11 replay={rep.get('_path', '?')}")
        return 1
    print("replay: conforms")
    return 0
