"""C15 — bounded caches: capacity, exact accounting, strict LRU, TTL by injected clock, disabled at
zero capacity; lock wrappers; deterministic merge.

(M)   TLC explores the whole reachable graph of each container spec (LruBytes, NsCache, DetLru, Ring,
      LockWrapper, MergeCaches) for a grid of capacity/TTL settings, with every clause as an
      invariant / action property.
(S->C) every transition (pre, op, post, result) of those graphs is replayed on the real container.
(C->S) long seeded random operation sequences on the real containers are validated by TLC against the
      same specs (ContainersTrace.tla), so drift that only appears after long histories is caught.
"""
from __future__ import annotations

import itertools
import json
import os
import sys
import threading
from typing import Any, Dict, List, Tuple

from ..util import Def, make_cfg, pmap, rng, split_defs

MANIFEST = {
    "technique": "TLA+ specs of every cache container model-checked exhaustively with TLC (all capacity/TTL settings of a small grid); every transition of the state graphs replayed on the real classes (transition coverage); long random real histories and real-thread lock traces validated against the specs by TLC",
    "text": "Exhaustive model checking of the container specifications (bounds, exact byte accounting, strict LRU, TTL on the injected clock, zero-capacity = disabled, mutual exclusion / serial equivalence of the lock wrappers, order-independence of the merge) over a small key/cost/clock alphabet, bound to the implementation by replaying every edge of TLC's state graph on the real classes and by TLC trace validation of long random histories and multi-threaded runs.",
    "note": "Small-scope: 3 keys, costs <= 5, capacities <= 3 entries / <= 5 bytes, TTL <= 2, clock ticks <= 3 for the exhaustive part; random traces use 12 keys, costs <= 64, length 400. Races inside an unlocked section are only stress-tested; a missing lock is detected deterministically (inner call observed without the lock held).",
}

# ------------------------------------------------------------------------------------------------
# LruBytes
# ------------------------------------------------------------------------------------------------


def _lb_alpha(c) -> List[Tuple[str, int]]:
    return [(k, v) for k, v in c.items()]


def replay_lrubytes(case) -> List[Tuple[str, str]]:
    """returns list of (clause, message) failures; [] = conforms"""
    from clematis.engine.util.lru_bytes import LRUBytes
    consts, t = case
    fails: List[Tuple[str, str]] = []
    # an eviction callback that is documented as tolerated: it records what it is told and raises for every other
    # victim - the cache's own state and reports must not depend on it
    told: List[Tuple[Any, Any, int]] = []

    def on_evict(k_, v_, c_):
        told.append((k_, v_, c_))
        if len(told) % 2 == 1:
            raise RuntimeError("verif: on_evict callback failed")
    variant = (len(t["pre"]) + consts["MaxE"] + consts["MaxB"]) % 2
    c = LRUBytes(consts["MaxE"], consts["MaxB"], on_evict=on_evict) if variant else LRUBytes(consts["MaxE"], consts["MaxB"])
    for e in t["pre"]:
        c.put(e["k"], e["v"], e["c"])
    told.clear()
    pre_pairs = [(e["k"], e["v"]) for e in t["pre"]]
    if _lb_alpha(c) != pre_pairs or c.size_bytes() != sum(e["c"] for e in t["pre"]):
        return [("Construct", f"pre-state not reproducible by puts: want {t['pre']} got {_lb_alpha(c)} bytes={c.size_bytes()}")]
    o = t["obs"]
    op = o["op"]
    if op == "put":
        try:
            r = c.put(o["k"], o["v"], o["c"])
        except Exception as e_:      # noqa: BLE001
            return [("EvictionReport", f"put raised {type(e_).__name__}: {e_} (eviction callback that raises: {bool(variant)})")]
        if tuple(r) != (o["evn"], o["evb"]):
            fails.append(("EvictionReport", f"put returned {r}, spec says ({o['evn']},{o['evb']}) (eviction callback that raises: {bool(variant)})"))
        if variant and (len(told), sum(x[2] for x in told)) != (o["evn"], o["evb"]):
            fails.append(("EvictionReport", f"the eviction callback was told {told}, spec says {o['evn']} victims / {o['evb']} bytes"))
    elif op == "get":
        r = c.get(o["k"])
        want = o["v"] if o["hit"] else None
        if r != want:
            fails.append(("GetResult", f"get returned {r!r}, spec says {want!r}"))
    elif op == "contains":
        r = o["k"] in c
        if bool(r) != o["r"]:
            fails.append(("ContainsResult", f"contains returned {r!r}, spec says {o['r']}"))
    elif op == "clear":
        c.clear()
    post_pairs = [(e["k"], e["v"]) for e in t["post"]]
    got = _lb_alpha(c)
    if got != post_pairs:
        clause = "StrictLRU" if sorted(got) != sorted(post_pairs) or op in ("put", "get") else "PostState"
        fails.append((clause, f"after {op}: order/content {got}, spec says {post_pairs}"))
    want_b = sum(e["c"] for e in t["post"])
    if c.size_bytes() != want_b:
        fails.append(("ExactAccounting", f"after {op}: size_bytes={c.size_bytes()}, spec says {want_b}"))
    if c.size_entries() != len(t["post"]) or len(c) != len(t["post"]):
        fails.append(("ExactAccounting", f"after {op}: size_entries={c.size_entries()}, spec says {len(t['post'])}"))
    if consts["MaxE"] and c.size_entries() > consts["MaxE"]:
        fails.append(("WithinEntries", f"{c.size_entries()} > {consts['MaxE']}"))
    if consts["MaxB"] and c.size_bytes() > consts["MaxB"]:
        fails.append(("WithinBytes", f"{c.size_bytes()} > {consts['MaxB']}"))
    return fails


# ------------------------------------------------------------------------------------------------
# NsCache: LRUCache shim + CacheManager
# ------------------------------------------------------------------------------------------------
class Clock:
    def __init__(self, t=1000):
        self.t = t

    def __call__(self):
        return self.t


BASE = 1000


def _ns_build_lru(consts, seq, clk):
    from clematis.engine.cache import LRUCache
    c = LRUCache(max_entries=consts["Max"], ttl_s=consts["Ttl"], time_fn=clk)
    for e in seq:
        clk.t = BASE - e["age"]
        c.set(e["k"], e["v"])
    clk.t = BASE
    return c


def _lru_observe(c, clk, consts, want_seq, fails, where):
    """non-destructive order observation + age probes through the injected clock"""
    now = clk.t
    clk.t = now - 10 ** 6            # nothing can be expired when looking from the past
    got = [(k, v) for k, v in c.items()]
    clk.t = now
    want = [(e["k"], e["v"]) for e in want_seq]
    if got != want:
        fails.append(("StrictLRU" if len(got) != len(want) or sorted(got) != sorted(want) else "StrictLRU",
                      f"{where}: entries {got}, spec says {want}"))
        return
    if c.size() != len(want) or len(c) != len(want):
        fails.append(("ExactAccounting", f"{where}: size {c.size()} vs {len(want)}"))
    ttl = consts["Ttl"]
    for e in want_seq:
        k, a = e["k"], e["age"]
        if ttl == 0:
            clk.t = now + 10 ** 6
            if k not in c:
                fails.append(("TTLByInjectedClock", f"{where}: ttl=0 but {k} expired"))
        elif a > ttl:
            clk.t = now
            if k in c:
                fails.append(("TTLByInjectedClock", f"{where}: {k} age>{ttl} still live"))
        else:
            clk.t = now + (ttl - a)
            if k not in c:
                fails.append(("TTLByInjectedClock", f"{where}: {k} (age {a}) expired at age==ttl"))
            else:
                clk.t = now + (ttl - a) + 1
                if k in c:
                    fails.append(("TTLByInjectedClock", f"{where}: {k} (age {a}) live beyond ttl"))
    clk.t = now


def replay_nscache_lru(case) -> List[Tuple[str, str]]:
    consts, t = case
    n = sorted(t["pre"].keys())[0]
    o = t["obs"]
    if o.get("ns", n) != n and o["op"] not in ("tick", "invalidate_all"):
        return []
    fails: List[Tuple[str, str]] = []
    clk = Clock()
    c = _ns_build_lru(consts, t["pre"][n], clk)
    st0 = dict(c.stats)
    op = o["op"]
    if op == "set":
        (c.set if (o["v"] % 2) else c.put)(o["k"], o["v"])
        ev = c.stats["evicted"] - st0["evicted"]
        if ev != o["evicted"]:
            fails.append(("EvictionReport", f"set evicted {ev}, spec says {o['evicted']}"))
    elif op == "get":
        hit, v = c.get2(o["k"])
        if bool(hit) != o["hit"] or (o["hit"] and v != o["v"]):
            fails.append(("GetResult", f"get2 -> {(hit, v)}, spec says hit={o['hit']} v={o['v']}"))
        dh, dm = c.stats["hits"] - st0["hits"], c.stats["misses"] - st0["misses"]
        if (dh, dm) != ((1, 0) if o["hit"] else (0, 1)):
            fails.append(("ExactAccounting", f"hit/miss counters moved by {(dh, dm)}"))
    elif op == "contains":
        r = o["k"] in c
        if bool(r) != o["r"]:
            fails.append(("ContainsResult", f"contains -> {r}, spec says {o['r']}"))
    elif op == "items":
        ks = [k for k, _ in c.items()]
        if ks != list(o["ks"]):
            fails.append(("TTLByInjectedClock", f"items -> {ks}, spec says {o['ks']}"))
    elif op in ("invalidate", "invalidate_all"):
        r = c.invalidate() if op == "invalidate" else c.clear()
        want = o["removed"] if op == "invalidate" else len(t["pre"][n])
        if r != want:
            fails.append(("ExactAccounting", f"{op} -> {r}, spec says {want}"))
    elif op == "tick":
        clk.t += o["dt"]
    _lru_observe(c, clk, consts, t["post"][n], fails, f"after {op}")
    if c.size() > consts["Max"]:
        fails.append(("WithinEntries", f"{c.size()} > {consts['Max']}"))
    return fails


def _mgr_items(m, ns):
    inner = getattr(m, "_ns", {}).get(ns)
    if inner is None:
        return []
    return [(k, v) for k, v in inner.items()]


def replay_nscache_mgr(case) -> List[Tuple[str, str]]:
    from clematis.engine.cache import CacheManager
    consts, t = case
    fails: List[Tuple[str, str]] = []
    o = t["obs"]
    op = o["op"]
    if op in ("contains", "items"):
        return []                      # the manager has no such method
    clk = Clock()
    m = CacheManager(max_entries=consts["Max"], ttl_sec=consts["Ttl"], time_fn=clk)
    # keys are tuples in real use: exercise hashable tuple keys and unhashable (list) keys
    def K(k):
        return ("ver", k) if k != "c" else ["ver", {"k": k}]
    for n in sorted(t["pre"]):
        for e in t["pre"][n]:
            clk.t = BASE - e["age"]
            m.set(n, K(e["k"]), e["v"])
    clk.t = BASE
    st0 = dict(m.stats)
    if op == "set":
        m.set(o["ns"], K(o["k"]), o["v"])
        ev = m.stats["evicted"] - st0["evicted"]
        if ev != o["evicted"]:
            fails.append(("EvictionReport", f"mgr.set evicted {ev}, spec says {o['evicted']}"))
    elif op == "get":
        hit, v = m.get(o["ns"], K(o["k"]))
        if bool(hit) != o["hit"] or (o["hit"] and v != o["v"]):
            fails.append(("GetResult", f"mgr.get -> {(hit, v)}, spec says hit={o['hit']} v={o['v']}"))
    elif op == "invalidate":
        r = m.invalidate_namespace(o["ns"])
        if r != o["removed"]:
            fails.append(("ExactAccounting", f"invalidate_namespace -> {r}, spec {o['removed']}"))
    elif op == "invalidate_all":
        r = m.invalidate_all()
        if r != o["removed"]:
            fails.append(("ExactAccounting", f"invalidate_all -> {r}, spec {o['removed']}"))
    elif op == "tick":
        clk.t += o["dt"]
    total = 0
    from clematis.engine.cache import CacheManager as _CM
    for n in sorted(t["post"]):
        want = [(_CM._hashable_or_stable(K(e["k"])), e["v"]) for e in t["post"][n]]
        got = _mgr_items(m, n)
        total += len(want)
        if got != want:
            clause = "NamespaceIsolation" if o.get("ns") not in (None, n) else "StrictLRU"
            fails.append((clause, f"mgr after {op}: ns {n} holds {got}, spec says {want}"))
    if m.stats["size"] != total:
        fails.append(("ExactAccounting", f"mgr stats.size={m.stats['size']} spec {total}"))
    # TTL probe through get(): every unsaturated entry must hit exactly up to age == ttl
    ttl = consts["Ttl"]
    now = clk.t
    for n in sorted(t["post"]):
        for e in t["post"][n]:
            if ttl == 0:
                clk.t = now + 10 ** 6
                want_hit = True
            elif e["age"] > ttl:
                clk.t = now
                want_hit = False
            else:
                clk.t = now + (ttl - e["age"])
                want_hit = True
            hit, _ = m.get(n, K(e["k"]))
            if bool(hit) != want_hit:
                fails.append(("TTLByInjectedClock", f"mgr: {n}/{e['k']} age {e['age']} hit={hit} want {want_hit}"))
            elif want_hit and ttl:
                clk.t = now + (ttl - e["age"]) + 1
                hit2, _ = m.get(n, K(e["k"]))
                if hit2:
                    fails.append(("TTLByInjectedClock", f"mgr: {n}/{e['k']} live beyond ttl"))
    return fails


# ------------------------------------------------------------------------------------------------
# DetLru (map + sets)
# ------------------------------------------------------------------------------------------------
def _set_observe(s, keys, cap):
    """public-API observation of an insert-order set: membership + FIFO order by draining"""
    members = [k for k in keys if k in s]
    size = s.size()
    order = []
    live = set(members)
    i = 0
    while live and i < cap + 2:
        s.add(f"~fresh{i}")
        i += 1
        gone = [k for k in sorted(live) if k not in s]
        order.extend(gone)
        live -= set(gone)
    return size, order


def replay_detlru(case) -> List[Tuple[str, str]]:
    from clematis.engine.util.lru_det import DeterministicLRU, DeterministicLRUSet
    from clematis.engine.util import ring as _ring
    consts, t = case
    fails: List[Tuple[str, str]] = []
    o = t["obs"]
    op = o["op"]
    cap = consts["Cap"]
    keys = consts["Keys"]
    if op.startswith("m"):
        evs: List[Any] = []
        m = DeterministicLRU(cap, update_on_get=consts["UpdGet"], update_on_put=consts["UpdPut"],
                             on_evict=lambda k, v: evs.append((k, v)))
        for e in t["pre"]["m"]:
            m.put(e["k"], e["v"])
        if list(m.items()) != [(e["k"], e["v"]) for e in t["pre"]["m"]]:
            return [("Construct", f"map pre-state not reproducible: {list(m.items())} vs {t['pre']['m']}")]
        del evs[:]
        if op == "mget":
            r = m.get(o["k"], "MISS")
            want = o["v"] if o["hit"] else "MISS"
            if r != want:
                fails.append(("GetResult", f"map.get -> {r!r}, spec {want!r}"))
        elif op == "mput":
            r = m.put(o["k"], o["v"])
            want = (o["ev"][0]["k"], o["ev"][0]["v"]) if o["ev"] else None
            if r != want:
                fails.append(("EvictionReport", f"map.put -> {r!r}, spec {want!r}"))
            if evs != ([want] if want else []):
                fails.append(("EvictionReport", f"on_evict saw {evs}, spec {want!r}"))
        elif op == "mpop":
            r = m.pop_lru()
            want = (o["ev"][0]["k"], o["ev"][0]["v"]) if o["ev"] else None
            if r != want:
                fails.append(("StrictLRU", f"map.pop_lru -> {r!r}, spec {want!r}"))
        elif op == "mcontains":
            r = (o["k"] in m, m.contains(o["k"]))
            if r != (o["r"], o["r"]):
                fails.append(("ContainsResult", f"map.contains -> {r}, spec {o['r']}"))
        elif op == "mclear":
            m.clear()
        got = list(m.items())
        want = [(e["k"], e["v"]) for e in t["post"]["m"]]
        if got != want:
            fails.append(("StrictLRU", f"map after {op}: {got}, spec {want}"))
        if len(m) != len(want):
            fails.append(("ExactAccounting", f"map len {len(m)} vs {len(want)}"))
        if len(m) > cap:
            fails.append(("WithinEntries", f"map len {len(m)} > {cap}"))
    else:
        for cls in (DeterministicLRUSet, _ring.DeterministicLRU):
            s = cls(cap)
            for k in t["pre"]["s"]:
                s.add(k)
            if op == "sadd":
                r = s.add(o["k"])
                if bool(r) != o["evicted"]:
                    fails.append(("EvictionReport", f"{cls.__name__}.add -> {r}, spec {o['evicted']}"))
            elif op == "scontains":
                r = (o["k"] in s, s.contains(o["k"]))
                if r != (o["r"], o["r"]):
                    fails.append(("ContainsResult", f"{cls.__name__}.contains -> {r}, spec {o['r']}"))
            elif op == "sclear":
                s.clear()
            if s.size() > cap or len(s) > cap:
                fails.append(("WithinEntries", f"{cls.__name__} size {s.size()} > {cap}"))
            size, order = _set_observe(s, keys, cap)
            if size != len(t["post"]["s"]) or order != list(t["post"]["s"]):
                fails.append(("StrictLRU", f"{cls.__name__} after {op}: size {size} fifo {order}, spec {t['post']['s']}"))
    return fails


# ------------------------------------------------------------------------------------------------
# Ring
# ------------------------------------------------------------------------------------------------
def _ring_build(K, q, ref):
    """reach (q, ref) by adds followed by discards (ref <= count in every reachable state)"""
    from clematis.engine.util.ring import DedupeRing
    r = DedupeRing(K)
    r.extend(q)
    for k, n in ref.items():
        cnt = sum(1 for x in q if x == k)
        for _ in range(cnt - n):
            r.discard(k)
    return r


def replay_ring(case) -> List[Tuple[str, str]]:
    consts, t = case
    fails: List[Tuple[str, str]] = []
    o = t["obs"]
    op = o["op"]
    r = _ring_build(consts["K"], list(t["pre"]["q"]), t["pre"]["ref"])
    if op == "add":
        r.add(o["k"])
    elif op == "discard":
        r.discard(o["k"])
    elif op == "contains":
        got = (o["k"] in r, r.contains(o["k"]))
        if got != (o["r"], o["r"]):
            fails.append(("ContainsResult", f"ring.contains -> {got}, spec {o['r']}"))
    elif op == "clear":
        r.clear()
    elif op == "extend":
        r.extend(iter(list(o["b"])) if len(o["b"]) % 2 else list(o["b"]))      # a list or a one-shot iterable
    if r.tolist() != list(t["post"]["q"]) or len(r) != len(t["post"]["q"]):
        fails.append(("StrictLRU", f"ring after {op}: {r.tolist()}, spec {t['post']['q']}"))
    if len(r) > consts["K"]:
        fails.append(("WithinEntries", f"ring len {len(r)} > {consts['K']}"))
    for k in consts["Keys"]:
        n = 0
        while k in r and n < 50:
            r.discard(k)
            n += 1
        if n != t["post"]["ref"][k]:
            fails.append(("ExactAccounting", f"ring after {op}: refcount({k})={n}, spec {t['post']['ref'][k]}"))
    return fails


# ------------------------------------------------------------------------------------------------
# family driver
# ------------------------------------------------------------------------------------------------
def _family(run, module, name, consts, invariants, properties, replayers, workers=4, timeout=600):
    cfg = make_cfg(consts, invariants, properties)
    res = run.tlc(module, cfg, name=name, workers=workers, timeout_s=timeout, defs=split_defs(consts))
    run.model_must_hold(res)
    trans = res.emitted
    if len(trans) + 1 != res.generated:
        run.notes.append(f"{name}: emitted {len(trans)} of {res.generated - 1} transitions")
    for fam, fn in replayers:
        cases = [(consts, t) for t in trans]
        outs = pmap(fn, cases)
        for (c, t), fails in zip(cases, outs):
            run.traces += 1
            run.case((fam, json.dumps(c, sort_keys=True, default=list), json.dumps(t, sort_keys=True)))
            if not fails:
                run.ok(f"{fam}.conforms")
                continue
            for clause, msg in fails:
                run.fail(clause, {"family": fam, "op": t["obs"]["op"]},
                         {"constants": c, "transition": t}, f"{fam}: {msg}",
                         replay={"family": fam, "constants": c, "transition": t})
    if trans:
        run.sample({"family": name, "constants": {k: (sorted(v) if isinstance(v, (set, frozenset)) else v) for k, v in consts.items()},
                    "transition": trans[len(trans) // 2]}, cap=12)
    return res


REPLAYERS = {
    "LRUBytes": replay_lrubytes,
    "LRUCache": replay_nscache_lru,
    "CacheManager": replay_nscache_mgr,
    "DetLRU": replay_detlru,
    "DedupeRing": replay_ring,
}


def _ser(consts):
    return {k: (sorted(v) if isinstance(v, (set, frozenset)) else v) for k, v in consts.items()}


def check(run) -> None:
    q = run.quick
    run.rule = ("every transition (pre-state, operation, post-state, result) of the exhaustively explored TLC state graph of each "
                "container spec, for a grid of capacity/TTL settings, replayed on the real class; distinct = distinct "
                "(family, constants, transition); plus random long real histories validated by TLC (trace validation)")
    K3 = ["a", "b", "c"]
    # ---- LruBytes ----
    grid = [(0, 0), (1, 0), (2, 0), (0, 3), (2, 3), (3, 4), (1, 1)] if q else \
        [(e, b) for e in range(0, 4) for b in range(0, 6)]
    costs = Def("{-1, 0, 1, 2, 3}") if q else Def("{-1, 0, 1, 2, 3, 5}")
    for (e, b) in grid:
        consts = {"Keys": K3, "Costs": costs, "Vals": [1, 2] if (e, b) in ((2, 3), (3, 4)) or not q else [1],
                  "MaxE": e, "MaxB": b}
        _family(run, "LruBytes", f"LruBytes_e{e}_b{b}", consts,
                ["WithinEntries", "WithinBytes", "UniqueKeys", "ZeroCapacityDisabled", "TypeOK"],
                ["StrictLRU", "NoNeedlessEviction"], [("LRUBytes", replay_lrubytes)])
    # ---- NsCache ----
    ngrid = [(0, 0), (1, 1), (2, 0), (2, 2), (3, 1)] if q else \
        [(m, t) for m in range(0, 4) for t in (0, 1, 2)]
    for (m, ttl) in ngrid:
        consts = {"NS": ["n1"], "Keys": K3, "Vals": [1, 2], "Max": m, "Ttl": ttl, "Ticks": [1, 2] if q else [1, 2, 3]}
        _family(run, "NsCache", f"NsCache1_m{m}_t{ttl}", consts,
                ["WithinEntries", "UniqueKeys", "ZeroCapacityDisabled"],
                ["StrictLRU", "NoStaleHit", "NamespaceIsolation"],
                [("LRUCache", replay_nscache_lru), ("CacheManager", replay_nscache_mgr)])
    for (m, ttl) in ([(1, 1), (2, 0)] if q else [(1, 1), (2, 0), (2, 2), (0, 1)]):
        consts = {"NS": ["n1", "n2"], "Keys": ["a", "b"] if q else K3, "Vals": [1], "Max": m, "Ttl": ttl, "Ticks": [1] if q else [1, 2]}
        _family(run, "NsCache", f"NsCache2_m{m}_t{ttl}", consts,
                ["WithinEntries", "UniqueKeys", "ZeroCapacityDisabled"],
                ["StrictLRU", "NoStaleHit", "NamespaceIsolation"],
                [("CacheManager", replay_nscache_mgr)], timeout=900)
    # ---- DetLru ----
    for cap in ([0, 1, 2] if q else [0, 1, 2, 3]):
        for ug, up in ([(True, True), (False, True), (True, False)] if q else itertools.product([True, False], repeat=2)):
            consts = {"Keys": K3, "Vals": [1, 2], "Cap": cap, "UpdGet": ug, "UpdPut": up}
            _family(run, "DetLru", f"DetLru_c{cap}_{int(ug)}{int(up)}", consts,
                    ["WithinEntries", "UniqueKeys", "ZeroCapacityDisabled"], ["StrictLRU", "SetFifo"],
                    [("DetLRU", replay_detlru)])
    # ---- Ring ----
    for k in ([0, 1, 2, 3] if q else [0, 1, 2, 3, 4]):
        consts = {"Keys": K3, "K": k, "MaxBatch": k + 2 if k < 3 else 4}
        _family(run, "Ring", f"Ring_k{k}", consts,
                ["WithinEntries", "ZeroCapacityDisabled", "RefBounded", "NoPhantomMember"], [],
                [("DedupeRing", replay_ring)])
    run.exhaustive = True
    from . import c15_wrappers, c15_traces
    c15_wrappers.check(run)
    c15_traces.check(run)
    run.assumptions += [
        "small-scope hypothesis: 3 keys, costs<=5, capacities<=3 entries/<=5 bytes, TTL<=2 for the exhaustive part",
        "the pre-state of each replayed transition is constructed by a canonical put sequence; drift over long histories is covered by the random trace validation",
    ]


def replay(rep) -> int:
    r = rep["replay"]
    fam = r["family"]
    if fam in REPLAYERS:
        fails = REPLAYERS[fam]((r["constants"], r["transition"]))
    else:
        from . import c15_wrappers, c15_traces
        fails = (c15_wrappers.replay(r) if fam in c15_wrappers.FAMILIES else c15_traces.replay(r))
    for clause, msg in fails:
        print(f"{clause}: {msg}")
    if fails:
        print(f"VIOLATION property=C15 replay={rep.get('_path', '?')}")
        return 1
    print("replay: conforms")
    return 0
