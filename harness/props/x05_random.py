"""X05 helpers: spellings, the exact python oracle of Mmr.tla (fractions), the apply_quality seam, random families."""
from __future__ import annotations

from fractions import Fraction as F
from types import SimpleNamespace
from typing import Any, Dict, List, Optional, Sequence

from ..util import rng

# ids 1..8 of the specification: string order = integer order, but the "natural" / numeric order of the spellings differs
SPELL = ["m10", "m2", "m30", "m4", "m50", "m6", "m70", "m8"]
assert SPELL == sorted(SPELL)
WORDS = {1: "kiwi", 2: "lime", 3: "mango", 4: "nectar", 5: "olive", 6: "peach"}        # none is a stopword
ID_POOL = ["m10", "m2", "M3", "a", "b10", "b9", "Z", "z1", "é1", "0x", "10", "9", "a-b", "aa"]


def sid(i: int) -> str:
    return SPELL[i - 1]


def word(t: int) -> str:
    return WORDS[t]


def spell_text(ws: Sequence[str], p: int) -> str:
    """a text that tokenises to exactly the set ws (documented normaliser: NFKC, lower, split on non-alphanumerics;
    default stopwords en-basic are dropped)"""
    if p % 3 == 0:
        return " ".join(ws)
    if p % 3 == 1:
        return ",  ".join(w.capitalize() for w in ws) + " "
    return "The\t" + "\n".join(w.upper() for w in reversed(list(ws))) if ws else " the "


def dist(a: frozenset, b: frozenset) -> F:
    if not a and not b:
        return F(0)
    return 1 - F(len(a & b), len(a | b))


def dyadic(x: F) -> bool:
    d = x.denominator
    return d & (d - 1) == 0


def scores(rels, toks, lam, sel: List[int], rem, agg: str):
    """-> (score, div) per remaining index given the selected prefix (first pick: relevance only)"""
    sc, dv = {}, {}
    for i in rem:
        if sel:
            ds = [dist(toks[i], toks[j]) for j in sel]
            d = max(ds) if agg == "far" else min(ds)
            dv[i], sc[i] = d, lam * d + (1 - lam) * rels[i]
        else:
            dv[i], sc[i] = F(0), rels[i]
    return sc, dv


def float_unsafe(lam: F, dv_a: F, dv_b: F, grid: bool) -> bool:
    """two candidates with mathematically equal objective: may doubles order them differently?  Equal diversity terms give
    identical doubles (for lambda = 1 the relevance is multiplied by 0.0); lambda = 0 leaves the relevance alone; on the
    dyadic grid dyadic diversity terms are computed exactly."""
    if dv_a == dv_b or lam == 0:
        return False
    return not (grid and dyadic(dv_a) and dyadic(dv_b))


def oracle(ids: Sequence[str], rels: Sequence[F], toks: Sequence[frozenset], lam: F, k: Optional[int], agg: str = "far",
           tol: Optional[F] = None) -> Dict[str, Any]:
    """the selection of Mmr.tla in exact arithmetic.  exact=False: some arg-max hinges on a float tie (or, with tol, on a
    margin below tol)."""
    n = len(ids)
    base = sorted(range(n), key=lambda i: (-rels[i], ids[i]))
    m = n if (k is None or k > n) else max(k, 0)
    sel: List[int] = []
    rem = set(range(n))
    exact = True
    while rem and len(sel) < m:
        sc, dv = scores(rels, toks, lam, sel, rem, agg)
        best = min(rem, key=lambda i: (-sc[i], ids[i]))
        if sel:
            for j in rem:
                if j == best:
                    continue
                if sc[j] == sc[best]:
                    if float_unsafe(lam, dv[j], dv[best], tol is None):
                        exact = False
                elif tol is not None and sc[best] - sc[j] < tol:
                    exact = False
        sel.append(best)
        rem.discard(best)
    hs = set(sel)
    return {"head": [ids[i] for i in sel], "full": [ids[i] for i in sel] + [ids[i] for i in base if i not in hs],
            "baseline": [ids[i] for i in base], "exact": exact}


# ---- the wiring seam ---------------------------------------------------------------------------------------
def wired(in_ids: List[str], rel_by_id: Dict[str, float], text_by_id: Dict[str, str], mmr_cfg: Dict[str, Any]) -> Dict[str, Any]:
    """apply_quality with the fusion step replaced by a recorder that hands rel_by_id on as fused scores in the fused
    order (score descending, id ascending); once with MMR on, once with mmr.enabled = false"""
    import clematis.engine.stages.t2.quality_ops as QO
    from clematis.engine.stages.t2.quality import apply_quality
    seen: List[Any] = []

    def fuse_stub(query, items, *, cfg):
        seen.append([it["id"] for it in items])
        out = [dict(it, score_fused=rel_by_id[it["id"]]) for it in items]
        out.sort(key=lambda d: (-d["score_fused"], str(d["id"])))
        return out, {}
    old = QO.fuse
    QO.fuse = fuse_stub
    try:
        res: Dict[str, Any] = {}
        for tag, mc in (("", mmr_cfg), ("off_", dict(mmr_cfg, enabled=False))):
            refs = [SimpleNamespace(id=i, text=text_by_id[i], score=1.0 - 0.01 * p) for p, i in enumerate(in_ids)]
            cfg_root = {"t2": {"quality": {"enabled": True, "mmr": mc}}}
            out = apply_quality(SimpleNamespace(), {}, refs, "query", cfg_root, {})
            res[tag + "ids"] = [r.id for r in out[0]]
            res[tag + "used"] = bool(out[5])
            res[tag + "selected"] = int(out[6])
        if seen[0] != in_ids:
            return {"error": f"the fusion step saw {seen[0]}, not the retrieved list {in_ids}"}
        return res
    except Exception as e:      # noqa: BLE001
        return {"error": f"raised {type(e).__name__}: {e}"}
    finally:
        QO.fuse = old


# ---- random family 1: clauses checked directly on the real output ----------------------------------------------
def check_clauses(ids, rels, toks, lam, k, head: List[str], full: List[str]) -> Dict[str, Any]:
    """the clauses of Mmr.tla evaluated on a real result (head = mmr_select, full = mmr_reorder_full), exact fractions"""
    fails: List[Any] = []
    ok: Dict[str, int] = {}
    guarded = 0
    n = len(ids)
    pos = {s: i for i, s in enumerate(ids)}

    def good(cl):
        ok[cl] = ok.get(cl, 0) + 1
    if len(set(head)) != len(head) or any(h not in pos for h in head) or sorted(full) != sorted(ids) or full[:len(head)] != head:
        fails.append(("NoInventionNoDuplicates", f"head {head} full {full} of ids {list(ids)}"))
        return {"fails": fails, "ok": ok, "guarded": guarded}
    good("NoInventionNoDuplicates")
    want_n = n if (k is None or k > n) else max(k, 0)
    if len(head) != want_n:
        fails.append(("SizeIsMinKN", f"{len(head)} selected, min(k, n) = {want_n}"))
    else:
        good("SizeIsMinKN")
    hi = [pos[h] for h in head]
    base = sorted(range(n), key=lambda i: (-rels[i], ids[i]))
    if hi:
        if hi[0] != base[0]:
            fails.append(("FirstIsMostRelevant", f"first pick {head[0]}, most relevant (ties: smallest id) is {ids[base[0]]}"))
        else:
            good("FirstIsMostRelevant")
    tie_guard = False
    for p in range(1, len(hi)):
        sel, rem = hi[:p], set(range(n)) - set(hi[:p])
        sc, dv = scores(rels, toks, lam, sel, rem, "far")
        b = hi[p]
        for j in rem:
            if sc[j] > sc[b]:
                fails.append(("GreedyStep", f"pick {p + 1} is {ids[b]} (objective {sc[b]}) although {ids[j]} has {sc[j]} given {head[:p]}"))
                break
            if sc[j] == sc[b] and ids[j] < ids[b]:
                if float_unsafe(lam, dv[j], dv[b], True):
                    guarded += 1
                    tie_guard = True
                    continue
                fails.append(("TieBreakById", f"pick {p + 1} is {ids[b]} although {ids[j]} ties (objective {sc[b]}) given {head[:p]}"))
                break
        else:
            good("GreedyStep")
            good("TieBreakById")
        if lam == 1:
            if any(dv[j] > dv[b] for j in rem):
                fails.append(("LambdaOneIsPureDiversity", f"pick {p + 1} is {ids[b]} (diversity {dv[b]}), not the most diverse given {head[:p]}"))
            else:
                good("LambdaOneIsPureDiversity")
    tail = [pos[s] for s in full[len(head):]]
    if tail != [i for i in base if i not in set(hi)]:
        fails.append(("TailInRelevanceOrder", f"tail {full[len(head):]} is not in (relevance desc, id asc) order"))
    else:
        good("TailInRelevanceOrder")
    bl = [ids[i] for i in base]
    if lam == 0:
        if full != bl:
            fails.append(("LambdaZeroIsRelevanceOrder", f"lambda=0 returned {full}, relevance order is {bl}"))
        else:
            good("LambdaZeroIsRelevanceOrder")
    if k == 1:
        if full != bl:
            fails.append(("KOneIsRelevanceOrder", f"k=1 returned {full}, relevance order is {bl}"))
        else:
            good("KOneIsRelevanceOrder")
    if n and lam < 1 and all(t == toks[0] for t in toks):
        if full != bl:
            fails.append(("IdenticalTokensNoMovement", f"identical token sets: {full}, relevance order is {bl}"))
        else:
            good("IdenticalTokensNoMovement")
    return {"fails": fails, "ok": ok, "guarded": guarded, "tie_guard": tie_guard}


def random_case(args) -> Dict[str, Any]:
    from clematis.engine.stages.t2.quality_mmr import MMRItem, mmr_reorder_full, mmr_select
    from clematis.engine.stages.t2.quality_ops import maybe_apply_mmr
    seed, i = args
    r = rng(seed, "x05rand", i)
    n = r.choice([0, 1, 2, 3, 4, 5, 6, 8, 10, 12])
    ids = r.sample(ID_POOL, n)
    nw = r.choice([2, 3, 4, 6])
    rel_step = r.choice([1, 4, 8])          # coarse grids make relevance ties frequent
    rels = [F(r.randrange(0, 16 // rel_step + 1) * rel_step, 16) for _ in range(n)]
    if r.random() < 0.15 and n:
        t0 = frozenset(r.sample(range(1, nw + 1), r.randrange(0, nw + 1)))
        toks = [t0] * n
    else:
        toks = [frozenset(t for t in range(1, nw + 1) if r.random() < r.choice([0.3, 0.5, 0.7])) for _ in range(n)]
    lam = F(r.choice([0, 0, 1, 2, 3, 4, 5, 6, 7, 8, 8]), 8)
    k = r.choice([None, None, 0, 1, 1, 2, 3, max(n - 1, 0), n, n + 2])
    case = {"ids": ids, "rels": [str(x) for x in rels], "toks": [sorted(t) for t in toks], "lam": str(lam), "k": k}
    where = f"random case {i}: {case}"
    items = [MMRItem(id=s, rel=float(x), toks=frozenset(word(t) for t in tk)) for s, x, tk in zip(ids, rels, toks)]
    try:
        sel = mmr_select(items, k=k, lam=float(lam))
        head = [items[j].id for j in sel]
        full = [items[j].id for j in mmr_reorder_full(items, k=k, lam=float(lam))]
        head_all = [items[j].id for j in mmr_select(items, k=None, lam=float(lam))]
    except Exception as e:      # noqa: BLE001
        return {"fails": [("SelectionTotal", f"{where}: raised {type(e).__name__}: {e}")], "ok": {}, "guarded": 0, "case": case}
    o = check_clauses(ids, rels, toks, lam, k, head, full)
    fails = [(cl, f"{where}: {m}") for cl, m in o["fails"]]
    if not o.get("tie_guard"):
        if head_all[:len(head)] != head:
            fails.append(("PrefixStable", f"{where}: k={k} selects {head}, k omitted selects {head_all}"))
        else:
            o["ok"]["PrefixStable"] = 1
    # config level: the same answer through t2.quality.mmr.{enabled,lambda,k}; switches off = identity
    fused = [{"id": s, "score_fused": float(x), "text": spell_text(sorted(word(t) for t in tk), p)} for p, (s, x, tk) in enumerate(zip(ids, rels, toks))]
    mc: Dict[str, Any] = {"enabled": True, "lambda": float(lam)}
    if k is not None:
        mc["k"] = k
    try:
        if k != 0:
            got = [d["id"] for d in maybe_apply_mmr(fused, {"enabled": True, "mmr": mc})]
            if got != full:
                fails.append(("ConfigLevelAgrees", f"{where}: maybe_apply_mmr returned {got}, mmr_reorder_full {full}"))
            else:
                o["ok"]["ConfigLevelAgrees"] = 1
        for qc in ({"enabled": True, "mmr": dict(mc, enabled=False)}, {"enabled": False, "mmr": mc}):
            got = [d["id"] for d in maybe_apply_mmr(fused, qc)]
            if got != ids:
                fails.append(("SwitchedOffIsIdentity", f"{where}: maybe_apply_mmr with {qc} returned {got}"))
            else:
                o["ok"]["SwitchedOffIsIdentity"] = o["ok"].get("SwitchedOffIsIdentity", 0) + 1
    except Exception as e:      # noqa: BLE001
        fails.append(("SelectionTotal", f"{where}: maybe_apply_mmr raised {type(e).__name__}: {e}"))
    return {"fails": fails, "ok": o["ok"], "guarded": o["guarded"], "case": case}


# ---- random family 2: the unmodified fuse -> MMR pipeline of apply_quality ------------------------------------------
def pipeline_case(args) -> Dict[str, Any]:
    """real fusion, then MMR: the relevance MMR sees is the fused score.  The fused scores are taken from the real fuse()
    (as exact fractions of the doubles); the order apply_quality returns must be the oracle's on those relevances."""
    from clematis.engine.stages.t2.helpers import items_for_fusion
    from clematis.engine.stages.t2.quality import apply_quality
    from clematis.engine.stages.t2.quality_ops import fuse
    seed, i = args
    r = rng(seed, "x05pipe", i)
    n = r.choice([1, 2, 3, 4, 5, 6, 8])
    ids = r.sample([s for s in ID_POOL], n)
    nw = r.choice([3, 4, 5])
    toks = [frozenset(t for t in range(1, nw + 1) if r.random() < 0.5) for _ in range(n)]
    texts = [" ".join(word(t) for t in sorted(tk, key=lambda t: (t * 7) % 5)) for tk in toks]
    query = " ".join(word(t) for t in range(1, nw + 1) if r.random() < 0.4)
    alpha = r.choice([0.0, 0.25, 0.5, 0.75, 1.0])
    lam = F(r.choice([0, 1, 2, 3, 4, 5, 6, 7, 8]), 8)
    k = r.choice([None, None, 1, 2, 3, n, n + 1])
    mc: Dict[str, Any] = {"enabled": True, "lambda": float(lam)}
    if k is not None:
        mc["k"] = k
    cfg_root = {"t2": {"quality": {"enabled": True, "fusion": {"mode": "score_interp", "alpha_semantic": alpha}, "mmr": mc}}}
    case = {"ids": ids, "texts": texts, "query": query, "alpha": alpha, "lam": str(lam), "k": k}
    where = f"pipeline case {i}: {case}"
    refs = [SimpleNamespace(id=s, text=t, score=1.0 - 0.05 * p) for p, (s, t) in enumerate(zip(ids, texts))]
    try:
        fused, _meta = fuse(query, items_for_fusion(refs), cfg=cfg_root)
        f_ids = [d["id"] for d in fused]
        f_rel = [F(d["score_fused"]) for d in fused]
        f_tok = [toks[ids.index(s)] for s in f_ids]
        orc = oracle(f_ids, f_rel, f_tok, lam, k, "far", tol=F(1, 10 ** 9))
        if not orc["exact"]:
            return {"guarded": True}
        out = apply_quality(SimpleNamespace(), {}, list(refs), query, cfg_root, {})
    except Exception as e:      # noqa: BLE001
        return {"fails": [("SelectionTotal", f"{where}: raised {type(e).__name__}: {e}")], "case": case}
    got = [x.id for x in out[0]]
    fails = []
    if got != orc["full"]:
        fails.append(("PipelineMmrOnFusedScores", f"{where}: apply_quality returned {got}; fused order {f_ids} with scores {[float(x) for x in f_rel]}; spec {orc['full']}"))
    if not out[5] or out[6] != n:
        fails.append(("ReportedCount", f"{where}: mmr_used={out[5]} selected={out[6]}, spec True / {n}"))
    return {"fails": fails, "case": case}
