"""C16, rotation / compaction part: S->C replay of every history enumerated by Rotate.tla on the real
rotate_one (renames through clematis.io.atomic.atomic_replace), the real appender and rewrite_jsonl
in a scratch directory.  alpha = directory listing -> (generation id, #records) per slot."""
from __future__ import annotations

import contextlib
import errno
import io
import json
import os
import re
import shutil
import tempfile
from typing import Any, Dict, List, Optional, Tuple

BASE = "c16_rot.jsonl"


class _Interrupt(BaseException):
    """process interruption between two rotation steps (not an Exception: nothing may swallow it)"""


def _write_gen(path: str, gen: int, cnt: int) -> None:
    with open(path, "wb") as f:
        for k in range(1, cnt + 1):
            f.write((json.dumps({"gen": gen, "k": k, "u": "é"}, ensure_ascii=False) + "\n").encode("utf-8"))


def alpha(d: str, m: int) -> Tuple[List[int], List[str]]:
    """directory listing -> ([gen*10 + #records per slot 0..m], problems)"""
    slots = [0] * (m + 1)
    probs: List[str] = []
    for name in sorted(os.listdir(d)):
        p = os.path.join(d, name)
        if name == BASE:
            k = 0
        else:
            mm = re.fullmatch(re.escape(BASE) + r"\.(\d+)", name)
            if not mm:
                probs.append(f"stray name {name!r}")
                continue
            k = int(mm.group(1))
        if k > m:
            probs.append(f"generation file {name!r} beyond the modelled slots")
            continue
        if not os.path.isfile(p):
            probs.append(f"{name!r} is not a regular file")
            continue
        with open(p, "rb") as f:
            data = f.read()
        if data and not data.endswith(b"\n"):
            probs.append(f"{name!r} does not end with LF")
        recs = []
        for raw in data.split(b"\n"):
            if raw:
                try:
                    recs.append(json.loads(raw.decode("utf-8")))
                except Exception:
                    probs.append(f"{name!r} holds an unparsable line")
        gens = {r.get("gen") for r in recs if isinstance(r, dict)}
        if len(gens) != 1 or [r.get("k") for r in recs] != list(range(1, len(recs) + 1)) or any(r.get("u") != "é" for r in recs):
            probs.append(f"{name!r} does not hold the records of exactly one generation in order: {recs[:4]}")
            continue
        slots[k] = int(next(iter(gens))) * 10 + len(recs)
    return slots, probs


# ---- interruption / failure injection -----------------------------------------------------------
@contextlib.contextmanager
def injected(variant: str, fail_at: int, st: Dict[str, Any]):
    """variant: 'crash'  interruption raised from the names rotate_logs itself calls (atomic_replace, os.remove)
                'fork'   same seam, the process dies (os._exit) — the caller runs this in a child
                'oserror' the fail_at-th file-system call fails with an OSError inside clematis.io.atomic
                          (os.replace) / rotate_logs (os.remove): the rotation stops with an error
       fail_at: 1-based index of the file-system call (remove / rename) that does not happen; 0 = none"""
    import clematis.scripts.rotate_logs as R
    import clematis.io.atomic as A
    real_os = os
    st.update({"n": 0, "failed": None, "calls": []})
    errs = [lambda: OSError(errno.EIO, "verif: I/O error"), lambda: OSError(errno.ENOSPC, "verif: no space"),
            lambda: PermissionError(errno.EACCES, "verif: permission denied")]

    def hit(kind: str, src) -> bool:
        st["n"] += 1
        st["calls"].append((kind, os.path.basename(str(src))))
        if fail_at and st["n"] == fail_at:
            st["failed"] = (kind, os.path.basename(str(src)))
            return True
        return False

    def die(kind):
        if variant == "fork":
            os._exit(77)
        if variant == "oserror":
            raise errs[st.get("errno_ix", 0) % 3]()
        raise _Interrupt()

    class ROs:                       # the `os` name of rotate_logs
        path = real_os.path

        def remove(self, p, *a, **k):
            if hit("remove", p):
                die("remove")
            return real_os.remove(p, *a, **k)

        unlink = remove

        def replace(self, s, d, *a, **k):
            if hit("rename", s):
                die("rename")
            return real_os.replace(s, d, *a, **k)

        rename = replace

        def __getattr__(self, n):
            return getattr(real_os, n)

    class AOs:                       # the `os` name of clematis.io.atomic (oserror variant)
        path = real_os.path

        def replace(self, s, d, *a, **k):
            if st.get("persist"):
                raise errs[2]()
            if hit("rename", s):
                if st.get("errno_ix", 0) % 3 == 2:
                    st["persist"] = True       # retryable error that never goes away: retries are exhausted
                die("rename")
            return real_os.replace(s, d, *a, **k)

        rename = replace

        def __getattr__(self, n):
            return getattr(real_os, n)

    class ATime:
        def sleep(self, s):
            st["sleeps"] = st.get("sleeps", 0) + 1

        def __getattr__(self, n):
            import time as _t
            return getattr(_t, n)

    saved_R = {k: R.__dict__.get(k) for k in ("os", "atomic_replace")}
    saved_A = {k: A.__dict__.get(k) for k in ("os", "time")}
    R.os = ROs()
    if variant == "oserror":
        A.os = AOs()
        A.time = ATime()
    else:
        real_ar = saved_R["atomic_replace"]
        if real_ar is not None:
            def ar(src, dst, *a, **k):
                if hit("rename", src):
                    die("rename")
                return real_ar(src, dst, *a, **k)
            R.atomic_replace = ar
    try:
        yield st
    finally:
        for k, v in saved_R.items():
            if v is None:
                R.__dict__.pop(k, None)
            else:
                R.__dict__[k] = v
        for k, v in saved_A.items():
            if v is None:
                A.__dict__.pop(k, None)
            else:
                A.__dict__[k] = v


def _rotate(path: str, n: int, variant: str, fail_at: int, errno_ix: int) -> Dict[str, Any]:
    import clematis.scripts.rotate_logs as R
    st: Dict[str, Any] = {"errno_ix": errno_ix}
    if variant == "fork":
        pid = os.fork()
        if pid == 0:
            code = 70
            try:
                with injected("fork", fail_at, st):
                    R.rotate_one(path, n)
                code = 0
            except BaseException:   # noqa
                code = 71
            finally:
                os._exit(code)
        _, status = os.waitpid(pid, 0)
        code = os.waitstatus_to_exitcode(status)
        return {"outcome": {0: "returned", 77: "interrupted"}.get(code, f"exit {code}"), "failed": None, "ret": None}
    ret = None
    outcome = "returned"
    with injected(variant, fail_at, st):
        try:
            with contextlib.redirect_stdout(io.StringIO()):
                ret = R.rotate_one(path, n)
        except _Interrupt:
            outcome = "interrupted"
        except OSError as e:
            outcome = "interrupted" if st["failed"] else f"raised {type(e).__name__}: {e}"
    return {"outcome": outcome, "failed": st["failed"], "ret": ret, "calls": st["calls"]}


# ---- clause predicates evaluated directly on (directory before, directory after) ---------------------
def _ids(d):
    return {x // 10 for x in d if x}


def judge_rotation(snap: List[int], real: List[int], n: int, complete: bool) -> Optional[Tuple[str, str]]:
    lost = _ids(snap) - _ids(real)
    allowed = {snap[n] // 10} if snap[n] else set()
    if not lost <= allowed:
        return ("RotationLosesOnlyOldest", f"generation(s) {sorted(lost - allowed)} lost; only the generation of slot {n} ({sorted(allowed)}) may go")
    for x in real:
        if x and x not in snap:
            return ("RotationLosesOnlyOldest", f"generation {x // 10} now has {x % 10} records (before: {[y % 10 for y in snap if y // 10 == x // 10]})")
    present = [x // 10 for x in real if x]
    if len(set(present)) != len(present):
        return ("RotationKeepsNewestN", f"a generation exists under two names: {real}")
    if any(a <= b for a, b in zip(present, present[1:])):
        return ("RotationKeepsNewestN", f"generations out of order: {real}")
    if real[n + 1:] != snap[n + 1:]:
        return ("RotationKeepsNewestN", f"generations beyond the retention window changed: {snap[n + 1:]} -> {real[n + 1:]}")
    if complete:
        if real[0] != 0 or any(real[k + 1] != snap[k] for k in range(n)):
            return ("RotationKeepsNewestN", f"after a complete rotation slots 1..{n} hold {real[1:n + 1]}, expected {snap[0:n]} (live file: {real[0]})")
    return None


def replay_rotate(case: Dict[str, Any]) -> List[Dict[str, Any]]:
    """case = {n, init, h, variant, workdir, idx}; -> findings [{clause, cause, msg, step}]"""
    import clematis.io.log as L
    n, init, h, variant = case["n"], case["init"], case["h"], case["variant"]
    m = len(init) - 1
    work = tempfile.mkdtemp(prefix="rot_", dir=case["workdir"])
    saved_dir = os.environ.get("CLEMATIS_LOG_DIR")
    saved_ci = os.environ.pop("CI", None)
    finds: List[Dict[str, Any]] = []
    try:
        os.environ["CLEMATIS_LOG_DIR"] = work
        base = os.path.join(work, BASE)
        for k, x in enumerate(init):
            if x:
                _write_gen(base if k == 0 else f"{base}.{k}", x // 10, x % 10)
        cur, probs = alpha(work, m)
        if cur != init or probs:
            return [{"clause": "Construct", "cause": "setup", "msg": f"initial directory {cur} {probs}, wanted {init}", "step": -1}]
        for step, op in enumerate(h):
            want = op["dir"]
            snap = cur
            what = op["op"]
            info = ""
            if what == "append":
                L.append_jsonl(BASE, {"gen": want[0] // 10, "k": want[0] % 10, "u": "é"})
            elif what == "compact":
                with open(base, "rb") as f:
                    recs = [json.loads(x) for x in f.read().split(b"\n") if x]
                L.rewrite_jsonl(BASE, recs)
            else:
                fail_at = 0 if op["complete"] else op["eff"] + 1
                r = _rotate(base, n, variant, fail_at, case.get("idx", 0) + step)
                info = f" [{variant}: {r['outcome']}, failed call {r['failed']}]"
                want_outcome = "returned" if op["complete"] else "interrupted"
                if r["outcome"] != want_outcome:
                    finds.append({"clause": "RotateConformance", "cause": "call-sequence-differs", "step": step,
                                  "msg": f"rotation {r['outcome']} where the model expects {want_outcome} at file-system call {fail_at}{info}"})
                    break
                if op["complete"] and r["ret"] is not True and variant != "fork":
                    finds.append({"clause": "RotateConformance", "cause": "return-value", "step": step,
                                  "msg": f"rotate_one returned {r['ret']!r} after rotating an existing file"})
            cur, probs = alpha(work, m)
            if probs:
                finds.append({"clause": "RotationLosesOnlyOldest" if what == "rotate" else "CompactionPreservesRecords",
                              "cause": "unexpected-directory-entry", "step": step, "msg": f"after {what}: {probs}"})
                break
            if cur == want:
                continue
            # ---- the real directory differs from the spec's: which clause, which class ----
            if what == "rotate":
                j = judge_rotation(snap, cur, n, op["complete"])
                cause = "differs-from-documented-cascade"
                if j and variant == "oserror" and not op["complete"] and r["failed"] and r["failed"][0] == "rename":
                    src = r["failed"][1]
                    k = 0 if src == BASE else int(src.rsplit(".", 1)[1])
                    patched = list(want)
                    patched[k] = 0
                    if patched == cur:
                        cause = "failed-rename-unlinks-source"
                clause = j[0] if j else "RotateConformance"
                finds.append({"clause": clause, "cause": cause, "step": step,
                              "msg": f"backups={n}, directory {snap} (gen*10+records per slot; slot 0 = live file), rotation "
                                     f"{'completed' if op['complete'] else 'stopped at file-system call ' + str(op['eff'] + 1)}{info}: "
                                     f"directory is {cur}, spec says {want}" + (f" — {j[1]}" if j else "")})
            elif what == "compact":
                finds.append({"clause": "CompactionPreservesRecords", "cause": "records-changed", "step": step,
                              "msg": f"rewrite_jsonl of the live file: directory {snap} -> {cur}, spec says {want}"})
            else:
                finds.append({"clause": "NoLossNoDuplication", "cause": "append-after-rotation", "step": step,
                              "msg": f"append: directory {snap} -> {cur}, spec says {want}"})
            break
        return finds
    finally:
        if saved_dir is None:
            os.environ.pop("CLEMATIS_LOG_DIR", None)
        else:
            os.environ["CLEMATIS_LOG_DIR"] = saved_dir
        if saved_ci is not None:
            os.environ["CI"] = saved_ci
        shutil.rmtree(work, ignore_errors=True)


def natural_failed_rename(workdir: str) -> Dict[str, Any]:
    """no injection at all: the live file's name is 253 characters long, so `name.9` is a legal file name
    (255 = NAME_MAX) and `name.10` is not: with backups=10 the cascade step name.9 -> name.10 fails with
    ENAMETOOLONG.  Which generations survive?"""
    import clematis.scripts.rotate_logs as R
    work = tempfile.mkdtemp(prefix="rotnat_", dir=workdir)
    try:
        stem = "x" * 247
        base = os.path.join(work, stem + ".jsonl")
        _write_gen(base, 3, 1)
        _write_gen(base + ".9", 2, 1)

        def gens():
            out = {}
            for nm in sorted(os.listdir(work)):
                with open(os.path.join(work, nm), "rb") as f:
                    out[nm.replace(stem, "<247 x>")] = sorted({json.loads(x)["gen"] for x in f.read().split(b"\n") if x})
            return out
        before = gens()
        err = None
        try:
            R.rotate_one(base, 10)
        except OSError as e:
            err = f"{type(e).__name__} errno {e.errno}: {e.strerror}"
        after = gens()
        have = {g for v in after.values() for g in v}
        return {"backups": 10, "before": before, "after": after, "error": err,
                "lost": sorted(g for v in before.values() for g in v if g not in have)}
    finally:
        shutil.rmtree(work, ignore_errors=True)


# ---- compaction on rich records (rewrite_jsonl) --------------------------------------------------------
def compaction_case(args) -> List[Tuple[str, str]]:
    workdir, seed, k, ci = args
    import clematis.io.log as L
    from clematis.engine.util.io_logging import normalize_for_identity
    from ..util import rng
    r = rng(seed, "compact", k)
    work = tempfile.mkdtemp(prefix="cmp_", dir=workdir)
    saved_dir = os.environ.get("CLEMATIS_LOG_DIR")
    saved_ci = os.environ.get("CI")
    fails: List[Tuple[str, str]] = []
    try:
        os.environ["CLEMATIS_LOG_DIR"] = work
        if ci:
            os.environ["CI"] = "true"
        else:
            os.environ.pop("CI", None)
        stream = r.choice(["turn.jsonl", "t1.jsonl", "apply.jsonl", "health.jsonl", "scheduler.jsonl", "t3_reflection.jsonl", "misc.jsonl"])

        def val(depth=0):
            x = r.random()
            if x < 0.2:
                return r.randrange(-10 ** 12, 10 ** 12)
            if x < 0.35:
                return r.choice([0.0, 1.5, -2.25, 1e-9, 123456.789, 1e300])
            if x < 0.45:
                return r.choice([None, True, False])
            if x < 0.75 or depth > 2:
                return "".join(r.choice("aé✓😀 \n\r\t\"\\/\x00\x7fß\u2028\u2029\x85\x0b\x0c\x1c\x1d\x1e") for _ in range(r.randrange(0, 12)))
            if x < 0.88:
                return [val(depth + 1) for _ in range(r.randrange(0, 4))]
            return {r.choice(["b", "a", "é", "ms", "now", "", "z.z"]): val(depth + 1) for _ in range(r.randrange(0, 4))}

        recs = []
        for i in range(r.randrange(0, 12)):
            rec = {"turn": i, "agent": r.choice(["A", "Bé"])}
            for f in r.sample(["ms", "now", "durations_ms", "yielded", "slice_idx", "zeta", "alpha", "é"], r.randrange(0, 6)):
                rec[f] = {"ms": 3.25, "now": "2026", "durations_ms": {"t1": 1.0, "total": 2.0}, "yielded": r.choice([True, False]),
                          "slice_idx": r.randrange(0, 3)}.get(f, val())
            items = list(rec.items())
            r.shuffle(items)
            recs.append(dict(items))
        # the declared interface is Iterable[dict]: a list, a tuple and one-shot iterables (generator, iterator, map)
        given = copy_of(recs)
        shape = ["list", "generator", "tuple", "iterator", "map"][k % 5]
        if shape == "generator":
            given = (x for x in given)
        elif shape == "tuple":
            given = tuple(given)
        elif shape == "iterator":
            given = iter(given)
        elif shape == "map":
            given = map(dict, given)
        L.rewrite_jsonl(stream, given)
        p = os.path.join(work, stream)
        with open(p, "rb") as f:
            data = f.read()
        extra = [x for x in os.listdir(work) if x != stream]
        if extra:
            fails.append(("CompactionPreservesRecords", f"stray files after rewrite: {extra}"))
        if data and not data.endswith(b"\n") or b"\r" in data:
            fails.append(("OneCompleteLinePerRecord", "rewritten file is not LF-terminated / contains CR"))
        try:
            got = _parse_lines(data)
        except ValueError as e:
            fails.append(("OneCompleteLinePerRecord", f"{stream} CI={ci}: rewritten file has a line that is not a complete JSON document ({e}); {len(recs)} records written"))
            return fails
        want = [normalize_for_identity(stream, copy_of([x])[0]) for x in recs]
        if json.dumps(got, sort_keys=True) != json.dumps(want, sort_keys=True):
            bad = next((i for i, (a, b) in enumerate(zip(got, want)) if json.dumps(a, sort_keys=True) != json.dumps(b, sort_keys=True)), min(len(got), len(want)))
            fails.append(("CompactionPreservesRecords", f"{stream} CI={ci} (records given as a {shape}): {len(got)} records read back for {len(want)} written; first difference at #{bad}: "
                                                        f"{got[bad] if bad < len(got) else None!r} vs {want[bad] if bad < len(want) else None!r}"))
        if len(data.split(b"\n")) - 1 != len(recs):
            fails.append(("OneCompleteLinePerRecord", f"{len(data.split(chr(10).encode())) - 1} lines for {len(recs)} records"))
        # compaction of the compacted file is the identity on bytes
        L.rewrite_jsonl(stream, got)
        with open(p, "rb") as f:
            data2 = f.read()
        if data2 != data:
            fails.append(("CompactionPreservesRecords", f"{stream}: compacting the compacted file changed its bytes"))
        # compaction of what the appender wrote preserves the appended records
        st2 = "c16_cmp_" + stream
        for x in recs:
            L.append_jsonl(st2, copy_of([x])[0])
        p2 = os.path.join(work, st2)
        if recs:
            try:
                with open(p2, "rb") as f:
                    appended = _parse_lines(f.read())
                L.rewrite_jsonl(st2, appended)
                with open(p2, "rb") as f:
                    again = _parse_lines(f.read())
            except ValueError as e:
                fails.append(("OneCompleteLinePerRecord", f"{st2}: appended-then-compacted file has a line that is not a complete JSON document ({e})"))
                return fails
            if json.dumps(again, sort_keys=True) != json.dumps(appended, sort_keys=True) or len(again) != len(recs):
                fails.append(("CompactionPreservesRecords", f"{st2}: records appended then compacted differ"))
        return fails
    finally:
        if saved_dir is None:
            os.environ.pop("CLEMATIS_LOG_DIR", None)
        else:
            os.environ["CLEMATIS_LOG_DIR"] = saved_dir
        if saved_ci is None:
            os.environ.pop("CI", None)
        else:
            os.environ["CI"] = saved_ci
        shutil.rmtree(work, ignore_errors=True)


def _parse_lines(data: bytes):
    return [json.loads(x.decode("utf-8")) for x in data.split(b"\n") if x]


def copy_of(x):
    import copy
    return copy.deepcopy(x)
