"""C16, appender part: write-call observation, forced schedules (S->C), free-running thread / process
runs (C->S) for clematis.io.log.append_jsonl and the capture-aware entry points around it."""
from __future__ import annotations

import io
import json
import os
import sys
import threading
from typing import Any, Dict, List, Optional, Tuple

from ..util import rng

STREAM = "c16_stream.jsonl"          # not an identity stream: CI normalisation cannot touch it
UNIT = "aé✓😀 z\\\"\n\r\t\x00ß"   # multi-byte, astral, line separators, escapes, control chars
SIZES = [0, 40, 700, 5000, 9000, 70000, 262144]     # target pad sizes in characters (utf-8 bytes >= that)


class Diverged(Exception):
    pass


def pad(n: int) -> str:
    if n <= 0:
        return ""
    return (UNIT * (n // len(UNIT) + 1))[:n]


def size_of(seed: int, w: int, s: int, big: bool = True) -> int:
    r = rng(seed, "recsize", w, s).random()
    if not big:
        return SIZES[1]
    if r < 0.45:
        return SIZES[int(r * 100) % 3]
    if r < 0.8:
        return SIZES[3 + int(r * 100) % 2]
    return SIZES[5] if r < 0.92 else SIZES[6]


def record(w: int, s: int, n: int) -> Dict[str, Any]:
    return {"w": w, "s": s, "ms": 1.5, "now": "2026-01-01T00:00:00Z", "pad": pad(n),
            "nested": {"k": [1, 2.5, None, True, {"é": " "}]}, "n": n}


# ---- observation of the write calls of the real appender ------------------------------------------
def _install_open(factory):
    """rebind `open` in the namespace of clematis.io.log; returns restore()"""
    import clematis.io.log as L
    had = "open" in L.__dict__
    old = L.__dict__.get("open")

    def open_proxy(path, mode="r", *a, **k):
        if "a" not in mode or "b" not in mode:
            raise Diverged(f"appender opens its file with mode {mode!r} (expected binary append)")
        return io.BufferedWriter(factory(path))

    L.open = open_proxy

    def restore():
        if had:
            L.open = old
        else:
            L.__dict__.pop("open", None)
    return restore


def observe_write_calls(logdir: str) -> Dict[int, int]:
    """-> {pad size: number of write calls on the O_APPEND descriptor for one record}"""
    import clematis.io.log as L
    os.environ["CLEMATIS_LOG_DIR"] = logdir
    calls: List[Tuple[int, int]] = []
    flags: List[int] = []

    class Counting(io.FileIO):
        def write(self, b):
            n = super().write(b)
            calls.append((len(b), n))
            return n

    def factory(path):
        f = Counting(path, "ab")
        import fcntl
        flags.append(fcntl.fcntl(f.fileno(), fcntl.F_GETFL))
        return f

    restore = _install_open(factory)
    out: Dict[int, int] = {}
    try:
        for n in SIZES:
            del calls[:]
            L.append_jsonl("c16_observe.jsonl", record(1, 1, n))
            out[n] = len(calls)
            if any(a != b for a, b in calls):
                out[n] = max(out[n], 2)          # a short write: the rest needs another call
    finally:
        restore()
    if not flags or any(v == 0 for v in out.values()):
        raise Diverged("the appender did not open/write through the `open` name of clematis.io.log")
    if not all(fl & os.O_APPEND for fl in flags):
        raise Diverged("the appender's descriptor is not O_APPEND")
    return out


# ---- parsing a log file into <<writer, seq, complete>> lines -----------------------------------------
def parse_file(path: str, expect) -> List[List[int]]:
    try:
        with open(path, "rb") as f:
            data = f.read()
    except FileNotFoundError:
        return []
    segs = data.split(b"\n")
    last_terminated = data.endswith(b"\n")
    if last_terminated:
        segs.pop()
    lines: List[List[int]] = []
    for k, seg in enumerate(segs):
        ok = False
        w = s = 0
        if k < len(segs) - 1 or last_terminated:
            try:
                obj = json.loads(seg.decode("utf-8"))
                w, s = int(obj["w"]), int(obj["s"])
                ok = (obj == expect(w, s)) and b"\r" not in seg
            except Exception:
                ok = False
        lines.append([w, s, 1] if ok else [0, 0, 0])
    return lines


# ---- writers ---------------------------------------------------------------------------------------
def _writer_loop(mode: int, w: int, nr: int, recf, fname: str) -> None:
    """mode 0: clematis.io.log.append_jsonl; 1: orchestrator.logging.append_jsonl;
    2: LogMux capture of blocks of records, flushed in order after the capture (logmux.flush);
    3: logmux.write_or_buffer without an active mux (write-through)"""
    import clematis.io.log as L
    box: Dict[str, Any] = {}

    def reused(d):
        """the writer keeps ONE dict object and refills it for every record: what was appended is the content at
        the time of the call, whatever happens to the object afterwards (append_jsonl copies before buffering)"""
        box.clear()
        box.update(d)
        return box
    if mode == 0:
        for s in range(1, nr + 1):
            L.append_jsonl(fname, reused(recf(w, s)) if s % 2 else recf(w, s))
    elif mode == 1:
        from clematis.engine.orchestrator import logging as OL
        for s in range(1, nr + 1):
            OL.append_jsonl(fname, recf(w, s))
    elif mode == 2:
        from clematis.engine.util import logmux as MX
        s = 1
        while s <= nr:
            blk = list(range(s, min(nr, s + 3) + 1))
            mux = MX.LogMux()
            with MX.use_mux(mux):
                for i, q in enumerate(blk):
                    if i % 2 == 0:
                        L.append_jsonl(fname, reused(recf(w, q)))
                    else:
                        MX.write_or_buffer(fname, recf(w, q))
            MX.flush(mux.dump())
            s = blk[-1] + 1
    else:
        from clematis.engine.util import logmux as MX
        for s in range(1, nr + 1):
            MX.write_or_buffer(fname, recf(w, s))


def long_capture_run(logdir: str, tag: str, nr: int) -> List[int]:
    """ONE LogMux capture that holds nr records of one writer (a stage that logs a lot inside one compute phase), flushed
    after the capture; returns the sequence numbers in file order (must be 1..nr)"""
    import clematis.io.log as L
    from clematis.engine.util import logmux as MX
    os.environ["CLEMATIS_LOG_DIR"] = logdir
    fname = f"{STREAM[:-6]}_{tag}.jsonl"
    mux = MX.LogMux()
    with MX.use_mux(mux):
        for s in range(1, nr + 1):
            if s % 2:
                L.append_jsonl(fname, {"w": 1, "s": s})
            else:
                MX.write_or_buffer(fname, {"w": 1, "s": s})
    MX.flush(mux.dump())
    out: List[int] = []
    with open(os.path.join(logdir, fname), "rb") as f:
        for line in f.read().split(b"\n"):
            if line:
                try:
                    out.append(int(json.loads(line)["s"]))
                except Exception:   # noqa: BLE001
                    out.append(-1)
    return out


def thread_run(logdir: str, tag: str, nw: int, nr: int, seed: int) -> Dict[str, Any]:
    os.environ["CLEMATIS_LOG_DIR"] = logdir
    fname = f"{STREAM[:-6]}_{tag}.jsonl"
    recf = lambda w, s: record(w, s, size_of(seed, w, s))
    bar = threading.Barrier(nw)
    errs: List[str] = []

    def body(w):
        try:
            bar.wait(30)
            _writer_loop((w - 1) % 4, w, nr, recf, fname)
        except BaseException as e:   # noqa
            errs.append(f"writer {w}: {type(e).__name__}: {e}")

    old = sys.getswitchinterval()
    sys.setswitchinterval(1e-6)
    try:
        ts = [threading.Thread(target=body, args=(w,), name=f"c16w{w}") for w in range(1, nw + 1)]
        for t in ts:
            t.start()
        for t in ts:
            t.join(300)
    finally:
        sys.setswitchinterval(old)
    if errs or any(t.is_alive() for t in ts):
        raise Diverged(f"thread run failed: {errs[:3]}")
    lines = parse_file(os.path.join(logdir, fname), recf)
    return {"kind": "threads", "nw": nw, "nr": nr, "seed": seed, "tag": tag, "lines": lines}


def process_run(logdir: str, tag: str, nw: int, nr: int, seed: int) -> Dict[str, Any]:
    os.environ["CLEMATIS_LOG_DIR"] = logdir
    fname = f"{STREAM[:-6]}_{tag}.jsonl"
    recf = lambda w, s: record(w, s, size_of(seed, w, s))
    import clematis.io.log  # noqa: imported before the fork
    from clematis.engine.orchestrator import logging as _ol  # noqa
    rfd, wfd = os.pipe()
    pids = []
    for w in range(1, nw + 1):
        pid = os.fork()
        if pid == 0:
            code = 1
            try:
                os.close(wfd)
                os.read(rfd, 1)            # start gate: returns when the parent closes the pipe
                _writer_loop((w - 1) % 4, w, nr, recf, fname)
                code = 0
            finally:
                os._exit(code)
        pids.append(pid)
    os.close(rfd)
    os.close(wfd)
    bad = []
    for pid in pids:
        _, st = os.waitpid(pid, 0)
        if os.waitstatus_to_exitcode(st) != 0:
            bad.append(pid)
    if bad:
        raise Diverged(f"{len(bad)} writer processes failed")
    lines = parse_file(os.path.join(logdir, fname), recf)
    return {"kind": "processes", "nw": nw, "nr": nr, "seed": seed, "tag": tag, "lines": lines}


# ---- forced schedules (S->C): TLC's order of write calls imposed on the real appender -----------------
def forced_run(logdir: str, tag: str, nw: int, nr: int, chunks: int, sched: List[int], padn: int) -> List[List[int]]:
    """run nw real writer threads; the k-th write call that reaches the descriptor is made by
    writer sched[k] (others block inside the FileIO proxy until it is their turn)"""
    import clematis.io.log as L
    os.environ["CLEMATIS_LOG_DIR"] = logdir
    fname = f"{STREAM[:-6]}_{tag}.jsonl"
    recf = lambda w, s: record(w, s, padn)
    cond = threading.Condition()
    st = {"pos": 0, "err": None}
    tl = threading.local()

    class Gate(io.FileIO):
        def __init__(self, path, wid):
            super().__init__(path, "ab")
            self.wid = wid

        def write(self, b):
            with cond:
                ok = cond.wait_for(lambda: st["err"] or (st["pos"] < len(sched) and sched[st["pos"]] == self.wid), timeout=20)
                if not ok or st["err"]:
                    st["err"] = st["err"] or f"writer {self.wid} waited for its turn at position {st['pos']} of {sched}"
                    cond.notify_all()
                    raise Diverged(st["err"])
                n = super().write(b)
                if n != len(b):
                    st["err"] = "short write under a forced schedule"
                st["pos"] += 1
                cond.notify_all()
                return n

    restore = _install_open(lambda path: Gate(path, tl.wid))
    errs: List[str] = []

    def body(w):
        tl.wid = w
        try:
            for s in range(1, nr + 1):
                L.append_jsonl(fname, recf(w, s))
        except BaseException as e:   # noqa
            errs.append(f"{type(e).__name__}: {e}")
            with cond:
                st["err"] = st["err"] or str(e)
                cond.notify_all()

    try:
        ts = [threading.Thread(target=body, args=(w,)) for w in range(1, nw + 1)]
        for t in ts:
            t.start()
        for t in ts:
            t.join(60)
    finally:
        restore()
    if errs or st["err"] or st["pos"] != len(sched):
        raise Diverged(f"forced schedule {sched} could not be imposed: {errs[:2] or st['err']} (pos {st['pos']})")
    return parse_file(os.path.join(logdir, fname), recf)


# ---- clause evaluation in Python (used for signatures / replay; the verdict comes from TLC) -----------
def first_failing_clause(lines: List[List[int]], nw: int, nr: int) -> Optional[str]:
    if any(l[2] != 1 for l in lines):
        return "OneCompleteLinePerRecord"
    for w in range(1, nw + 1):
        q = [l[1] for l in lines if l[0] == w]
        if any(a > b for a, b in zip(q, q[1:])):
            return "PerWriterOrder"
    for w in range(1, nw + 1):
        q = sorted(l[1] for l in lines if l[0] == w)
        if q != list(range(1, nr + 1)):
            return "NoLossNoDuplication"
    if len(lines) != nw * nr:
        return "NoLossNoDuplication"
    return None
