"""X16 (extra, beyond the listed properties) — where logs / snapshots live, and the frontend log exporter.

(a) Paths.tla: decision table of clematis.io.paths (logs_dir, snapshots_dir, temp_root) over the states of the primary /
    legacy variables, the default location and CLEMATIS_TMP; every case x 3 spellings (absolute, relative to the cwd,
    through a symlink) is materialised under run.workdir and the real function called: returned path, what was created,
    raising, nothing else touched (decoy variables of the other family, decoy default locations).
(b) FrontendExport.tla: state = abstract content of a log directory + snapshot directory + options, result = abstract
    bundle.  Every case is materialised on disk; build_run_bundle is called in-process and compared field by field with
    the bundle the spec prescribes; main() is run twice (byte-identical output, canonical bytes, digest line, exit code,
    stdout / stderr, directory untouched except the output file); _snapshot_payload_from_info is called directly for the
    "info" cases; a sample goes through `python -m clematis export-logs` in a subprocess with relative paths.
    A random family (seeded by run.seed) widens the scope (more line kinds, CRLF, unicode, arbitrary caps, arbitrary perf
    file names) against the same oracle written in Python; on TLC's scope the Python oracle is compared with TLC's result.
"""
from __future__ import annotations

import contextlib
import hashlib
import io
import json
import os
import shutil
import subprocess
import sys
import tempfile
from pathlib import Path
from typing import Any, Dict, List, Optional, Tuple

from ..util import make_cfg, pmap, rng

MANIFEST = {"technique": "TLA+ decision tables (path resolution; log exporter over abstract directory contents) enumerated by TLC with the documented rules as invariants; "
                         "every case materialised on disk and replayed on clematis.io.paths and export_logs_for_frontend (in-process, main(), CLI subprocess sample); seeded random family against the same oracle",
            "text": "extra spec beyond the listed properties", "note": "not a listed property; run with ./check X16"}

PATH_CLAUSES = ["PrimaryWins", "LegacyOnlyWithoutPrimary", "EmptyIsUnset", "TempIsLastResort", "TmpVarRulesTemp", "RaisesOnlyOnFileInVariable",
                "CreatesOnDemandOnly", "SameVariableRuleForBoth"]
EXPORT_CLAUSES = ["ExitCodes", "NoSnapshotIsTwo", "StrictFailsIffSchemaInvalid", "NonStrictWarnsAndExports", "FailureWritesNothing", "MissingFileIsEmptyStream",
                  "HeadIsKept", "NoSilentLoss", "CapBounds", "PerfOnRequestOnly", "StrictOnlyGates", "LogsIndependentOfSnapshot"]

# the ten stage streams, in bundle order (spec header)
STREAMS = ["t1", "t2", "t3", "t3_plan", "t3_dialogue", "t3_reflection", "t3_filter", "t4", "apply", "turn"]
LOG_DECOYS = ["t5.jsonl", "t1.jsonl.1", "scheduler.jsonl", "turn.json", "z-perf.jsonl"]      # never read
CAPS_BODY = {"delta_norm_cap_l2": 1.5}
CAPS_OUT = {"delta_norm_cap_l2": 1.5, "novelty_cap_per_node": None, "churn_cap_edges": None, "weight_min": None, "weight_max": None}


def repo() -> str:
    return os.environ.get("VERIF_REPO", "/repo")


def _listing(d) -> set:
    out = set()
    for root, dirs, files in os.walk(d, followlinks=False):
        for n in dirs + files:
            out.add(os.path.relpath(os.path.join(root, n), d))
    return out


def _tree(d) -> Dict[str, str]:
    out = {}
    for root, _dirs, files in os.walk(d):
        for f in files:
            p = os.path.join(root, f)
            out[os.path.relpath(p, d)] = hashlib.sha256(open(p, "rb").read()).hexdigest()
    return out


def _call(fn, argv) -> Tuple[Any, str, str]:
    so, se = io.StringIO(), io.StringIO()
    with contextlib.redirect_stdout(so), contextlib.redirect_stderr(se):
        try:
            rc: Any = fn(list(argv))
        except SystemExit as e:
            rc = e.code
        except Exception as e:      # noqa: BLE001
            rc = f"raised {type(e).__name__}: {e}"
    return rc, so.getvalue(), se.getvalue()


# ----------------------------------------------------------------------------------------------------------------
# (a) paths
# ----------------------------------------------------------------------------------------------------------------
VARS = {"logs": ("CLEMATIS_LOG_DIR", "CLEMATIS_LOGS_DIR"), "snaps": ("CLEMATIS_SNAPSHOT_DIR", "CLEMATIS_SNAPSHOTS_DIR")}
ALLVARS = [v for pair in VARS.values() for v in pair] + ["CLEMATIS_TMP"]


def run_paths_case(case) -> List[Tuple[str, str]]:
    import clematis.io.paths as P
    i, o, spell = case["c"]["inp"], case["c"]["out"], case["spell"]
    root = Path(os.path.realpath(tempfile.mkdtemp(prefix="x16p_", dir=case["workdir"])))
    saved_env = {k: os.environ.get(k) for k in ALLVARS}
    saved_cwd, saved_td, saved_rr = os.getcwd(), tempfile.tempdir, P.repo_root
    where = f"{i['fn']}_dir: primary={i['primary']} legacy={i['legacy']} default={i['dflt']} CLEMATIS_TMP={i['tmpvar']} spelling {spell}"
    fails: List[Tuple[str, str]] = []
    try:
        cwd, rep, misc, tmpv, systmp = (root / n for n in ("cwd", "repo", "misc", "tmpv", "systmp"))
        for d in (cwd, rep, misc, tmpv, systmp):
            d.mkdir()
        os.symlink(misc, root / "link")
        fn = i["fn"]
        kind = "logs" if fn == "logs" else "snapshots"

        def mkvar(state: str, tag: str) -> Tuple[Optional[str], Optional[Path]]:
            if state == "unset":
                return None, None
            if state == "empty":
                return "", None
            base = misc / tag
            if state == "dir":
                p = base / "d"
                p.mkdir(parents=True)
            elif state == "new":
                base.mkdir()
                p = base / "n"
            elif state == "deep":
                p = base / "x" / "y"
            else:
                base.mkdir()
                p = base / "f"
                p.write_text("a regular file")
            s = str(p)
            if spell == 1:
                s = os.path.relpath(s, cwd)
            elif spell == 2:
                s = str(root / "link") + s[len(str(misc)):]
            return s, p

        for k in ALLVARS:
            os.environ.pop(k, None)
        sel_path: Dict[str, Optional[Path]] = {}
        if fn != "temp":
            for which, var in zip(("primary", "legacy"), VARS[fn]):
                val, p = mkvar(i[which], which)
                sel_path[which] = p
                if val is not None:
                    os.environ[var] = val
        # the other family's variables point at directories that must never be created
        for fam, pair in VARS.items():
            if fam != fn:
                for n, var in enumerate(pair):
                    os.environ[var] = str(misc / f"decoy_{fam}_{n}")
        # default locations (+ the ones of the other reading, which must not be chosen)
        if fn == "logs":
            (rep / ".logs").mkdir()                                  # README's "<repo>/.logs": not what the code does (DEVIATION)
            dflt = cwd / ".logs"
        else:
            (cwd / ".data" / "snapshots").mkdir(parents=True)        # under the cwd: not the repository root
            dflt = rep / ".data" / "snapshots"
        if fn != "temp":
            if i["dflt"] == "present":
                dflt.mkdir(parents=True)
            elif i["dflt"] == "blocked":
                dflt.parent.mkdir(parents=True, exist_ok=True)
                dflt.write_text("in the way")
        sel_path["cwd"] = sel_path["repo"] = dflt
        if i["tmpvar"] == "set":
            os.environ["CLEMATIS_TMP"] = str(tmpv)
        elif i["tmpvar"] == "empty":
            os.environ["CLEMATIS_TMP"] = ""
        tempfile.tempdir = str(systmp)
        P.repo_root = lambda: str(rep)
        os.chdir(cwd)
        sel_path["tmpvar"] = tmpv if fn == "temp" else tmpv / "clematis" / kind
        sel_path["systmp"] = systmp if fn == "temp" else systmp / "clematis" / kind
        before = _listing(root)
        env_before = {k: os.environ.get(k) for k in ALLVARS}
        f = {"logs": P.logs_dir, "snaps": P.snapshots_dir, "temp": P.temp_root}[fn]
        got: Any = None
        raised = None
        try:
            got = f()
        except Exception as e:      # noqa: BLE001
            raised = f"{type(e).__name__}: {e}"
        after = _listing(root)
        new = after - before
        if {k: os.environ.get(k) for k in ALLVARS} != env_before:
            fails.append(("EnvironmentUntouched", f"{where}: the call changed the environment"))
        if bool(raised) != o["raised"]:
            return fails + [("RaisesOnlyOnFileInVariable", f"{where}: {'raised ' + raised if raised else 'returned ' + str(got)}, spec raised={o['raised']} sel={o['sel']}")]
        if raised:
            if new:
                fails.append(("CreatesOnDemandOnly", f"{where}: the failing call created {sorted(new)}"))
            return fails
        want = sel_path[o["sel"]]
        assert want is not None
        if not isinstance(got, Path) or got != want:
            clause = {"primary": "PrimaryWins", "legacy": "LegacyOnlyWithoutPrimary", "tmpvar": "TmpVarRulesTemp", "systmp": "TempIsLastResort"}.get(o["sel"], "DefaultLocation")
            if isinstance(got, Path) and got in (sel_path.get("tmpvar"), sel_path.get("systmp")) and o["sel"] not in ("tmpvar", "systmp"):
                clause = "TempIsLastResort"
            if i["primary"] == "empty" or i["legacy"] == "empty" or i["tmpvar"] == "empty":
                clause = clause if got in sel_path.values() and clause != "DefaultLocation" else "EmptyIsUnset"
            return fails + [(clause, f"{where}: returned {got!r}, spec {o['sel']} = {want}")]
        if fn != "temp":
            if not got.is_absolute() or not got.is_dir():
                fails.append(("ReturnedDirectoryExists", f"{where}: returned {got} which is {'not absolute' if not got.is_absolute() else 'not a directory'}"))
            rel = os.path.relpath(want, root)
            was_new = rel not in before
            if was_new != o["created"]:
                fails.append(("CreatesOnDemandOnly", f"{where}: directory {'was' if was_new else 'was not'} missing before the call, spec created={o['created']}"))
            chain = set()
            p = want
            while p != root:
                r = os.path.relpath(p, root)
                if r not in before:
                    chain.add(r)
                p = p.parent
            if new != chain:
                fails.append(("CreatesOnDemandOnly", f"{where}: the call created {sorted(new)}, spec exactly {sorted(chain)}"))
        elif new:
            fails.append(("CreatesOnDemandOnly", f"{where}: temp_root created {sorted(new)}"))
        return fails
    finally:
        os.chdir(saved_cwd)
        tempfile.tempdir = saved_td
        P.repo_root = saved_rr
        for k, v in saved_env.items():
            if v is None:
                os.environ.pop(k, None)
            else:
                os.environ[k] = v
        shutil.rmtree(root, ignore_errors=True)


# ----------------------------------------------------------------------------------------------------------------
# (b) exporter: plans (concrete directory contents), the oracle in Python, materialisation, replay
# ----------------------------------------------------------------------------------------------------------------
def render(name: str, j: int, kind: str, eol: int) -> Tuple[str, Any]:
    """text of line j of stream `name` (without the line terminator) and the entry it must become"""
    if kind == "ok":
        obj = {"j": j, "s": name, "u": "é✓", "z": None, "a": [1, {"b": 0.5}]} if j % 3 else {"s": name, "j": j}
        txt = json.dumps(obj, ensure_ascii=bool(j % 2))
        if j % 4 == 2:
            txt = "  " + txt + " \t"
        return txt, obj
    if kind == "scalar":
        v: Any = [j, None, "x"] if j % 3 == 0 else (f"str {j} é" if j % 3 == 1 else j * 1.5)
        return json.dumps(v), v
    if kind == "bad":
        txt = [f'{{"j": {j}, "s": "{name}"', f"not json {j} é", f"{{'j': {j}}}", f"[{j},]"][j % 4]
        lead = "  " if j % 2 else ""
        return lead + txt, {"_raw": txt}
    return ["", "   ", "\t"][j % 3], None     # blank


def file_text(name: str, kinds: List[str], eol: int) -> str:
    parts = []
    for j, k in enumerate(kinds, 1):
        txt, _ = render(name, j, k, eol)
        term = "\n" if eol == 0 else ("\r\n" if (eol + j) % 2 else "\n")
        parts.append(txt + term)
    s = "".join(parts)
    if eol % 3 == 2 and s.endswith("\n") and kinds and kinds[-1] != "blank":
        s = s.rstrip("\r\n")        # last line without terminator
    return s


def py_read(kinds: List[str], cap: Optional[int]) -> List[Tuple[str, int]]:
    """ReadLines of the spec"""
    ent = [(k, j) for j, k in enumerate(kinds, 1) if k != "blank"]
    if cap is None:
        return ent
    return ent[:max(cap, 1)]            # D1


def py_result(plan) -> Dict[str, Any]:
    """Result of the spec, on plans"""
    s = plan["snap"]
    info = "noinfo" if s["kind"] != "body" else ("nosv" if s["bodysv"] == "absent" else s["bodysv"])
    if info == "noinfo":
        return {"rc": 2, "nwarn": 1}
    if info != "v1" and plan["strict"]:
        return {"rc": 2, "nwarn": 1}
    logs = {n: (py_read(plan["streams"][n], plan["cap"]) if plan["streams"].get(n) is not None else []) for n in STREAMS}
    perf = None
    if plan["incperf"]:
        perf = {}
        if plan["perfdir"] == "present":
            for fn in sorted(plan["perffiles"]):
                if "/" not in fn and fn.endswith("-perf.jsonl"):
                    perf[fn] = py_read(plan["perffiles"][fn], plan["cap"])
    return {"rc": 0, "nwarn": 0 if info == "v1" else 1, "logs": logs, "perf": perf,
            "snapshot": {"sv": "" if info == "nosv" else info, "nodes": s["n"] if s["shape"] != "absent" else -1, "edges": s["e"] if s["shape"] != "absent" else -1}}


def plan_from_tlc(i) -> Dict[str, Any]:
    present = set(i["present"] or [])
    content = i["content"]
    plan = {"streams": {n: (list(content[k] or []) if (k + 1) in present else None) for k, n in enumerate(STREAMS)},
            "cap": i["cap"]["n"] if i["cap"]["set"] else None,
            "perfdir": "absent" if i["perf"] == "absent" else "present",
            "perffiles": {} if i["perf"] != "files" else {"a-perf.jsonl": list(i["plines"] or []), "b-perf.jsonl": ["ok"], "c.jsonl": ["ok"], "d-perf.json": ["ok"],
                                                          "sub/e-perf.jsonl": ["ok"]},
            "incperf": bool(i["incperf"]), "snap": dict(i["snap"]), "strict": bool(i["strict"]), "eol": 0}
    return plan


def tlc_projection(want: Dict[str, Any]) -> Dict[str, Any]:
    """the Python oracle's result in the shape of the spec's `out` (for the agreement check on TLC's scope)"""
    if want["rc"] != 0:
        return {"rc": 2, "nwarn": want["nwarn"]}
    return {"rc": 0, "nwarn": want["nwarn"], "logs": [[{"kind": k, "i": j} for k, j in want["logs"][n]] for n in STREAMS],
            "hasperf": want["perf"] is not None,
            "perf": [{"key": k, "entries": [{"kind": kk, "i": j} for kk, j in v]} for k, v in (want["perf"] or {}).items()],
            "snapshot": want["snapshot"]}


def tlc_out_projection(o) -> Dict[str, Any]:
    if o["rc"] != 0:
        return {"rc": o["rc"], "nwarn": o["nwarn"]}
    return {"rc": 0, "nwarn": o["nwarn"], "logs": [[{"kind": r["kind"], "i": r["i"]} for r in (s or [])] for s in o["logs"]],
            "hasperf": o["hasperf"], "perf": [{"key": p["key"], "entries": [{"kind": r["kind"], "i": r["i"]} for r in (p["entries"] or [])]} for p in (o["perf"] or [])],
            "snapshot": {k: o["snapshot"][k] for k in ("sv", "nodes", "edges")}}


def _snap_body(etag: str, bodysv: str, shape: str, n: int, e: int) -> Dict[str, Any]:
    body: Dict[str, Any] = {"version_etag": etag, "store": {}, "t4_caps": dict(CAPS_BODY)}
    if bodysv != "absent":
        body["schema_version"] = bodysv
    if shape == "maps":
        nodes = {f"n{k}": {"id": f"n{k}"} for k in range(n)}
        edges = {f"n0→x{k}": {"id": f"n0→x{k}", "src": "n0", "dst": f"x{k}", "weight": 0.5, "rel": "coact"} for k in range(e)}
        body["gel"] = {"nodes": nodes, "edges": edges, "meta": {"schema": "v1.1", "merges": [], "splits": [], "promotions": [], "concept_nodes_count": 0}}
        body["graph_schema_version"] = "v1.1"
    return body


LAYOUT = {"single": ("state_A.json", None), "numbered": ("snap_10.json", "snap_9.json"), "numvsstate": ("snap_1.json", "state_A.json"),
          "twostate": ("state_B.json", "state_A.json")}
OLD, NEW = 1_600_000_000, 1_700_000_000


def materialise(plan, d: str) -> Optional[str]:
    """writes d/logs and d/snaps; returns the path of the snapshot file that is the latest one (None if there is none)"""
    logs = os.path.join(d, "logs")
    os.makedirs(logs)
    eol = plan.get("eol", 0)
    for n in STREAMS:
        kinds = plan["streams"].get(n)
        if kinds is not None:
            with open(os.path.join(logs, n + ".jsonl"), "w", encoding="utf-8", newline="") as fh:
                fh.write(file_text(n, kinds, eol))
    for n in LOG_DECOYS:
        with open(os.path.join(logs, n), "w", encoding="utf-8") as fh:
            fh.write(json.dumps({"decoy": n}) + "\n")
    if plan["perfdir"] == "present":
        os.makedirs(os.path.join(logs, "perf"))
        for fn, kinds in plan["perffiles"].items():
            p = os.path.join(logs, "perf", fn)
            os.makedirs(os.path.dirname(p), exist_ok=True)
            with open(p, "w", encoding="utf-8", newline="") as fh:
                fh.write(file_text(fn, kinds, eol))
    s = plan["snap"]
    snaps = os.path.join(d, "snaps")
    if s["kind"] == "nodir":
        return None
    os.makedirs(snaps)
    open(os.path.join(snaps, "notes.txt"), "w").write("not a snapshot")
    if s["kind"] == "none":
        return None
    main, decoy = LAYOUT[s["layout"]]
    p = os.path.join(snaps, main)
    if s["kind"] == "garbage":
        open(p, "w").write("\x00not json at all{{")
    elif s["kind"] == "empty":
        open(p, "w").write("{}")
    else:
        json.dump(_snap_body("7", s["bodysv"], s["shape"], s["n"], s["e"]), open(p, "w"))
    if s["side"] != "absent":
        json.dump({"schema_version": s["side"], "created_at": "2025-09-01T00:00:00Z"}, open(p + ".meta", "w"))
    if decoy:
        q = os.path.join(snaps, decoy)
        json.dump(_snap_body("decoy", "v1", "maps", 7, 1), open(q, "w"))
        # numvsstate: the state_* decoy is NEWER than the numbered one; twostate: the decoy is older
        os.utime(q, (NEW, NEW) if s["layout"] == "numvsstate" else (OLD, OLD))
        os.utime(p, (OLD, OLD) if s["layout"] == "numvsstate" else (NEW, NEW))
    return p


def expected_bundle(plan, want, d: str, snap_path: Optional[str]) -> Dict[str, Any]:
    def ents(name, lst):
        return [render(name, j, k, 0)[1] for k, j in lst]
    s = plan["snap"]
    snap: Dict[str, Any] = {}
    if want["snapshot"]["sv"]:
        snap["schema_version"] = want["snapshot"]["sv"]
    snap["version_etag"] = "7"
    if want["snapshot"]["nodes"] != -1:
        snap["nodes"] = want["snapshot"]["nodes"]
        snap["edges"] = want["snapshot"]["edges"]
    if s["shape"] == "maps":
        snap["graph_schema_version"] = "v1.1"
    snap["caps"] = dict(CAPS_OUT)
    snap["path"] = snap_path
    b: Dict[str, Any] = {"meta": {"tool": "clematis-export-logs", "schema": "v1", "stages": [n + ".jsonl" for n in STREAMS],
                                  "logs_dir": os.path.join(d, "logs"), "snapshots_dir": os.path.join(d, "snaps")},
                         "snapshot": snap, "logs": {n: ents(n, want["logs"][n]) for n in STREAMS}}
    if want["perf"] is not None:
        b["perf"] = {k: ents(k, v) for k, v in want["perf"].items()}
    return b


def _diff_clause(plan, got: Dict[str, Any], exp: Dict[str, Any]) -> Tuple[str, str]:
    if set(got) != set(exp):
        if ("perf" in got) != ("perf" in exp):
            return "PerfOnRequestOnly", f"bundle keys {sorted(got)}, spec {sorted(exp)}"
        return "BundleShape", f"bundle keys {sorted(got)}, spec {sorted(exp)}"
    if got.get("meta") != exp["meta"]:
        return "BundleShape", f"meta {got.get('meta')}, spec {exp['meta']}"
    if got.get("logs") != exp["logs"]:
        gl = got.get("logs") or {}
        if list(gl) != list(exp["logs"]):
            return "MissingFileIsEmptyStream", f"log keys {list(gl)}, spec {list(exp['logs'])}"
        for n in STREAMS:
            if gl[n] != exp["logs"][n]:
                full = [render(n, j, k, 0)[1] for k, j in py_read(plan["streams"].get(n) or [], None)]
                if plan["streams"].get(n) is None:
                    c = "MissingFileIsEmptyStream"
                elif gl[n] != full[:len(gl[n])]:
                    c = "HeadIsKept" if plan["cap"] is not None and len(gl[n]) == len(exp["logs"][n]) else "NoSilentLoss"
                else:
                    c = "CapBounds" if plan["cap"] is not None else "NoSilentLoss"
                return c, f"stream {n} (lines {plan['streams'].get(n)}, cap {plan['cap']}): {json.dumps(gl[n], ensure_ascii=False)[:300]}, spec {json.dumps(exp['logs'][n], ensure_ascii=False)[:300]}"
    if got.get("perf") != exp.get("perf"):
        return "PerfOnRequestOnly", f"perf {json.dumps(got.get('perf'), ensure_ascii=False)[:300]}, spec {json.dumps(exp.get('perf'), ensure_ascii=False)[:300]}"
    return "SnapshotSummary", f"snapshot {got.get('snapshot')}, spec {exp['snapshot']}"


def _where(plan) -> str:
    st = {n: "".join({"ok": "o", "bad": "x", "blank": "_", "scalar": "s"}[k] for k in v) if v is not None else None for n, v in plan["streams"].items()}
    st = {n: v for n, v in st.items() if v is not None}
    return (f"logs {st} cap={plan['cap']} perf={plan['perfdir']}:{sorted(plan['perffiles'])} include_perf={plan['incperf']} eol={plan.get('eol', 0)} "
            f"snapshot={plan['snap']} strict={plan['strict']}")


def run_export_case(case) -> List[Tuple[str, str]]:
    import clematis.scripts.export_logs_for_frontend as X
    plan, want, variant = case["plan"], case["want"], case.get("variant", 0)
    fails: List[Tuple[str, str]] = []
    where = _where(plan)
    if "tlc" in case:           # the Python oracle and the spec agree on TLC's scope
        a, b = tlc_projection(want), tlc_out_projection(case["tlc"])
        if a != b:
            return [("__machinery__", f"{where}: python oracle {a} differs from the spec's result {b}")]
    d = os.path.realpath(tempfile.mkdtemp(prefix="x16e_", dir=case["workdir"]))
    saved = {k: os.environ.get(k) for k in ("CLEMATIS_LOG_DIR", "CLEMATIS_LOGS_DIR")}
    try:
        snap_path = materialise(plan, d)
        logs, snaps, outd = (os.path.join(d, n) for n in ("logs", "snaps", "out"))
        before, before_l = _tree(d), _listing(d)
        os.environ["CLEMATIS_LOG_DIR"] = os.path.join(d, "deflogs")
        os.environ.pop("CLEMATIS_LOGS_DIR", None)
        # 1. build_run_bundle
        try:
            bundle, warns, rc = X.build_run_bundle(logs_dir=logs, snapshots_dir=snaps, include_perf=plan["incperf"], strict=plan["strict"], max_stage_entries=plan["cap"])
        except Exception as e:      # noqa: BLE001
            return [("ExporterTotal", f"{where}: build_run_bundle raised {type(e).__name__}: {e}")]
        found = plan["snap"]["kind"] == "body"
        if rc != want["rc"]:
            clause = "NoSnapshotIsTwo" if not found else ("StrictFailsIffSchemaInvalid" if plan["strict"] else "NonStrictWarnsAndExports")
            return [(clause, f"{where}: build_run_bundle rc {rc} (warnings {warns}), spec {want['rc']}")]
        if len(warns) != want["nwarn"] or not all(isinstance(w, str) and w for w in warns):
            fails.append(("NonStrictWarnsAndExports" if rc == 0 else "FailureWritesNothing", f"{where}: warnings {warns}, spec {want['nwarn']} of them"))
        exp: Dict[str, Any] = {}
        if rc != 0:
            if bundle != {}:
                fails.append(("FailureWritesNothing", f"{where}: rc 2 with a non-empty bundle {str(bundle)[:200]}"))
        else:
            exp = expected_bundle(plan, want, d, snap_path)
            if bundle != exp:
                fails.append(_diff_clause(plan, bundle, exp))
                fails[-1] = (fails[-1][0], f"{where}: {fails[-1][1]}")
        if _listing(d) != before_l or _tree(d) != before:
            fails.append(("ReadOnly", f"{where}: build_run_bundle changed the directories: {sorted(_listing(d) ^ before_l)}"))
        if fails:
            return fails
        # 2. main(), twice
        pretty, nosort = bool(variant & 1), bool(variant & 2)
        opts = (["--include-perf"] if plan["incperf"] else []) + (["--strict"] if plan["strict"] else []) + (["--pretty"] if pretty else []) + \
               (["--no-sort-keys"] if nosort else []) + ([f"--max-stage-entries={plan['cap']}"] if plan["cap"] is not None else [])
        outs = []
        for k in (1, 2):
            op = os.path.join(outd, "deep" if k == 2 else "", f"b{k}.json")
            r, so, se = _call(X.main, ["--logs-dir", logs, "--snapshots-dir", snaps, "--out", op] + opts)
            if isinstance(r, str):
                return [("ExporterTotal", f"{where}: main {r}")]
            if r != want["rc"]:
                return [("ExitCodes", f"{where}: main exits {r}, build_run_bundle returned {rc}, spec {want['rc']}")]
            if r != 0:
                if os.path.exists(op) or os.path.exists(outd):
                    fails.append(("FailureWritesNothing", f"{where}: exit 2 but {op} / its directory was written"))
                if so.strip() != "SnapshotError: no valid snapshot found" or se.strip():      # D3
                    fails.append(("FailureMessage", f"{where}: exit 2 with stdout {so!r} stderr {se!r}; spec: the one line 'SnapshotError: no valid snapshot found' on stdout"))
                continue
            if not os.path.isfile(op):
                return [("OutputWritten", f"{where}: exit 0 but {op} does not exist")]
            raw = open(op, "rb").read()
            outs.append(raw)
            if so.strip() != f"Exported bundle: {op} (sha256={hashlib.sha256(raw).hexdigest()})":
                fails.append(("DigestLine", f"{where}: stdout {so.strip()!r} does not name {op} with the sha256 of its bytes"))
            wl = [ln for ln in se.splitlines() if ln.strip()]
            if len(wl) != want["nwarn"] or not all(ln.startswith("[warn] ") for ln in wl):
                fails.append(("NonStrictWarnsAndExports", f"{where}: stderr {se!r}, spec {want['nwarn']} '[warn] ' lines"))
            try:
                parsed = json.loads(raw.decode("utf-8"))
            except Exception as e:      # noqa: BLE001
                return fails + [("OutputIsJson", f"{where}: {op} is not UTF-8 JSON: {e}")]
            if parsed != exp:
                c, m = _diff_clause(plan, parsed, exp)
                fails.append((c, f"{where}: the written file differs from the bundle: {m}"))
            if b"\r\n" in raw:
                fails.append(("CanonicalBytes", f"{where}: CR LF in the output"))
            if not nosort:
                canon = (json.dumps(exp, indent=2, sort_keys=True, ensure_ascii=False) if pretty else json.dumps(exp, separators=(",", ":"), sort_keys=True, ensure_ascii=False)).encode("utf-8")
                if raw != canon:
                    fails.append(("CanonicalBytes", f"{where}: output (pretty={pretty}) is not the canonical sorted-key rendering of the bundle: starts {raw[:120]!r}, canonical {canon[:120]!r}"))
            elif list(parsed) != ["meta", "snapshot", "logs"] + (["perf"] if plan["incperf"] else []) or list(parsed["logs"]) != STREAMS:
                fails.append(("CanonicalBytes", f"{where}: --no-sort-keys: top-level keys {list(parsed)}, log keys {list(parsed['logs'])}"))
        if len(outs) == 2 and outs[0] != outs[1]:
            fails.append(("ByteDeterministic", f"{where}: two runs over the same directories wrote different bytes"))
        after = _tree(d)
        extra = {k for k in after if k not in before} | {k for k in before if after.get(k) != before[k]}
        allowed = {os.path.join("out", "b1.json"), os.path.join("out", "deep", "b2.json")} if want["rc"] == 0 else set()
        if extra != allowed:
            fails.append(("OnlyTheOutputFileIsWritten", f"{where}: files written / changed {sorted(extra)}, spec {sorted(allowed)}"))
        newdirs = {p for p in _listing(d) - before_l if os.path.isdir(os.path.join(d, p))}
        if not newdirs <= {"out", os.path.join("out", "deep"), "deflogs"}:      # D4: the default logs directory is created as a side effect
            fails.append(("OnlyTheOutputFileIsWritten", f"{where}: directories created {sorted(newdirs)}"))
        # 3. the umbrella CLI in a subprocess, relative paths, default logs dir = <cwd>/.logs (D4)
        if case.get("cli") and not fails:
            env = {k: v for k, v in os.environ.items() if not k.startswith("CLEMATIS_")}
            env.update({"PYTHONPATH": repo(), "PYTHONHASHSEED": str(1 + variant)})
            cmd = [sys.executable, "-m", "clematis", "export-logs", "--", "--logs-dir", "logs", "--snapshots-dir", "./snaps/", "--out", "out/b1.json"] + opts
            p = subprocess.run(cmd, cwd=d, env=env, capture_output=True, timeout=300)
            if p.returncode != want["rc"]:
                fails.append(("ExitCodes", f"{where}: `python -m clematis export-logs` exits {p.returncode} (stderr {p.stderr[-300:]!r}), spec {want['rc']}"))
            elif want["rc"] == 0:
                raw = open(os.path.join(outd, "b1.json"), "rb").read()
                if raw != outs[0]:
                    fails.append(("ByteDeterministic", f"{where}: the CLI subprocess (relative paths, another PYTHONHASHSEED) wrote other bytes than main() in-process"))
                if hashlib.sha256(raw).hexdigest().encode() not in p.stdout:
                    fails.append(("DigestLine", f"{where}: CLI stdout {p.stdout!r}"))
            elif p.stdout.decode().strip() != "SnapshotError: no valid snapshot found":
                fails.append(("FailureMessage", f"{where}: CLI stdout {p.stdout!r}"))
            top = set(os.listdir(d))
            if not top <= {"logs", "snaps", "out", "deflogs", ".logs"} or (os.path.isdir(os.path.join(d, ".logs")) and os.listdir(os.path.join(d, ".logs"))):
                fails.append(("OnlyTheOutputFileIsWritten", f"{where}: after the CLI run the working directory holds {sorted(top)}"))
            if {k: v for k, v in _tree(d).items() if not k.startswith("out")} != before:
                fails.append(("ReadOnly", f"{where}: the CLI run changed the log / snapshot directories"))
        return fails
    finally:
        for k, v in saved.items():
            if v is None:
                os.environ.pop(k, None)
            else:
                os.environ[k] = v
        shutil.rmtree(d, ignore_errors=True)


def run_info_case(case) -> List[Tuple[str, str]]:
    """_snapshot_payload_from_info called directly"""
    import clematis.scripts.export_logs_for_frontend as X
    i, o = case["c"]["inp"], case["c"]["out"]
    st, strict = i["info"], i["strict"]
    d = os.path.realpath(tempfile.mkdtemp(prefix="x16i_", dir=case["workdir"]))
    where = f"_snapshot_payload_from_info(info={st}, strict={strict})"
    try:
        p = os.path.join(d, "state_A.json")
        if st == "garbage":
            open(p, "w").write("{{nope")
        elif st in ("nosv", "v0", "v1"):
            json.dump(_snap_body("7", "absent" if st == "nosv" else st, "maps", 2, 2), open(p, "w"))
        info = None if st == "noinfo" else {"path": p, "schema_version": "v1", "graph_schema_version": None, "version_etag": "7", "nodes": 2, "edges": 2,
                                            "last_update": None, "caps": dict(CAPS_OUT)}
        keep = json.dumps(info, sort_keys=True)
        try:
            snap, warns, rc = X._snapshot_payload_from_info(info, strict)
        except Exception as e:      # noqa: BLE001
            return [("ExporterTotal", f"{where}: raised {type(e).__name__}: {e}")]
        fails = []
        if rc != o["rc"]:
            fails.append(("NoSnapshotIsTwo" if st == "noinfo" else "StrictFailsIffSchemaInvalid" if strict else "NonStrictWarnsAndExports", f"{where}: rc {rc} warnings {warns}, spec rc {o['rc']}"))
        elif len(warns) != o["nwarn"]:
            fails.append(("NonStrictWarnsAndExports", f"{where}: warnings {warns}, spec {o['nwarn']} of them"))
        elif rc != 0 and snap != {}:
            fails.append(("FailureWritesNothing", f"{where}: rc 2 with payload {snap}"))
        elif rc == 0:
            exp = {"version_etag": "7", "nodes": 2, "edges": 2, "caps": dict(CAPS_OUT), "path": p}
            if o["snapshot"]["sv"]:
                exp["schema_version"] = o["snapshot"]["sv"]
            if snap != exp:
                fails.append(("SnapshotSummary", f"{where}: payload {snap}, spec {exp}"))
        if json.dumps(info, sort_keys=True) != keep:
            fails.append(("ReadOnly", f"{where}: the info record was changed"))
        return fails
    finally:
        shutil.rmtree(d, ignore_errors=True)


def random_plan(r) -> Dict[str, Any]:
    kinds = ["ok", "ok", "bad", "blank", "scalar"]
    streams = {n: ([r.choice(kinds) for _ in range(r.choice([0, 1, 2, 3, 5, 8]))] if r.random() < 0.7 else None) for n in STREAMS}
    pool = ["a-perf.jsonl", "B-perf.jsonl", "z-perf.jsonl", "m-perf.jsonl.bak", "perf.jsonl", "x-perf.json", "-perf.jsonl", "sub/q-perf.jsonl", "é-perf.jsonl"]
    perfdir = r.choice(["absent", "present", "present"])
    perffiles = {fn: [r.choice(kinds) for _ in range(r.choice([0, 1, 3, 6]))] for fn in r.sample(pool, r.randint(0, 5))} if perfdir == "present" else {}
    kind = r.choice(["body"] * 6 + ["nodir", "none", "garbage", "empty"])
    shape = r.choice(["maps", "absent"]) if kind == "body" else "absent"
    snap = {"kind": kind, "bodysv": r.choice(["absent", "v1", "v1", "v0"]) if kind == "body" else "absent", "side": "absent" if kind in ("nodir", "none") else r.choice(["absent", "v1"]),
            "shape": shape, "n": r.choice([0, 1, 4]) if shape == "maps" else 0, "e": r.choice([0, 3]) if shape == "maps" else 0,
            "layout": "single" if kind in ("nodir", "none") else r.choice(list(LAYOUT))}
    return {"streams": streams, "cap": r.choice([None, None, -3, 0, 1, 2, 3, 7, 100]), "perfdir": perfdir, "perffiles": perffiles, "incperf": r.random() < 0.6,
            "snap": snap, "strict": r.random() < 0.4, "eol": r.randint(0, 5)}


# ----------------------------------------------------------------------------------------------------------------
def _record(run, label: str, cases, results, key_of, witness_of, replay_of, family: str) -> None:
    for c, fails in zip(cases, results):
        run.traces += 1
        run.case((family, key_of(c)))
        if fails and fails[0][0] == "__machinery__":
            from ..tlc import TLCError
            raise TLCError("X16: " + fails[0][1])
        if not fails:
            run.ok(label)
        for clause, msg in fails:
            run.fail(clause, {"clause": clause, "family": family}, witness_of(c), msg, replay=replay_of(c))


def check(run) -> None:
    q = run.quick
    run.rule = ("every case of Paths.tla x 3 spellings replayed on clematis.io.paths; every case of FrontendExport.tla materialised and replayed on build_run_bundle, main() twice, "
                "_snapshot_payload_from_info, a sample through the CLI subprocess; seeded random directories against the same oracle; distinct = (family, case)")
    # (a)
    cfg = make_cfg({}, PATH_CLAUSES, [], emit=False, view=None, constraint="EmitCase")
    res = run.tlc("Paths", cfg, name="Paths", workers=4, timeout_s=300)
    run.model_must_hold(res)
    if len(res.emitted) != 2 * 6 * 6 * 3 * 3 + 3:
        from ..tlc import TLCError
        raise TLCError(f"Paths enumerated {len(res.emitted)} cases, expected 651")
    pcases = [{"c": c, "spell": s, "workdir": run.workdir} for c in res.emitted for s in (0, 1, 2)]
    _record(run, "Paths.conforms", pcases, pmap(run_paths_case, pcases, chunk=16), lambda c: json.dumps([c["c"]["inp"], c["spell"]], sort_keys=True),
            lambda c: {"inp": c["c"]["inp"], "spell": c["spell"]}, lambda c: {"paths": {"c": c["c"], "spell": c["spell"]}}, "paths")
    run.sample({"paths_case": pcases[len(pcases) // 3]["c"]}, cap=1)
    # (b)
    consts = {"MaxLines": 3 if q else 4, "Caps": [0, 1, 3] if q else [0, 1, 2, 3, 4, 7], "Counts": [0, 2] if q else [0, 1, 3]}
    cfg = make_cfg(consts, EXPORT_CLAUSES, [], emit=False, view=None, constraint="EmitCase")
    res = run.tlc("FrontendExport", cfg, name="FrontendExport", workers=8, timeout_s=1500)
    run.model_must_hold(res)
    ecases, icases = [], []
    ncli = 0
    step = max(1, len(res.emitted) // (24 if q else 120))
    for k, c in enumerate(res.emitted):
        if c["inp"]["mode"] == "info":
            icases.append({"c": c, "workdir": run.workdir})
            continue
        plan = plan_from_tlc(c["inp"])
        rich_snap = c["inp"]["snap"]["layout"] != "single" or c["inp"]["snap"]["kind"] != "body"
        cli = (k % step == 0) or (rich_snap and k % 17 == 0 and not q)
        ncli += cli
        ecases.append({"plan": plan, "want": py_result(plan), "tlc": c["out"], "variant": k % 4, "cli": cli, "workdir": run.workdir})
    if not icases or len(ecases) < 1000:
        from ..tlc import TLCError
        raise TLCError(f"FrontendExport enumerated {len(ecases)} bundle cases and {len(icases)} info cases")
    _record(run, "FrontendExport.conforms", ecases, pmap(run_export_case, ecases, chunk=32), lambda c: json.dumps(c["plan"], sort_keys=True),
            lambda c: c["plan"], lambda c: {"export": {k: v for k, v in c.items() if k != "workdir"}}, "export")
    _record(run, "FrontendExport.payload_from_info", icases, [run_info_case(c) for c in icases], lambda c: json.dumps(c["c"]["inp"], sort_keys=True),
            lambda c: c["c"]["inp"], lambda c: {"info": c["c"]}, "info")
    r = rng(run.seed, "x16")
    rcases = []
    for k in range(600 if q else 6000):
        plan = random_plan(r)
        rcases.append({"plan": plan, "want": py_result(plan), "variant": k % 4, "cli": k % (60 if q else 150) == 0, "workdir": run.workdir})
    _record(run, "FrontendExport.random_conforms", rcases, pmap(run_export_case, rcases, chunk=16), lambda c: json.dumps(c["plan"], sort_keys=True),
            lambda c: c["plan"], lambda c: {"export": {k: v for k, v in c.items() if k != "workdir"}}, "random")
    run.sample({"export_case": {"plan": ecases[len(ecases) // 2]["plan"], "want_rc": ecases[len(ecases) // 2]["want"]["rc"]}, "cli_subprocess_cases": ncli}, cap=2)
    run.exhaustive = True
    run.assumptions += ["log files are UTF-8 text; lines are JSON values, malformed text or blank", "the snapshot file is the legacy single-JSON form the writer produces",
                        "paths: clematis.io.paths.repo_root and tempfile.tempdir are pointed at scratch directories (the real repository root is never written)"]


def replay(rep) -> int:
    wd = "/verif/.work/X16"
    os.makedirs(wd, exist_ok=True)
    r = rep["replay"]
    if "paths" in r:
        fails = run_paths_case(dict(r["paths"], workdir=wd))
    elif "info" in r:
        fails = run_info_case({"c": r["info"], "workdir": wd})
    else:
        c = dict(r["export"], workdir=wd)
        c["want"] = py_result(c["plan"])
        fails = run_export_case(c)
    for f in fails:
        print(": ".join(f))
    if fails:
        print(f"VIOLATION property=X16 replay={rep.get('_path', '?')}")
        return 1
    print("replay: conforms")
    return 0
