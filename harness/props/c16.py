"""C16 — log streams stay well-formed, ordered and lossless.

(M)    LogAppend.tla   all interleavings of the write calls of 2-3 concurrent appenders on an O_APPEND file,
                       with the number of write calls per record *observed* on the real appender;
       Normalise.tla   stream x field presence x CI flag x yielded truthiness -> which fields change;
       Stager.tla      faithful model of the documented staging mechanism (byte bound, back-pressure ->
                       drain sorted -> flush -> retry once) over arrival sequences x sizes x limits 1..12;
       Rotate.tla      numeric-suffix rotation over directories with gaps / generations beyond N,
                       histories of appends, compactions and rotations interrupted at any step.
(S->C)  every complete interleaving is *forced* on the real appender through a blocking FileIO proxy;
       every Normalise case through normalize_for_identity and the on-disk writers; every Stager case on
       the real LogStager driven by the commit-phase loop of orchestrator/parallel.py under every limit;
       every Rotate history on the real rotate_one / append_jsonl / rewrite_jsonl in a scratch
       directory (interruption = exception at the k-th file-system call, fork + _exit, failing rename).
(C->S)  free-running 8-thread and 4-process runs (records up to 256 KiB, unicode) parsed into
       Final(lines) events and validated by TLC against LogAppendTrace.tla.
"""
from __future__ import annotations

import json
import os
import pickle
import shutil
from typing import Any, Dict, List, Tuple

from .. import tlc as _tlc
from ..tlc import TLCError
from ..util import Def, make_cfg, pmap, split_defs

MANIFEST = {
    "technique": "TLA+ specs of the appender (write-call interleavings on an O_APPEND file), the CI normalisation rule, the staging/back-pressure mechanism and numeric-suffix rotation model-checked exhaustively with TLC; every enumerated interleaving/case/history replayed on the real code (forced schedules through a blocking FileIO proxy, real LogStager under every limit, real rotate_one with interruptions at every file-system call); free-running thread/process runs validated against the appender spec by TLC",
    "text": "Exhaustive model checking of four small specifications — concurrent appenders at write-call granularity (one complete line per record, per-writer order, no loss/duplication), identity normalisation (only volatile fields of identity streams, idempotent), staging with a byte bound (drain sorted, flush order independent of the limit) and rotation/compaction histories with gaps, generations beyond N and interruptions between any two renames (keeps the newest N in order, loses only the oldest, compaction preserves records) — bound to the code by forcing every TLC interleaving on the real appender, replaying every enumerated case/history on normalize_for_identity, LogStager (documented drain/flush/retry loop), rotate_one, append_jsonl and rewrite_jsonl, and by TLC trace validation of the files produced by real 8-thread / 4-process runs with records up to 256 KiB.",
    "note": "Small scope: 2-3 writers x 2-3 records for forced schedules; arrival sequences <= 5 over 12 keys (full key alphabet up to length 3, narrowed key/size alphabets for length 4-5), sizes 1..3 units, limits 1..12; rotation histories <= 3-4 operations, backups 1..3. Line atomicity rests on the kernel's O_APPEND guarantee for a single write call on a local file system (observed: one call per record); short writes by the kernel are not injected. Interruption = process death or a failing call (no power-loss semantics). A real staging mechanism that flushes at other points than the documented one is reported as StagerConformance even when the ordering clauses still hold.",
}

FULL_STREAMS = ["t1.jsonl", "t2.jsonl", "t3_plan.jsonl", "t3_dialogue.jsonl", "t4.jsonl", "apply.jsonl", "health.jsonl",
                "turn.jsonl", "scheduler.jsonl", "t3_reflection.jsonl", "c16_unknown_stream.jsonl"]



# ------------------------------------------------------------------------------------------------
# TLC jobs in forked children (the parent stays single-threaded so that it can fork workers itself)
# ------------------------------------------------------------------------------------------------
class Jobs:
    def __init__(self, run):
        self.run = run
        self.pids: Dict[str, Tuple[int, str, str]] = {}

    def start(self, name: str, module: str, consts: Dict[str, Any], invariants=(), *, emit=False, view="View",
              constraint=None, workers=4, timeout_s=900, expect_violation=False) -> None:
        cfg = make_cfg(consts, invariants, [], emit=emit, view=view, constraint=constraint)
        out = os.path.join(self.run.workdir, f"job_{name}.pkl")
        pid = os.fork()
        if pid == 0:
            code = 1
            try:
                os.setsid()          # own process group: abort() can take the JVM down with the child
                try:
                    res = _tlc.run_tlc(module, cfg, self.run.workdir, name=name, workers=workers, timeout_s=timeout_s,
                                       defs=split_defs(consts), seed=self.run.seed, expect_violation=expect_violation)
                    res.text = ""
                    payload = ("ok", res)
                except BaseException as e:   # noqa
                    payload = ("err", f"{type(e).__name__}: {e}")
                with open(out, "wb") as f:
                    pickle.dump(payload, f)
                code = 0
            finally:
                os._exit(code)
        self.pids[name] = (pid, out, module)

    def get(self, name: str) -> _tlc.TLCResult:
        pid, out, module = self.pids.pop(name)
        os.waitpid(pid, 0)
        try:
            with open(out, "rb") as f:
                kind, res = pickle.load(f)
        except Exception as e:
            raise TLCError(f"TLC job {name} left no result: {e}")
        if kind != "ok":
            raise TLCError(f"TLC job {name}: {res}")
        run = self.run
        run.states += res.distinct
        run.transitions += res.generated
        run.tlc_runs.append({"module": module, "name": name, "cmd": res.cmd, "generated": res.generated,
                             "distinct": res.distinct, "diameter": res.diameter, "wall_s": round(res.wall_s, 2),
                             "emitted": len(res.emitted), "timed_out": res.timed_out,
                             "violation": (res.violation or {}).get("name")})
        return res

    def abort(self) -> None:
        for name, (pid, _o, _m) in list(self.pids.items()):
            for kill in (lambda: os.killpg(pid, 9), lambda: os.kill(pid, 9)):
                try:
                    kill()
                except Exception:
                    pass
            try:
                os.waitpid(pid, 0)
            except Exception:
                pass
        self.pids.clear()


class Reporter:
    """at most `cap` witnesses per signature go into run.fail (smallest first); the rest is counted"""

    def __init__(self, run, cap=3):
        self.run = run
        self.cap = cap
        self.seen: Dict[str, int] = {}
        self.suppressed: set = set()

    def fail(self, clause, sig, witness, msg, replay):
        key = json.dumps(dict(sig, clause=clause), sort_keys=True)
        self.seen[key] = self.seen.get(key, 0) + 1
        if self.seen[key] <= self.cap or key in self.suppressed:
            # a listed open finding is counted in full by the run (nothing is stored for it)
            if self.run.fail(clause, sig, witness, msg, replay=replay):
                self.suppressed.add(key)
        else:
            self.run.clauses[clause] += 1

    def summary(self) -> Dict[str, int]:
        return dict(self.seen)


# ------------------------------------------------------------------------------------------------
# part A: appender
# ------------------------------------------------------------------------------------------------
def _append_part(run, jobs: Jobs, rep: Reporter, chunks: int, by_size: Dict[int, int]) -> None:
    from . import c16_append as A
    q = run.quick
    logdir = os.path.join(run.workdir, "append_logs")
    os.makedirs(logdir, exist_ok=True)
    # ---- (C->S) free-running real writers, files parsed into Final(lines) ----
    results = []
    for k in range(run.pick(2, 6)):
        results.append(A.process_run(logdir, f"p{k}", 4, run.pick(40, 120), run.seed * 1000 + k))
    for k in range(run.pick(2, 6)):
        results.append(A.thread_run(logdir, f"t{k}", 8, run.pick(40, 100), run.seed * 1000 + 100 + k))
    traces = []
    for tid, r in enumerate(results, 1):
        traces.append({"tid": tid, "ev": [{"op": "final", "nw": r["nw"], "nr": r["nr"], "lines": r["lines"]}]})
    # negative controls: torn line, swapped lines of one writer, lost line, duplicated line
    base = {"nw": 3, "nr": 4}                      # synthetic well-formed file: 3 writers x 4 records, round-robin
    ls = [[w, q, 1] for q in range(1, 5) for w in range(1, 4)]
    i1 = next(i for i, l in enumerate(ls) if l[0] == 1 and l[1] == 1)
    i2 = next(i for i, l in enumerate(ls) if l[0] == 1 and l[1] == 2)
    swapped = list(ls)
    swapped[i1], swapped[i2] = swapped[i2], swapped[i1]
    controls = {
        -1: ("OneCompleteLinePerRecord", ls[:5] + [[0, 0, 0], [0, 0, 0]] + ls[6:]),
        -2: ("PerWriterOrder", swapped),
        -3: ("NoLossNoDuplication", ls[:7] + ls[8:]),
        -4: ("NoLossNoDuplication", ls[:4] + [ls[3]] + ls[4:]),
    }
    traces.append({"tid": -5, "ev": [{"op": "final", "nw": 3, "nr": 4, "lines": ls}]})      # positive control
    for tid, (_c, lines) in controls.items():
        traces.append({"tid": tid, "ev": [{"op": "final", "nw": base["nw"], "nr": base["nr"], "lines": lines}]})
    v = run.validate_traces("LogAppendTrace", {"W": 1, "R": 1, "Chunks": 1}, traces, name="LogAppendTrace")
    if v[-5][0] != "ok":
        raise TLCError(f"positive control for LogAppendTrace rejected: {v[-5]}")
    for tid, (want, _l) in controls.items():
        if v[tid][0] != want:
            raise TLCError(f"negative control {tid} for LogAppendTrace got verdict {v[tid]}, expected {want}")
        run.ok("Append.negative_control_rejected")
    for tid, r in enumerate(results, 1):
        run.traces += 1
        run.case(("append.free", r["kind"], r["tag"]))
        verdict, _pos = v[tid]
        if verdict == "ok":
            run.ok("OneCompleteLinePerRecord")
            run.ok("PerWriterOrder")
            run.ok("NoLossNoDuplication")
            run.ok(f"Append.{r['kind']}_trace_accepted")
        else:
            bad = [l for l in r["lines"] if l[2] != 1][:3]
            rep.fail(verdict, {"cause": f"free-running-{r['kind']}"},
                     {"kind": r["kind"], "writers": r["nw"], "records": r["nr"], "lines": len(r["lines"]), "bad": bad},
                     f"{r['nw']} real {r['kind']} x {r['nr']} records: the file violates {verdict} ({len(r['lines'])} lines, first bad {bad})",
                     {"family": "append.free", "kind": r["kind"], "nw": r["nw"], "nr": r["nr"], "seed": r["seed"]})
    # one long capture of a single writer (sizes around powers of two and well beyond)
    for nr in ([1024, 1025, 5000] if q else [255, 256, 1023, 1024, 1025, 4096, 4097, 65536, 70000]):
        got = A.long_capture_run(logdir, f"long{nr}", nr)
        run.traces += 1
        run.case(("append.long_capture", nr))
        if got == list(range(1, nr + 1)):
            run.ok("PerWriterOrder.long_capture")
        else:
            k = next((i for i, x in enumerate(got) if x != i + 1), len(got))
            clause = "NoLossNoDuplication" if sorted(got) != list(range(1, nr + 1)) else "PerWriterOrder"
            rep.fail(clause, {"cause": "long-mux-capture"}, {"records": nr, "lines": len(got), "first_bad_line": k, "head": got[:5]},
                     f"one LogMux capture of {nr} records: file line {k} holds record {got[k] if k < len(got) else None} (head of file {got[:4]}, {len(got)} lines)",
                     {"family": "append.long", "nr": nr})
    run.sample({"family": "append.free", "kind": results[0]["kind"], "writers": results[0]["nw"], "records_per_writer": results[0]["nr"],
                "first_lines": results[0]["lines"][:8], "max_record_bytes": 262144 * 2})
    # ---- (M) + (S->C): every complete interleaving of the write calls, forced on the real appender ----
    grids = [(2, 2), (3, 2), (2, 3)] + ([] if q else [(3, 3)])
    if chunks >= 2:
        grids = [(2, 2)] + ([] if q else [(2, 3)])
    padn = min(n for n, c in by_size.items() if c == chunks) if chunks > 1 else A.SIZES[1]
    forced = 0
    for (w, r) in grids:
        res = jobs.get(f"LogAppend_w{w}_r{r}")
        if chunks == 1:
            run.model_must_hold(res)
        scheds = res.emitted
        if not scheds:
            raise TLCError(f"LogAppend_w{w}_r{r} emitted no interleaving")
        for k, sc in enumerate(scheds):
            real = A.forced_run(logdir, f"f{w}{r}_{k}", w, r, chunks, sc["sched"], padn)
            run.traces += 1
            forced += 1
            run.case(("append.forced", w, r, chunks, tuple(sc["sched"])))
            clause = A.first_failing_clause(real, w, r)
            if real == sc["lines"] and clause is None:
                run.ok("OneCompleteLinePerRecord")
                run.ok("PerWriterOrder")
                run.ok("NoLossNoDuplication")
                run.ok("Append.forced_schedule_conforms")
                continue
            if clause is None:
                # the model predicts a torn file, the real file is fine: the model misrepresents the code
                run.notes.append(f"forced schedule {sc['sched']}: model predicts {sc['lines']}, real file is well-formed")
                run.ok("Append.forced_schedule_wellformed_despite_model")
                continue
            torn = any(l[2] != 1 for l in sc["lines"])
            rep.fail(clause, {"cause": "record-needs-multiple-write-calls" if (torn and chunks > 1) else "forced-schedule"},
                     {"writers": w, "records": r, "write_calls_per_record": chunks, "schedule": sc["sched"], "real_lines": real, "model_lines": sc["lines"]},
                     f"{w} writers x {r} records, {chunks} write call(s) per record, kernel order of the calls {sc['sched']}: real file parses to {real}",
                     {"family": "append.forced", "w": w, "r": r, "chunks": chunks, "sched": sc["sched"], "pad": padn})
        run.sample({"family": "append.forced", "writers": w, "records": r, "schedule": scheds[len(scheds) // 2]["sched"]})
    run.extra["forced_schedules"] = forced
    # non-vacuity of the model: two write calls per record must admit the torn line
    res2 = jobs.get("LogAppend_two_calls")
    if res2.violation is None or res2.violation["name"] != "OneCompleteLinePerRecord":
        raise TLCError("LogAppend with Chunks=2 should violate OneCompleteLinePerRecord")
    run.ok("Model.torn_line_counterexample_found")


# ------------------------------------------------------------------------------------------------
# part B: normalisation
# ------------------------------------------------------------------------------------------------
def _normalise_part(run, jobs: Jobs, rep: Reporter) -> None:
    from . import c16_stager as S
    res = jobs.get("Normalise")
    run.model_must_hold(res)
    cases = res.emitted
    if len(cases) != res.distinct:
        run.notes.append(f"Normalise: emitted {len(cases)} of {res.distinct} cases")
    outs = pmap(S.replay_normalise, cases)
    for case, fails in zip(cases, outs):
        run.traces += 1
        run.case(("normalise", json.dumps(case["c"], sort_keys=True)))
        if not fails:
            run.ok("NormaliseOnlyVolatile")
            run.ok("NormaliseIdempotent")
        for clause, msg in fails:
            rep.fail(clause, {"cause": "normalize_for_identity", "stream": case["c"]["stream"], "ci": case["c"]["ci"]}, case,
                     f"{case['c']['stream']} CI={case['c']['ci']}: {msg}", {"family": "normalise", "case": case})
    disk = S.replay_normalise_disk((run.workdir, cases))
    bad = {i for i, _c, _m in disk}
    for i, clause, msg in disk:
        rep.fail(clause, {"cause": "on-disk-writer", "stream": cases[i]["c"]["stream"], "ci": cases[i]["c"]["ci"]}, cases[i],
                 f"{cases[i]['c']['stream']} CI={cases[i]['c']['ci']}: {msg}", {"family": "normalise", "case": cases[i]})
    run.traces += 3 * len(cases)
    run.ok("NormaliseOnlyVolatile.on_disk", 3 * (len(cases) - len(bad)))
    run.sample({"family": "normalise", "case": next(c for c in cases if c["c"]["ci"] and c["c"]["stream"] == "turn.jsonl" and c["c"]["yielded"] == "one" and c["c"]["slice"] == "s2")})


# ------------------------------------------------------------------------------------------------
# part C: staging
# ------------------------------------------------------------------------------------------------
def stager_configs(q: bool) -> List[Tuple[str, Dict[str, Any]]]:
    lim = Def("1..12")
    if q:
        return [
            ("A12", {"MinLen": 1, "MaxLen": 2, "Turns": [1, 2], "Ords": [3, 10, 99], "Slices": [0, 1], "Sizes": [1, 2, 3], "Limits": lim, "AdmitOversize": True}),
            ("A3", {"MinLen": 3, "MaxLen": 3, "Turns": [1, 2], "Ords": [1, 6, 9], "Slices": [0, 1], "Sizes": [1, 3], "Limits": lim, "AdmitOversize": True}),
            ("B4", {"MinLen": 4, "MaxLen": 4, "Turns": [1, 2], "Ords": [5, 8], "Slices": [0], "Sizes": [1, 2], "Limits": lim, "AdmitOversize": True}),
            ("B5", {"MinLen": 5, "MaxLen": 5, "Turns": [1, 2], "Ords": [6], "Slices": [0], "Sizes": [1, 2, 3], "Limits": lim, "AdmitOversize": True}),
        ]
    return [
        ("A13", {"MinLen": 1, "MaxLen": 3, "Turns": [1, 2], "Ords": [1, 6, 9], "Slices": [0, 1], "Sizes": [1, 2, 3], "Limits": lim, "AdmitOversize": True}),
        ("A13b", {"MinLen": 1, "MaxLen": 3, "Turns": [1, 2], "Ords": [3, 10, 99], "Slices": [0, 1], "Sizes": [1, 3], "Limits": lim, "AdmitOversize": True}),
        ("A4a", {"MinLen": 4, "MaxLen": 4, "Turns": [1, 2], "Ords": [2, 5, 8], "Slices": [0, 1], "Sizes": [1], "Limits": lim, "AdmitOversize": True}),
        ("A4b", {"MinLen": 4, "MaxLen": 4, "Turns": [1, 2], "Ords": [5, 8], "Slices": [0, 1], "Sizes": [1, 2], "Limits": lim, "AdmitOversize": True}),
        ("B5", {"MinLen": 5, "MaxLen": 5, "Turns": [1, 2], "Ords": [4, 7], "Slices": [0], "Sizes": [1, 2], "Limits": lim, "AdmitOversize": True}),
        ("C5", {"MinLen": 5, "MaxLen": 5, "Turns": [1, 2], "Ords": [6], "Slices": [0, 1], "Sizes": [1, 2], "Limits": lim, "AdmitOversize": True}),
        ("D5", {"MinLen": 5, "MaxLen": 5, "Turns": [1], "Ords": [1, 6, 9], "Slices": [0], "Sizes": [1, 3], "Limits": lim, "AdmitOversize": True}),
    ]


STAGER_INVS = ["DrainSorted", "StagedAllFlushedOnce", "FlushOrderIndependentOfLimit_Monotone", "RetryAlwaysSucceeds", "RetrySucceeds"]


def _stager_part(run, jobs: Jobs, rep: Reporter) -> None:
    from . import c16_stager as S
    S.calibrate(range(1, 4))
    run.extra["stager_payload_pads"] = dict(S._PADS)
    # limit-independence for arbitrary arrivals is refuted by TLC on the faithful model (then sought on the real
    # code below: the open finding); the control model of a stager that refuses an over-sized record also when
    # empty must refute RetryAlwaysSucceeds (non-vacuity of that invariant)
    for name, inv, what in (("Stager_hyp_limit_independent", "FlushOrderIndependentOfLimit", "refuted_on_faithful_model"),
                            ("Stager_control_refusing_oversize", "RetryAlwaysSucceeds", "refuted_on_control_model")):
        r = jobs.get(name)
        if r.violation is None or r.violation["name"] != inv:
            raise TLCError(f"{name}: expected TLC to refute {inv}")
        run.ok(f"Model.{inv}_{what}")
    total = 0
    nonmono = indep_fail_cases = oversize_runs = 0
    for cname, consts in stager_configs(run.quick):
        res = jobs.get(f"Stager_{cname}")
        run.model_must_hold(res)
        cases = res.emitted
        if 2 * len(cases) != res.distinct:
            run.notes.append(f"Stager_{cname}: emitted {len(cases)} cases for {res.distinct} states")
        disk_root = os.path.join(run.workdir, f"stager_disk_{cname}")
        for k, c in enumerate(cases):
            if k % 97 == 0:
                c["disk"] = os.path.join(disk_root, str(k))
        outs = pmap(S.replay_stager, cases)
        shutil.rmtree(disk_root, ignore_errors=True)
        nl = 12
        for c, finds in zip(cases, outs):
            run.traces += nl + 1
            total += 1
            run.case(("stager", cname, tuple(c["a"])))
            mono = bool(c["f"])
            nonmono += 0 if mono else 1
            failed = {f["clause"] for f in finds}
            by_l: Dict[int, set] = {}
            for f in finds:
                by_l.setdefault(f["L"], set()).add(f["clause"])
            okl = nl + 1 - len(by_l)
            run.ok("DrainSorted", nl + 1 - sum(1 for s in by_l.values() if "DrainSorted" in s))
            run.ok("FlushOrderIndependentOfLimit", nl + 1 - sum(1 for s in by_l.values() if "FlushOrderIndependentOfLimit" in s))
            if mono and "FlushOrderIndependentOfLimit" not in failed:
                run.ok("FlushOrderIndependentOfLimit.monotone_arrivals_verified")
            if "FlushOrderIndependentOfLimit" in failed:
                indep_fail_cases += 1
            for f in finds:
                if f["cause"] == "record-larger-than-limit":
                    oversize_runs += 1
                arr = [S.decode_rec(x) for x in c["a"]]
                rep.fail(f["clause"], {"cause": f["cause"]},
                         {"arrivals": [{"turn": r["t"], "stream": S.ORD2NAME[r["o"]], "slice": r["s"], "size_units": r["z"]} for r in arr],
                          "limit_units": f["L"], "unit_bytes": S.UNITB, "monotone_within_file": mono},
                         f["msg"], {"family": "stager", "case": {k: v for k, v in c.items() if k != "disk"}, "L": f["L"]})
        if cases:
            run.sample({"family": "stager", "config": cname, "case": {k: v for k, v in cases[len(cases) // 2].items() if k != "disk"}}, cap=12)
    run.extra["stager"] = {"cases": total, "non_monotone_cases": nonmono, "cases_with_limit_dependent_order": indep_fail_cases,
                           "runs_with_oversize_raise": oversize_runs}
    # the documented stream order, all streams at once (reverse arrival)
    allc = {"a": [(100 + o) * 100 + 1 for o in sorted(S.ORD2NAME, reverse=True)], "f": 1, "srt": 0, "o": [], "m": []}
    arr = [S.decode_rec(x) for x in allc["a"]]
    sunk: List[int] = []
    S.drive(arr, S.INF, lambda fp, p: sunk.append(p["i"]))
    want = list(range(len(arr), 0, -1))
    run.traces += 1
    if sunk == want:
        run.ok("DrainSorted.documented_stream_order")
    else:
        rep.fail("DrainSorted", {"cause": "stream-order-differs-from-documented"},
                 {"streams": [S.ORD2NAME[r["o"]] for r in arr], "flushed": sunk},
                 f"streams staged in reverse documented order are flushed as {[S.ORD2NAME[arr[i - 1]['o']] for i in sunk]}",
                 {"family": "stager.streams"})


# ------------------------------------------------------------------------------------------------
# part D: rotation / compaction
# ------------------------------------------------------------------------------------------------
def rotate_configs(q: bool) -> List[Dict[str, int]]:
    # the last entries: retention windows whose suffixes have two digits (.9 / .10 / .11 sort differently as text and as
    # numbers); their initial directories are the dense prefixes and the one-gap directories only (InitAll = FALSE)
    if q:
        out = [{"N": 1, "Extra": 1, "MaxOps": 3}, {"N": 2, "Extra": 1, "MaxOps": 3}, {"N": 3, "Extra": 1, "MaxOps": 3}]
        big = [{"N": 11, "Extra": 1, "MaxOps": 2}]
    else:
        out = [{"N": 1, "Extra": 2, "MaxOps": 4}, {"N": 2, "Extra": 2, "MaxOps": 4}, {"N": 3, "Extra": 2, "MaxOps": 3},
               {"N": 3, "Extra": 1, "MaxOps": 4}]
        big = [{"N": 10, "Extra": 1, "MaxOps": 2}, {"N": 11, "Extra": 1, "MaxOps": 3}, {"N": 12, "Extra": 0, "MaxOps": 2}]
    return [dict(c, InitAll=True) for c in out] + [dict(c, InitAll=False) for c in big]


ROTATE_INVS = ["Ordered", "RotationKeepsNewestN", "RotationLosesOnlyOldest", "BeyondWindowUntouched",
               "CompactionPreservesRecords", "AppendOnlyLive"]


def _rotate_part(run, jobs: Jobs, rep: Reporter) -> None:
    from . import c16_rotate as Rt
    work = os.path.join(run.workdir, "rotate")
    os.makedirs(work, exist_ok=True)
    stats = {"histories": 0, "replays": 0, "interrupted_rotations": 0, "fork_replays": 0}
    for consts in rotate_configs(run.quick):
        name = f"Rotate_n{consts['N']}_x{consts['Extra']}_o{consts['MaxOps']}"
        res = jobs.get(name)
        run.model_must_hold(res)
        hs = res.emitted
        stats["histories"] += len(hs)
        cases = []
        for idx, hcase in enumerate(hs):
            has_int = any(o["op"] == "rotate" and not o["complete"] for o in hcase["h"])
            has_rot = any(o["op"] == "rotate" for o in hcase["h"])
            variants = ["crash"]
            if has_int:
                variants.append("oserror")
                stats["interrupted_rotations"] += 1
            if has_rot and (not run.quick or idx % 4 == 0):
                variants.append("fork")
            for v in variants:
                cases.append(dict(hcase, variant=v, workdir=work, idx=idx))
        outs = pmap(Rt.replay_rotate, cases, chunk=16)
        for c, finds in zip(cases, outs):
            run.traces += 1
            stats["replays"] += 1
            stats["fork_replays"] += 1 if c["variant"] == "fork" else 0
            cc = {k: v for k, v in c.items() if k != "workdir"}
            run.case(("rotate", json.dumps(cc, sort_keys=True)))
            ops = [o["op"] for o in c["h"]]
            if not finds:
                if "rotate" in ops:
                    run.ok("RotationKeepsNewestN")
                    run.ok("RotationLosesOnlyOldest")
                if "compact" in ops:
                    run.ok("CompactionPreservesRecords")
                run.ok(f"Rotate.{c['variant']}_history_conforms")
                continue
            for f in finds:
                rep.fail(f["clause"], {"cause": f["cause"]},
                         {"backups": c["n"], "initial_directory": c["init"], "history": c["h"], "variant": c["variant"], "failed_step": f["step"]},
                         f["msg"], {"family": "rotate", "case": cc})
        run.sample({"family": "rotate", "constants": consts, "history": hs[len(hs) // 3]}, cap=12)
    # a failing rename that needs no injection: name.9 -> name.10 exceeds NAME_MAX
    nat = Rt.natural_failed_rename(work)
    run.traces += 1
    run.extra["rotate_natural_failed_rename"] = nat
    if nat["lost"]:
        rep.fail("RotationLosesOnlyOldest", {"cause": "failed-rename-unlinks-source"},
                 nat, f"rotate_one(path, 10) with a 253-character file name, path and path.9 present: rename path.9 -> path.10 fails ({nat['error']}) "
                      f"and generation(s) {nat['lost']} are deleted although slot 10 (the oldest) was empty (before {nat['before']}, after {nat['after']})",
                 {"family": "rotate.natural"})
    else:
        run.ok("RotationLosesOnlyOldest.natural_failed_rename")
    # compaction on rich random records
    n = run.pick(300, 3000)
    args = [(work, run.seed, k, bool(k % 2)) for k in range(n)]
    outs = pmap(Rt.compaction_case, args)
    for a, fails in zip(args, outs):
        run.traces += 1
        run.case(("compact", a[2]))
        if not fails:
            run.ok("CompactionPreservesRecords")
        for clause, msg in fails:
            rep.fail(clause, {"cause": "rewrite_jsonl", "ci": a[3]}, {"seed": a[1], "k": a[2], "ci": a[3]}, msg,
                     {"family": "compact", "seed": a[1], "k": a[2], "ci": a[3]})
    run.extra["rotate"] = stats
    shutil.rmtree(work, ignore_errors=True)


# ------------------------------------------------------------------------------------------------
def check(run) -> None:
    from . import c16_append as A
    q = run.quick
    run.rule = ("distinct = (forced interleaving) / (free-running run) / (normalisation case) / (arrival sequence with sizes; each run "
                "under limits 1..12 and unbounded) / (rotation history, interruption variant) / (compaction record list)")
    saved_env = {k: os.environ.get(k) for k in ("CLEMATIS_LOG_DIR", "CI")}
    jobs = Jobs(run)
    rep = Reporter(run)
    try:
        # ---- observe the write calls of the real appender: the model's chunk structure ----
        try:
            by_size = A.observe_write_calls(os.path.join(run.workdir, "observe"))
        except A.Diverged as e:
            raise TLCError(f"observation seam of the appender: {e}")
        chunks = max(by_size.values())
        run.extra["write_calls_per_record_by_pad_chars"] = by_size
        run.constants = {"Chunks": chunks}
        # ---- start every TLC run (forked children) ----
        la_invs = ["OneCompleteLinePerRecord", "PerWriterOrder", "NoLossNoDuplication"]
        grids = [(2, 2), (3, 2), (2, 3)] + ([] if q else [(3, 3)])
        if chunks >= 2:
            grids = [(2, 2)] + ([] if q else [(2, 3)])
        for (w, r) in grids:
            jobs.start(f"LogAppend_w{w}_r{r}", "LogAppend", {"W": w, "R": r, "Chunks": chunks},
                       la_invs if chunks == 1 else [], constraint="EmitDone", workers=2)
        jobs.start("LogAppend_two_calls", "LogAppend", {"W": 2, "R": 2, "Chunks": 2}, la_invs, workers=1, expect_violation=True)
        jobs.start("Normalise", "Normalise",
                   {"Streams": FULL_STREAMS, "MsT": ["absent", "pos", "zero"], "NowT": ["absent", "ts"],
                    "DurT": ["absent", "dpos", "dzero", "dempty", "nondict"], "YieldT": ["absent", "true", "one", "false", "zero"],
                    "SliceT": ["absent", "i2", "s2", "bad"], "XT": ["absent", "v"]},
                   ["NormaliseOnlyVolatile", "NormaliseIdempotent"], view=None, constraint="EmitCase", workers=4)
        for consts in rotate_configs(q):
            jobs.start(f"Rotate_n{consts['N']}_x{consts['Extra']}_o{consts['MaxOps']}", "Rotate", consts, ROTATE_INVS,
                       constraint="EmitDone", workers=2)
        small = {"MinLen": 1, "MaxLen": 2, "Turns": [1, 2], "Ords": [1, 6], "Slices": [0, 1], "Sizes": [1, 2], "Limits": Def("1..4"),
                 "AdmitOversize": True}
        jobs.start("Stager_hyp_limit_independent", "Stager", small, ["FlushOrderIndependentOfLimit"], workers=1, expect_violation=True)
        jobs.start("Stager_control_refusing_oversize", "Stager", dict(small, AdmitOversize=False), ["RetryAlwaysSucceeds"], workers=1,
                   expect_violation=True)
        for cname, consts in stager_configs(q):
            jobs.start(f"Stager_{cname}", "Stager", consts, STAGER_INVS, emit=True, workers=run.pick(4, 6), timeout_s=1500)
        # ---- bind ----
        try:
            _append_part(run, jobs, rep, chunks, by_size)
        except A.Diverged as e:
            raise TLCError(f"appender harness: {e}")
        _normalise_part(run, jobs, rep)
        _rotate_part(run, jobs, rep)
        _stager_part(run, jobs, rep)
        run.extra["violations_by_signature"] = rep.summary()
        run.exhaustive = True
        run.assumptions += [
            "a single write call on an O_APPEND descriptor of a local file is appended contiguously (kernel guarantee); short writes are not injected",
            "small-scope hypothesis: 2-3 writers x 2-3 records (forced), arrival sequences <= 5, sizes <= 3 units, limits 1..12, rotation histories <= 3-4 operations with backups 1..3",
            "staging sizes are additive: payloads are calibrated through the stager's own API so that their size estimate is a multiple of 10 bytes",
            "rotation: only an existing live file is rotated (documented domain); interruption = process death or a failing file-system call",
        ]
    finally:
        jobs.abort()
        for k, v in saved_env.items():
            if v is None:
                os.environ.pop(k, None)
            else:
                os.environ[k] = v
        for d in ("append_logs", "observe", "rotate"):
            shutil.rmtree(os.path.join(run.workdir, d), ignore_errors=True)
        for f in os.listdir(run.workdir):
            if f.startswith("norm_"):
                shutil.rmtree(os.path.join(run.workdir, f), ignore_errors=True)


# ------------------------------------------------------------------------------------------------
def replay(rep) -> int:
    r = rep["replay"]
    fam = r["family"]
    work = "/verif/.work/C16/replay"
    shutil.rmtree(work, ignore_errors=True)
    os.makedirs(work, exist_ok=True)
    fails: List[Tuple[str, str]] = []
    try:
        if fam == "normalise":
            from . import c16_stager as S
            fails = S.replay_normalise(r["case"])
            fails += [(c, m) for _i, c, m in S.replay_normalise_disk((work, [r["case"]]))]
        elif fam == "stager":
            from . import c16_stager as S
            fails = [(f["clause"], f"[{f['cause']}] {f['msg']}") for f in S.replay_stager(dict(r["case"])) if f["L"] == r.get("L", f["L"])]
        elif fam == "stager.streams":
            from . import c16_stager as S
            arr = [S.decode_rec((100 + o) * 100 + 1) for o in sorted(S.ORD2NAME, reverse=True)]
            sunk: List[int] = []
            S.drive(arr, S.INF, lambda fp, p: sunk.append(p["i"]))
            if sunk != list(range(len(arr), 0, -1)):
                fails = [("DrainSorted", f"flushed {sunk}")]
        elif fam == "rotate":
            from . import c16_rotate as Rt
            fails = [(f["clause"], f"[{f['cause']}] {f['msg']}") for f in Rt.replay_rotate(dict(r["case"], workdir=work))]
        elif fam == "rotate.natural":
            from . import c16_rotate as Rt
            nat = Rt.natural_failed_rename(work)
            if nat["lost"]:
                fails = [("RotationLosesOnlyOldest", f"[failed-rename-unlinks-source] {nat}")]
        elif fam == "compact":
            from . import c16_rotate as Rt
            fails = Rt.compaction_case((work, r["seed"], r["k"], r["ci"]))
        elif fam == "append.forced":
            from . import c16_append as A
            real = A.forced_run(work, "replay", r["w"], r["r"], r["chunks"], r["sched"], r["pad"])
            c = A.first_failing_clause(real, r["w"], r["r"])
            if c:
                fails = [(c, f"schedule {r['sched']}: file parses to {real}")]
        elif fam == "append.free":
            from . import c16_append as A
            for k in range(5):
                res = (A.thread_run if r["kind"] == "threads" else A.process_run)(work, f"replay{k}", r["nw"], r["nr"], r["seed"])
                c = A.first_failing_clause(res["lines"], r["nw"], r["nr"])
                if c:
                    fails = [(c, f"attempt {k}: {[l for l in res['lines'] if l[2] != 1][:3]}")]
                    break
        else:
            print(f"unknown replay family {fam}")
            return 2
    finally:
        shutil.rmtree(work, ignore_errors=True)
    for clause, msg in fails:
        print(f"{clause}: {msg}")
    if fails:
        print(f"VIOLATION property=C16 replay={rep.get('_path', '?')}")
        return 1
    print("replay: conforms")
    return 0
