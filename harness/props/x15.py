"""X15 (extra, beyond the listed properties) — the on-disk T2 embedding store (engine/util/embed_store.py).

(M)    EmbedStore.tla: a state machine over the abstract content of one store directory (seven slots: the root, two
       flat shard directories, two quarter directories, two shard directories below a quarter; content = rows of
       (id, vector class), dim, dtype, norms sidecar; damage = meta.json / embeddings.bin / ids.tsv missing, meta.json
       unreadable; stray files) with WriteShard / Damage / AddStray / Open(spec) / Iter(batch) / LoadAll; the design
       clauses are state invariants over the reader the client holds and action properties over single calls.
(S->C)  every TLC transition is replayed on a real directory under run.workdir: the pre state is laid down by the harness'
       own byte writer (and the pre reader opened by the real open_reader), the call is made on the real code
       (write_shard / open_reader / iter_blocks / load_all), the result is compared field by field (error class, shard
       list, meta, every block's ids / fp32 vectors / fp32 norms, bit for bit), the post state is read back by the harness'
       own decoder, other shards' bytes and the whole tree are compared before / after, discovery is repeated under
       reversed and scrambled directory listings, the concatenated real blocks are compared with the real load_all.
       Seeded random stores (free names, up to 40 rows, dims 1..8, arbitrary floats, float64 / non-contiguous inputs,
       unicode ids) written by the real writer and read by the real reader against a Python oracle of the same rules.
"""
from __future__ import annotations

import hashlib
import json
import os
import shutil
import tempfile
from pathlib import Path
from typing import Any, Dict, List, Optional, Tuple

from ..util import Def, make_cfg, pmap, rng, split_defs

MANIFEST = {"technique": "TLA+ state machine of the on-disk embedding store (write_shard, discovery per partition layout, open_reader, iter_blocks, load_all, damage and stray files) model-checked with TLC; every transition replayed on a real directory (bytes written, shard list and order, meta, blocks bit for bit, tree unchanged by reads, other shards unchanged by writes, listing-order independence); random stores against a Python oracle",
            "text": "extra spec beyond the listed properties", "note": "not a listed property; run with ./check X15"}

# slots in the order of their full path strings ('-' < '/')
PATHS = {1: "", 2: "o1-x/q1", 3: "o1/q1", 4: "o1/q1/sA", 5: "o1/q1/sB", 6: "s1", 7: "s2"}
IDS = {1: "ep-1", 2: "épisode 2", 3: "x\ty", 4: ""}
BASE = {1: [0.5, -0.25, 1.0], 2: [-1.5, 2.0, 0.125], 3: [0.1, 0.3, -0.7], 4: [0.0, 0.0, 0.0]}
SHARD_FILES = ("meta.json", "embeddings.bin", "ids.tsv", "norms.bin")
INVARIANTS = ["ReaderSortedIntact", "EveryRowExactlyOnce", "IdsVectorsAligned", "BatchIndependent", "BlocksWellFormed"]
PROPERTIES = ["ReadNeverWrites", "WriteTouchesOneShard", "WriteStoresContent", "OpenOutcome", "DimMismatchRejected", "MissingMetaIsNoShard",
              "StrayIgnored", "ReaderIsSnapshot"]


def _np():
    import numpy as np
    return np


def spec_args(spec: int, root: str, decoy: str) -> Tuple[str, Optional[dict]]:
    return {1: (root, None),
            2: (root, {"enabled": False, "layout": "owner_quarter"}),
            3: (root, {"enabled": True, "layout": "none"}),
            4: (root, {"enabled": True, "layout": "owner_quarter"}),
            5: (decoy, {"enabled": True, "layout": "owner_quarter", "path": root}),
            6: (root, {"enabled": True}),
            7: (decoy, {"enabled": False, "layout": "owner_quarter", "path": root})}[spec]


def classify(e: BaseException) -> str:
    m = str(e)
    if isinstance(e, FileNotFoundError) and "No shards discovered" in m:
        return "noshards"
    if isinstance(e, FileNotFoundError) and "missing embeddings.bin or ids.tsv" in m:
        return "missingfile"
    if isinstance(e, RuntimeError) and "Failed to read meta.json" in m:
        return "badmeta"
    if isinstance(e, ValueError) and "dim differs across shards" in m:
        return "dimmismatch"
    if isinstance(e, ValueError) and "cannot mmap an empty file" in m:
        return "emptymap"
    return f"raised {type(e).__name__}: {m[:120]}"


# ---------------------------------------------------------------------------------------------------
# the harness' own writer / decoder of the documented file layout (independent of the code under test)
def vec_given(vc: int, dim: int):
    np = _np()
    return np.array(BASE[vc][:dim], dtype=np.float32)


def expect_row(r: Dict[str, Any], dim: int):
    """(id, fp32 vector, fp32 norm) the reader must return for a spec row"""
    np = _np()
    orig = vec_given(r["vc"], dim)
    stored = orig.astype(np.float16).astype(np.float32) if r["dt"] == "fp16" else orig
    src = orig if r["ns"] else stored
    return IDS[r["id"]], stored, np.linalg.norm(src[None, :], ord=2, axis=1).astype(np.float32)[0]


def content_files(c: Dict[str, Any]) -> Dict[str, Any]:
    """the bytes the documented layout prescribes for a content [rows, dim, dt, norms]"""
    np = _np()
    rows = c["rows"] or []
    d = c["dim"]
    emb = np.array([BASE[vc][:d] for _i, vc in rows], dtype=np.float32).reshape(len(rows), d)
    out = {"ids.tsv": "".join(IDS[i] + "\n" for i, _vc in rows).encode("utf-8"),
           "embeddings.bin": emb.astype(np.float16 if c["dt"] == "fp16" else np.float32).tobytes(),
           "meta": {"schema": "t2:1", "embed_dtype": c["dt"], "norms": bool(c["norms"]), "dim": d, "count": len(rows)}}
    if c["norms"]:
        out["norms.bin"] = (np.linalg.norm(emb, ord=2, axis=1).astype(np.float32).tobytes() if len(rows) else b"")
    return out


def put_shard(root: str, sh: Dict[str, Any]) -> None:
    p = os.path.join(root, PATHS[sh["slot"]])
    os.makedirs(p, exist_ok=True)
    f = content_files(sh)
    st = sh["st"]
    if st != "noids":
        open(os.path.join(p, "ids.tsv"), "wb").write(f["ids.tsv"])
    if st != "nobin":
        open(os.path.join(p, "embeddings.bin"), "wb").write(f["embeddings.bin"])
    if "norms.bin" in f:
        open(os.path.join(p, "norms.bin"), "wb").write(f["norms.bin"])
    if st == "badmeta":
        open(os.path.join(p, "meta.json"), "w").write("{not json")
    elif st != "nometa":
        json.dump(f["meta"], open(os.path.join(p, "meta.json"), "w"))


def put_stray(root: str) -> None:
    os.makedirs(os.path.join(root, "0_tmp"), exist_ok=True)                      # an empty directory
    os.makedirs(os.path.join(root, "lost+found", "x", "y"), exist_ok=True)        # a deep directory without any shard
    os.makedirs(os.path.join(root, "o1", "q1"), exist_ok=True)
    os.makedirs(os.path.join(root, "o1", "q0"), exist_ok=True)
    for rel in ("zz_notes.txt", "meta.json.bak", "o0", "o1/README", "o1/q1/notes.txt", "o1/q0/embeddings.bin", "lost+found/x/y/ids.tsv"):
        open(os.path.join(root, rel), "w").write("stray\n")


def damage(root: str, slot: int, kind: str) -> None:
    p = os.path.join(root, PATHS[slot])
    if kind == "nometa":
        os.remove(os.path.join(p, "meta.json"))
    elif kind == "nobin":
        os.remove(os.path.join(p, "embeddings.bin"))
    elif kind == "noids":
        os.remove(os.path.join(p, "ids.tsv"))
    else:
        open(os.path.join(p, "meta.json"), "w").write("{not json")


def decode_slot(root: str, slot: int) -> Dict[str, Any]:
    """abstract content of one slot as read back from the bytes on disk"""
    np = _np()
    p = os.path.join(root, PATHS[slot])
    have = {f: os.path.isfile(os.path.join(p, f)) for f in SHARD_FILES}
    if not (have["meta.json"] or have["embeddings.bin"] or have["ids.tsv"]):
        return {"slot": slot, "st": "absent"}
    if not have["meta.json"]:
        return {"slot": slot, "st": "nometa"}
    try:
        meta = json.load(open(os.path.join(p, "meta.json"), encoding="utf-8"))
    except Exception:
        return {"slot": slot, "st": "badmeta"}
    if not have["embeddings.bin"]:
        return {"slot": slot, "st": "nobin"}
    if not have["ids.tsv"]:
        return {"slot": slot, "st": "noids"}
    raw = open(os.path.join(p, "ids.tsv"), "rb").read().decode("utf-8")
    ids = raw.split("\n")[:-1] if raw else []
    d, dt = int(meta["dim"]), meta["embed_dtype"]
    emb = np.fromfile(os.path.join(p, "embeddings.bin"), dtype=np.float16 if dt == "fp16" else np.float32)
    emb = emb.reshape(-1, d) if d else emb.reshape(0, 0)
    rid = {v: k for k, v in IDS.items()}
    rows: List[Any] = []
    for n in range(max(len(ids), emb.shape[0])):
        i = rid.get(ids[n], "?" + ids[n]) if n < len(ids) else "no id"
        vc: Any = "no vector"
        if n < emb.shape[0]:
            vc = next((k for k in BASE if np.array_equal(emb[n], vec_given(k, d).astype(emb.dtype))), "?" + str(emb[n].tolist()))
        rows.append([i, vc])
    out = {"slot": slot, "st": "ok", "rows": rows, "dim": d, "dt": dt, "norms": bool(meta.get("norms")), "count": meta.get("count"),
           "schema": meta.get("schema")}
    if out["norms"]:
        want = content_files({"rows": rows, "dim": d, "dt": dt, "norms": True})["norms.bin"] if all(isinstance(v, int) for r in rows for v in r) else None
        got = open(os.path.join(p, "norms.bin"), "rb").read() if have["norms.bin"] else None
        out["norms_ok"] = got == want
    return out


def abs_slot(sh: Dict[str, Any]) -> Dict[str, Any]:
    """what of a spec shard is observable on disk"""
    if sh["st"] != "ok":
        return {"slot": sh["slot"], "st": sh["st"]}
    o = {"slot": sh["slot"], "st": "ok", "rows": [list(r) for r in (sh["rows"] or [])], "dim": sh["dim"], "dt": sh["dt"], "norms": bool(sh["norms"]),
         "count": len(sh["rows"] or []), "schema": "t2:1"}
    if o["norms"]:
        o["norms_ok"] = True
    return o


def decode_store(root: str) -> List[Dict[str, Any]]:
    return [d for d in (decode_slot(root, s) for s in PATHS) if d["st"] != "absent"]


def slot_bytes(root: str, slot: int) -> Dict[str, str]:
    p = os.path.join(root, PATHS[slot])
    return {f: hashlib.sha256(open(os.path.join(p, f), "rb").read()).hexdigest() for f in SHARD_FILES if os.path.isfile(os.path.join(p, f))}


def tree(d: str) -> Dict[str, str]:
    out = {}
    for r, dirs, files in os.walk(d):
        for x in dirs:
            out[os.path.relpath(os.path.join(r, x), d) + "/"] = ""
        for f in files:
            p = os.path.join(r, f)
            out[os.path.relpath(p, d)] = hashlib.sha256(open(p, "rb").read()).hexdigest()
    return out


def _order(keys: List[int], salt: str) -> List[int]:
    return sorted(keys, key=lambda k: hashlib.md5(f"{salt}|{k}".encode()).hexdigest())


class Listing:
    """directory listings in another order (the order of os listings is not specified)"""

    def __init__(self, mode: str):
        self.mode = mode

    def __enter__(self):
        self.orig = Path.iterdir
        orig, mode = self.orig, self.mode

        def iterdir(p):
            xs = list(orig(p))
            if mode == "reversed":
                xs.sort(key=lambda q: q.name, reverse=True)
            else:
                xs.sort(key=lambda q: hashlib.md5(q.name.encode()).hexdigest())
            return iter(xs)
        Path.iterdir = iterdir
        return self

    def __exit__(self, *a):
        Path.iterdir = self.orig


def reader_slots(reader, root: str) -> List[Any]:
    rp = {os.path.normpath(os.path.join(root, v)): k for k, v in PATHS.items()}
    return [rp.get(os.path.normpath(str(s.path)), str(s.path)) for s in reader._shards]


def build(st: Dict[str, Any], d: str):
    """lay the abstract state down under d; returns (root, decoy, reader or None, problems)"""
    from clematis.engine.util.embed_store import open_reader
    root, decoy = os.path.join(d, "root"), os.path.join(d, "decoy")
    shards = {sh["slot"]: sh for sh in (st["store"] or [])}
    salt = json.dumps(st, sort_keys=True)
    rd = st["reader"]
    reader = None
    first = [s for s in (rd["slots"] or [])] if rd["open"] else []
    for s in _order(first, salt):
        put_shard(root, shards[s])
    if rd["open"]:
        a, p = spec_args(rd["spec"], root, decoy)
        reader = open_reader(a, partitions=p)
        if reader_slots(reader, root) != first:
            return root, decoy, reader, f"could not re-open the pre reader: shards {reader_slots(reader, root)}, spec {first}"
    for s in _order([s for s in shards if s not in first], salt):
        put_shard(root, shards[s])
    if st["stray"]:
        put_stray(root)
    got, want = decode_store(root), [abs_slot(shards[s]) for s in sorted(shards)]
    if got != want:
        return root, decoy, reader, f"could not build the pre state: on disk {got}, spec {want}"
    return root, decoy, reader, None


def compare_rows(ids, vecs, norms, rows, dims: Dict[int, int], where: str) -> List[Tuple[str, str]]:
    """one real block (or load_all result) against the spec rows"""
    np = _np()
    fails: List[Tuple[str, str]] = []
    want = [expect_row(r, dims[r["s"]]) for r in rows]
    w_ids = [w[0] for w in want]
    if list(ids) != w_ids:
        clause = "EveryRowExactlyOnce" if sorted(ids) != sorted(w_ids) or len(set(w_ids)) == len(w_ids) else "EveryRowExactlyOnce"
        return [(clause, f"{where}: ids {list(ids)}, spec {w_ids} (rows {[(r['s'], r['i']) for r in rows]})")]
    d = dims[rows[0]["s"]] if rows else 0
    if not isinstance(vecs, np.ndarray) or vecs.dtype != np.float32 or vecs.shape != (len(rows), d):
        return [("IdsVectorsAligned", f"{where}: vectors {getattr(vecs, 'dtype', None)} {getattr(vecs, 'shape', None)}, spec float32 {(len(rows), d)}")]
    w_vecs = np.stack([w[1] for w in want]) if want else np.zeros((0, d), dtype=np.float32)
    if not np.array_equal(vecs, w_vecs):
        fails.append(("IdsVectorsAligned", f"{where}: vectors {vecs.tolist()} for ids {w_ids}, spec {w_vecs.tolist()} (dtypes {[r['dt'] for r in rows]})"))
    w_norms = np.array([w[2] for w in want], dtype=np.float32)
    if norms is None or getattr(norms, "dtype", None) != np.float32 or norms.shape != (len(rows),) or not np.array_equal(norms, w_norms):
        fails.append(("NormsFromSidecarOrComputed", f"{where}: norms {None if norms is None else norms.tolist()}, spec {w_norms.tolist()} (sidecar: {[r['ns'] for r in rows]})"))
    return fails


def real_blocks(reader, batch: int):
    blocks, err = [], "none"
    try:
        for ids, vecs, norms in reader.iter_blocks(batch=batch):
            blocks.append((list(ids), vecs.copy(), None if norms is None else norms.copy()))
    except Exception as e:      # noqa: BLE001
        err = classify(e)
    return blocks, err


def replay_transition(case) -> List[Tuple[str, str]]:
    import traceback
    np = _np()
    t, workdir = case["t"], case["workdir"]
    pre, obs, post = t["pre"], t["obs"], t["post"]
    op = obs["op"]
    d = tempfile.mkdtemp(prefix="x15_", dir=workdir)
    try:
        from clematis.engine.util.embed_store import open_reader, write_shard
        root, decoy, reader, problem = build(pre, d)
        if problem:
            return [("Construct", problem)]
        shards = {sh["slot"]: sh for sh in (pre["store"] or [])}
        dims = {s: sh["dim"] for s, sh in shards.items()}
        before = tree(d)
        where = f"{op} on store {[(sh['slot'], sh['st'], sh['rows'], sh['dim'], sh['dt'], sh['norms']) for sh in (pre['store'] or [])]} stray={pre['stray']} reader={pre['reader']}"
        fails: List[Tuple[str, str]] = []
        if op in ("write", "damage", "stray"):
            others = {s: slot_bytes(root, s) for s in PATHS if s != obs.get("slot")}
            if op == "write":
                c = obs["c"]
                rows = c["rows"] or []
                emb = np.array([BASE[vc][:c["dim"]] for _i, vc in rows], dtype=np.float32).reshape(len(rows), c["dim"])
                ret = write_shard(os.path.join(root, PATHS[obs["slot"]]), [IDS[i] for i, _vc in rows], emb, dtype=c["dt"], precompute_norms=bool(c["norms"]))
                where += f" slot {obs['slot']} ({obs['kind']}) content {c}"
                p = os.path.join(root, PATHS[obs["slot"]])
                f = content_files(c)
                for name in ("ids.tsv", "embeddings.bin") + (("norms.bin",) if c["norms"] else ()):
                    got = open(os.path.join(p, name), "rb").read() if os.path.isfile(os.path.join(p, name)) else None
                    if got != f[name]:
                        fails.append(("WriteStoresContent", f"{where}: {name} holds {got!r}, the documented layout is {f[name]!r}"))
                try:
                    meta = json.load(open(os.path.join(p, "meta.json"), encoding="utf-8"))
                except Exception as e:      # noqa: BLE001
                    meta = f"unreadable ({e})"
                if meta != f["meta"] or ret is not None:
                    fails.append(("WriteStoresContent", f"{where}: meta.json {meta}, spec {f['meta']}"))
            elif op == "damage":
                damage(root, obs["slot"], obs["kind"])
            else:
                put_stray(root)
            for s, h in others.items():
                if slot_bytes(root, s) != h:
                    fails.append(("WriteTouchesOneShard", f"{where}: the files of slot {s} ({PATHS[s]!r}) changed"))
            pshards = {sh["slot"]: sh for sh in (post["store"] or [])}
            got, want = decode_store(root), [abs_slot(pshards[s]) for s in sorted(pshards)]
            if got != want and not fails:
                fails.append(("WriteStoresContent", f"{where}: store on disk {got}, spec {want}"))
            if op == "write":
                extra = set(tree(d)) - set(before) - {os.path.relpath(os.path.join(root, PATHS[obs["slot"]], f), d) for f in SHARD_FILES}
                extra = {x for x in extra if not x.endswith("/")}
                if extra:
                    fails.append(("WriteTouchesOneShard", f"{where}: the writer left other files: {sorted(extra)}"))
            if pre["reader"]["open"] and post["reader"]["open"]:
                ids, vecs, norms, err = [], None, None, "none"
                try:
                    ids, vecs, norms = reader.load_all()
                except Exception as e:      # noqa: BLE001
                    err = classify(e)
                # the spec's post result of the kept reader = its pre result (ReaderIsSnapshot): recompute from the pre store
                want_rows, want_err = oracle_rows(pre, pre["reader"]["slots"])
                if err != want_err:
                    fails.append(("ReaderIsSnapshot", f"{where}: the reader held across the change now ends with {err}, before: {want_err}"))
                elif err == "none":
                    fails += [("ReaderIsSnapshot", m) for _c, m in compare_rows(ids, vecs, norms, want_rows, dims, where + " (reader held across the change)")]
            return fails
        # ---- reads
        if op == "open":
            a, p = spec_args(obs["spec"], root, decoy)
            p0 = json.loads(json.dumps(p))
            where += f" open_reader(partitions={p}{', positional root missing' if a == decoy else ''})"

            def attempt():
                try:
                    r = open_reader(a, partitions=p)
                    return "none", r
                except Exception as e:      # noqa: BLE001
                    return classify(e), None
            err, r = attempt()
            if err != obs["err"]:
                clause = ("DimMismatchRejected" if "dimmismatch" in (err, obs["err"]) else "MissingMetaIsNoShard" if "noshards" in (err, obs["err"]) else "OpenOutcome")
                fails.append((clause, f"{where}: outcome {err}{' shards ' + str(reader_slots(r, root)) if r is not None else ''}, spec {obs['err']} (shards {obs['slots']})"))
            elif err == "none":
                got = reader_slots(r, root)
                if got != list(obs["slots"]):
                    clause = "ReaderSortedIntact" if sorted(map(str, got)) == sorted(map(str, obs["slots"])) else "OpenOutcome"
                    fails.append((clause, f"{where}: shards {got} ({[PATHS.get(s, s) for s in got]}), spec {obs['slots']}"))
                m = obs["meta"]
                want_meta = {"embed_store_dtype": m["dtype"], "dim": m["dim"], "count": m["count"], "norms": m["norms"], "shards": m["shards"],
                             "partition_layout": m["layout"], "schema": "t2:1"}
                if r.meta != want_meta:
                    fails.append(("ReaderMeta", f"{where}: reader.meta {r.meta}, spec {want_meta}"))
            for mode in ("reversed", "scrambled"):
                with Listing(mode):
                    err2, r2 = attempt()
                if err2 != err or (r is not None and ([str(s.path) for s in r2._shards] != [str(s.path) for s in r._shards] or r2.meta != r.meta)):
                    fails.append(("ListingOrderIndependent", f"{where}: with {mode} directory listings the outcome is {err2} "
                                                             f"{reader_slots(r2, root) if r2 is not None else ''}, otherwise {err} {reader_slots(r, root) if r is not None else ''}"))
            if p != p0:
                fails.append(("ReadNeverWrites", f"{where}: open_reader changed its partitions argument to {p}"))
        elif op == "iter":
            b = obs["batch"]
            where += f" iter_blocks(batch={b})"
            blocks, err = real_blocks(reader, b)
            want = obs["blocks"] or []
            if err != obs["err"]:
                fails.append(("IterOutcome", f"{where}: ends with {err} after {len(blocks)} blocks, spec {obs['err']} after {len(want)}"))
            if [len(x[0]) for x in blocks] != [len(w) for w in want]:
                flat_ok = [i for x in blocks for i in x[0]] == [IDS[r["id"]] for w in want for r in w]
                fails.append(("BlocksWellFormed" if flat_ok else "EveryRowExactlyOnce",
                              f"{where}: block sizes {[len(x[0]) for x in blocks]} ids {[x[0] for x in blocks]}, spec {[len(w) for w in want]} "
                              f"{[[IDS[r['id']] for r in w] for w in want]}"))
            else:
                for n, (x, w) in enumerate(zip(blocks, want)):
                    fails += compare_rows(x[0], x[1], x[2], w, dims, f"{where} block {n + 1}")
            # the real blocks against the real load_all (and with a listing order that differs)
            if err == "none":
                with Listing("reversed"):
                    try:
                        a_ids, a_vecs, a_norms = reader.load_all()
                        c_ids = [i for x in blocks for i in x[0]]
                        c_vecs = np.vstack([x[1] for x in blocks])
                        c_norms = np.concatenate([x[2] for x in blocks])
                        if c_ids != list(a_ids) or not np.array_equal(c_vecs, a_vecs) or not np.array_equal(c_norms, a_norms):
                            fails.append(("BatchIndependent", f"{where}: the concatenated blocks {c_ids} {c_vecs.tolist()} differ from load_all {list(a_ids)} {a_vecs.tolist()}"))
                    except Exception as e:      # noqa: BLE001
                        fails.append(("BatchIndependent", f"{where}: iter_blocks ends normally, load_all raises {classify(e)}"))
            if b == min(case.get("batches") or [b]):
                for bad in (0, -1):
                    try:
                        list(reader.iter_blocks(batch=bad))
                        fails.append(("BlocksWellFormed", f"{where}: iter_blocks(batch={bad}) is accepted"))
                    except ValueError:
                        pass
        else:
            where += " load_all()"
            try:
                ids, vecs, norms = reader.load_all()
                err = "none"
            except Exception as e:      # noqa: BLE001
                ids, vecs, norms, err = [], None, None, classify(e)
            if err != obs["err"]:
                fails.append(("IterOutcome", f"{where}: ends with {err}, spec {obs['err']}"))
            elif err == "none":
                fails += compare_rows(ids, vecs, norms, obs["rows"] or [], dims, where)
        if tree(d) != before:
            fails.append(("ReadNeverWrites", f"{where}: the directory changed: {sorted(set(tree(d).items()) ^ set(before.items()))[:6]}"))
        return fails
    except Exception as e:      # noqa: BLE001
        return [("StoreTotal", f"{op} raised {type(e).__name__}: {e} ({obs}) {traceback.format_exc()[-600:]}")]
    finally:
        shutil.rmtree(d, ignore_errors=True)


def oracle_rows(st: Dict[str, Any], slots) -> Tuple[List[Dict[str, Any]], str]:
    """load_all of a reader over `slots` in abstract state st (Python twin of LoadAllF)"""
    shards = {sh["slot"]: sh for sh in (st["store"] or [])}
    rows: List[Dict[str, Any]] = []
    for s in slots or []:
        sh = shards[s]
        if not (sh["rows"] or []):
            return [], "emptymap"
        rows += [{"id": r[0], "vc": r[1], "dt": sh["dt"], "ns": sh["norms"], "s": s, "i": i + 1} for i, r in enumerate(sh["rows"])]
    return rows, "none"


# ---------------------------------------------------------------------------------------------------
# random stores: real writer + real reader against a Python oracle of the same rules
OWNERS = ["a", "a-b", "a.b", "A", "ä", "a b", "o10", "o9", "_"]
QUARTERS = ["2025Q1", "2025Q2", "2024Q4", "q"]
SHARDN = ["shard-000", "shard-001", "shard-10", "shard-9", "S", "shard-000.bak"]
ALPHA = "abcXYZ019 _-./:;,'\"\\\t#é€日🙂"


def random_case(args) -> List[Tuple[str, str]]:
    import traceback
    np = _np()
    seed, i, workdir = args
    r = rng(seed, "x15", i)
    g = np.random.default_rng([seed, i])
    d = tempfile.mkdtemp(prefix="x15r_", dir=workdir)
    try:
        from clematis.engine.util.embed_store import open_reader, write_shard
        root = os.path.join(d, r.choice(["root", "r.o-o t", "ró"]))
        shape = r.choice(["flat", "flat", "oq", "oq", "oq", "mixed", "single"])
        rels: List[Tuple[str, ...]] = []
        if shape == "single":
            rels = [()]
        if shape in ("flat", "mixed"):
            rels += [(n,) for n in r.sample(SHARDN + OWNERS[:3], r.randrange(1, 5))]
        if shape in ("oq", "mixed"):
            for o in r.sample(OWNERS, r.randrange(1, 4)):
                for q in r.sample(QUARTERS, r.randrange(1, 3)):
                    k = r.random()
                    if k < 0.35:
                        rels.append((o, q))
                    else:
                        rels += [(o, q, n) for n in r.sample(SHARDN, r.randrange(1, 4))]
                        if k > 0.85:
                            rels.append((o, q))
        if r.random() < 0.1:
            rels.append(("deep", "er", "than", "three"))
        if r.random() < 0.06:
            rels.append(())
        rels = list(dict.fromkeys(rels))
        dim = r.randrange(1, 9)
        model: Dict[Tuple[str, ...], Dict[str, Any]] = {}
        for rel in _order_rel(rels, f"{seed}|{i}"):
            n = r.choice([0, 1, 1, 2, 3, 5, 8, 17, 40]) if r.random() < 0.5 else r.randrange(1, 12)
            dd = dim if r.random() < 0.93 else (dim % 8) + 1
            dt = r.choice(["fp32", "fp16"])
            nrm = r.random() < 0.5
            ids = ["".join(r.choice(ALPHA) for _ in range(r.randrange(0, 7))) if r.random() < 0.5 else f"ep{r.randrange(30)}" for _ in range(n)]
            kind = r.random()
            emb = (g.standard_normal((n, dd)) * r.choice([1.0, 0.01, 50.0]))
            if kind < 0.4:
                given = emb.astype(np.float32)
            elif kind < 0.6:
                given = emb.astype(np.float64)
            elif kind < 0.8:
                given = np.asfortranarray(emb.astype(np.float32))
            else:
                given = np.round(emb * 8).astype(np.int32)          # integers are arrays too
            ids_arg: Any = ids if r.random() < 0.7 else tuple(ids)
            dtype_arg = dt if r.random() < 0.7 else dt.upper()
            write_shard(os.path.join(root, *rel) if r.random() < 0.5 else Path(root).joinpath(*rel), ids_arg, given, dtype=dtype_arg, precompute_norms=nrm)
            out_dt = np.float16 if dt == "fp16" else np.float32
            with np.errstate(over="ignore"):
                stored = np.ascontiguousarray(given).astype(out_dt).astype(np.float32)
                side = np.linalg.norm(np.asarray(given).astype(np.float32), ord=2, axis=1).astype(np.float32)
                comp = np.linalg.norm(stored, ord=2, axis=1).astype(np.float32)
            model[rel] = {"ids": ids, "vecs": stored, "norms": side if nrm else comp, "dim": dd, "dt": dt, "nrm": nrm, "n": n, "meta": True, "broken": None}
        # damage and stray
        for rel, sh in model.items():
            k = r.random()
            if k < 0.08:
                os.remove(os.path.join(root, *rel, "meta.json"))
                sh["meta"] = False
            elif k < 0.11:
                os.remove(os.path.join(root, *rel, r.choice(["embeddings.bin", "ids.tsv"])))
                sh["broken"] = "missingfile"
            elif k < 0.13:
                open(os.path.join(root, *rel, "meta.json"), "w").write("[1, 2")
                sh["broken"] = "badmeta"
        if r.random() < 0.5:
            os.makedirs(os.path.join(root, "zz_empty", "q"), exist_ok=True)
            open(os.path.join(root, "notes.txt"), "w").write("x")
            for rel in list(model)[:2]:
                if rel:
                    open(os.path.join(root, rel[0], "README"), "w").write("x")
        layout = r.choice(["none", "owner_quarter", "owner_quarter"])
        form = r.randrange(5)
        decoy = os.path.join(d, "nowhere")
        a, p = {0: (root, {"enabled": True, "layout": layout}), 1: (decoy, {"enabled": True, "layout": layout, "path": root}),
                2: (Path(root), {"enabled": True, "layout": layout, "path": Path(root)}),
                3: (root, None if layout == "none" else {"enabled": True, "layout": layout}),
                4: (root, {"enabled": False, "layout": layout})}[form]
        if form == 4:
            layout = "none"
        # ---- oracle
        has = lambda rel: rel in model and model[rel]["meta"]      # noqa: E731
        if has(()):
            disc = [()]
        elif layout == "owner_quarter":
            disc = []
            quarters = {rel[:2] for rel in model if len(rel) >= 2}
            for q in quarters:
                kids = [rel for rel in model if len(rel) == 3 and rel[:2] == q and has(rel)]
                disc += kids if kids else ([q] if has(q) else [])
        else:
            disc = [rel for rel in model if len(rel) == 1 and has(rel)]
        disc.sort(key=lambda rel: os.path.join(root, *rel))
        want_err = next((model[rel]["broken"] for rel in disc if model[rel]["broken"]), None)
        if want_err is None:
            want_err = "noshards" if not disc else "dimmismatch" if len({model[rel]["dim"] for rel in disc}) > 1 else "none"
        before = tree(d)
        desc = (f"random store {i}: {[('/'.join(rel), sh['n'], sh['dim'], sh['dt'], sh['nrm'], sh['meta'], sh['broken']) for rel, sh in model.items()]} "
                f"opened with layout {layout} (form {form})")
        fails: List[Tuple[str, str]] = []
        try:
            rd = open_reader(a, partitions=p)
            err = "none"
        except Exception as e:      # noqa: BLE001
            rd, err = None, classify(e)
        if err != want_err:
            return [("DimMismatchRejected" if "dimmismatch" in (err, want_err) else "OpenOutcome", f"{desc}: outcome {err}, oracle {want_err} (shards {disc})")]
        if rd is not None:
            got = [os.path.normpath(str(s.path)) for s in rd._shards]
            want = [os.path.normpath(os.path.join(root, *rel)) for rel in disc]
            if got != want:
                fails.append(("ReaderSortedIntact" if sorted(got) == sorted(want) else "OpenOutcome", f"{desc}: shards {got}, oracle {want}"))
            want_meta = {"embed_store_dtype": "fp16" if any(model[x]["dt"] == "fp16" for x in disc) else "fp32", "dim": model[disc[0]]["dim"],
                         "count": sum(model[x]["n"] for x in disc), "norms": all(model[x]["nrm"] for x in disc), "shards": len(disc),
                         "partition_layout": layout, "schema": "t2:1"}
            if rd.meta != want_meta:
                fails.append(("ReaderMeta", f"{desc}: reader.meta {rd.meta}, oracle {want_meta}"))
            with Listing(r.choice(["reversed", "scrambled"])):
                rd2 = open_reader(a, partitions=p)
            if [str(s.path) for s in rd2._shards] != [str(s.path) for s in rd._shards]:
                fails.append(("ListingOrderIndependent", f"{desc}: another listing order gives shards {[str(s.path) for s in rd2._shards]}"))
            n_total = sum(model[x]["n"] for x in disc)
            empty_at = next((k for k, x in enumerate(disc) if model[x]["n"] == 0), None)
            upto = disc if empty_at is None else disc[:empty_at]
            for b in {1, r.randrange(1, 9), max(1, n_total - 1), n_total + 3, 10 ** 9}:
                blocks, berr = real_blocks(rd, b)
                w_blocks = []
                for x in upto:
                    sh = model[x]
                    for s in range(0, sh["n"], b):
                        w_blocks.append((sh["ids"][s:s + b], sh["vecs"][s:s + b], sh["norms"][s:s + b]))
                if berr != ("none" if empty_at is None else "emptymap"):
                    fails.append(("IterOutcome", f"{desc}: iter_blocks({b}) ends with {berr}"))
                if [x[0] for x in blocks] != [w[0] for w in w_blocks]:
                    flat = [y for x in blocks for y in x[0]] == [y for w in w_blocks for y in w[0]]
                    fails.append(("BlocksWellFormed" if flat else "EveryRowExactlyOnce", f"{desc}: iter_blocks({b}) ids {[x[0] for x in blocks]}, oracle {[w[0] for w in w_blocks]}"))
                    break
                for x, w in zip(blocks, w_blocks):
                    if x[1].dtype != np.float32 or not np.array_equal(x[1], w[1], equal_nan=True):
                        fails.append(("IdsVectorsAligned", f"{desc}: iter_blocks({b}) vectors of {x[0]}: {x[1].tolist()}, oracle {w[1].tolist()}"))
                        break
                    if x[2] is None or x[2].dtype != np.float32 or not np.array_equal(x[2], w[2], equal_nan=True):
                        fails.append(("NormsFromSidecarOrComputed", f"{desc}: iter_blocks({b}) norms of {x[0]}: {None if x[2] is None else x[2].tolist()}, oracle {w[2].tolist()}"))
                        break
                if fails:
                    break
            if not fails:
                try:
                    ids, vecs, norms = rd.load_all()
                    if empty_at is not None:
                        fails.append(("IterOutcome", f"{desc}: load_all over an empty shard returns {len(ids)} rows (modelled as built: ValueError)"))
                    elif (list(ids) != [y for x in disc for y in model[x]["ids"]] or not np.array_equal(vecs, np.vstack([model[x]["vecs"] for x in disc]), equal_nan=True)
                          or not np.array_equal(norms, np.concatenate([model[x]["norms"] for x in disc]), equal_nan=True)):
                        fails.append(("BatchIndependent", f"{desc}: load_all returns {list(ids)} {vecs.tolist()}, oracle {[y for x in disc for y in model[x]['ids']]}"))
                except Exception as e:      # noqa: BLE001
                    if empty_at is None or classify(e) != "emptymap":
                        fails.append(("IterOutcome", f"{desc}: load_all raises {classify(e)}"))
        if tree(d) != before:
            fails.append(("ReadNeverWrites", f"{desc}: the directory changed under the reader"))
        return fails[:3]
    except Exception as e:      # noqa: BLE001
        return [("StoreTotal", f"random store {i}: {type(e).__name__}: {e} {traceback.format_exc()[-700:]}")]
    finally:
        shutil.rmtree(d, ignore_errors=True)


def _order_rel(rels, salt):
    return sorted(rels, key=lambda k: hashlib.md5(f"{salt}|{'/'.join(k)}".encode()).hexdigest())


# ---------------------------------------------------------------------------------------------------
def _content(rows, dim, dt, norms) -> str:
    return "[rows |-> <<%s>>, dim |-> %d, dt |-> \"%s\", norms |-> %s]" % (", ".join("<<%d, %d>>" % tuple(r) for r in rows), dim, dt, "TRUE" if norms else "FALSE")


def contents(cs) -> Def:
    return Def("{" + ", ".join(_content(*c) for c in cs) + "}")


C_EMPTY = ([], 2, "fp32", False)
C_ONE = ([(1, 1)], 2, "fp32", True)
C_TWO16 = ([(2, 3), (1, 2)], 2, "fp16", False)
C_THREE16N = ([(1, 3), (3, 1), (2, 4)], 2, "fp16", True)
C_DIM3 = ([(4, 3), (1, 1)], 3, "fp32", False)
C_DUP = ([(1, 1), (1, 2)], 2, "fp32", False)
C_FOUR = ([(3, 2), (2, 2), (4, 1), (1, 3)], 3, "fp16", True)

PLANS = {
    "quick": [
        ("all", {"Slots": [1, 2, 3, 4, 5, 6, 7], "Contents": [C_EMPTY, C_ONE, C_TWO16, C_THREE16N, C_DIM3], "Specs": [1, 3, 4, 7], "Batches": [1, 2, 3],
                 "DamageKinds": ["nometa", "nobin"], "MaxShards": 2, "WLen": 2}),
        # a reader held across later changes of the store (write / damage / stray after open)
        ("held", {"Slots": [1, 3, 4, 6, 7], "Contents": [C_EMPTY, C_ONE, C_TWO16], "Specs": [1, 4], "Batches": [2],
                  "DamageKinds": ["nometa"], "MaxShards": 2, "WLen": 3}),
    ],
    "thorough": [
        ("all", {"Slots": [1, 2, 3, 4, 5, 6, 7], "Contents": [C_EMPTY, C_ONE, C_TWO16, C_THREE16N, C_DIM3, C_DUP], "Specs": [1, 2, 3, 4, 5, 6, 7], "Batches": [1, 2, 3, 5],
                 "DamageKinds": ["nometa", "nobin", "noids", "badmeta"], "MaxShards": 2, "WLen": 2}),
        ("quarters", {"Slots": [2, 3, 4, 5], "Contents": [C_EMPTY, C_ONE, C_THREE16N, C_DIM3], "Specs": [3, 4, 5], "Batches": [1, 2, 4],
                      "DamageKinds": ["nometa", "badmeta"], "MaxShards": 3, "WLen": 3}),
        ("flat", {"Slots": [1, 6, 7], "Contents": [C_EMPTY, C_TWO16, C_THREE16N, C_FOUR, C_DUP], "Specs": [1, 4, 6], "Batches": [1, 2, 3],
                  "DamageKinds": ["nometa", "noids"], "MaxShards": 3, "WLen": 3}),
    ],
}


def exercised(t) -> List[str]:
    op = t["obs"]["op"]
    if op == "write":
        out = ["WriteStoresContent", "WriteTouchesOneShard"]
    elif op in ("damage", "stray"):
        out = ["WriteTouchesOneShard"] + (["StrayIgnored"] if op == "stray" else [])
    elif op == "open":
        out = ["OpenOutcome", "ListingOrderIndependent", "ReadNeverWrites", "MissingMetaIsNoShard"]
        if t["obs"]["err"] == "none":
            out += ["ReaderSortedIntact", "ReaderMeta"]
        if t["obs"]["err"] == "dimmismatch":
            out.append("DimMismatchRejected")
    elif op == "iter":
        out = ["ReadNeverWrites", "EveryRowExactlyOnce", "IdsVectorsAligned", "BlocksWellFormed", "IterOutcome", "NormsFromSidecarOrComputed"]
        if t["obs"]["err"] == "none":
            out.append("BatchIndependent")
    else:
        out = ["ReadNeverWrites", "EveryRowExactlyOnce", "IdsVectorsAligned", "IterOutcome", "NormsFromSidecarOrComputed"]
    if op in ("write", "damage", "stray") and t["pre"]["reader"]["open"] and t["post"]["reader"]["open"]:
        out.append("ReaderIsSnapshot")
    return out


def check(run) -> None:
    from ..tlc import TLCError
    if sorted(PATHS.values()) != [PATHS[k] for k in sorted(PATHS)] or sorted("R/" + v for v in PATHS.values() if v) != ["R/" + PATHS[k] for k in sorted(PATHS) if PATHS[k]]:
        raise TLCError("X15: the slot table is not in path order")
    run.rule = ("every transition of the EmbedStore model replayed on a real store directory (state rebuilt per transition); seeded random stores "
                "(real writer + real reader) against a Python oracle; distinct = distinct (configuration, pre state, call)")
    per_op: Dict[str, int] = {}
    for name, sc in PLANS["quick" if run.quick else "thorough"]:
        consts = dict(sc, Contents=contents(sc["Contents"]))
        run.constants[name] = {k: (v if k != "Contents" else [list(map(list, c[0])) + list(c[1:]) for c in v]) for k, v in sc.items()}
        cfg = make_cfg(consts, INVARIANTS, PROPERTIES, emit=True, view="View_")
        res = run.tlc("EmbedStore", cfg, name=f"EmbedStore_{name}", workers=1, timeout_s=2400, defs=split_defs(consts), heap="4g")
        run.model_must_hold(res)
        ts = res.emitted
        res.text = ""
        if not ts:
            raise TLCError("EmbedStore emitted no transitions")
        cases = [{"t": t, "workdir": run.workdir, "batches": sc["Batches"]} for t in ts]
        for c, fails in zip(cases, pmap(replay_transition, cases, chunk=100)):
            t = c["t"]
            per_op[t["obs"]["op"]] = per_op.get(t["obs"]["op"], 0) + 1
            run.traces += 1
            run.case(json.dumps([name, t["pre"], t["obs"]], sort_keys=True))
            bad = {cl for cl, _ in fails}
            for cl in exercised(t):
                if cl not in bad:
                    run.ok(cl)
            for clause, msg in fails:
                run.fail(clause, {"clause": clause, "op": t["obs"]["op"]}, {"config": name, "t": t}, msg, replay={"t": t, "batches": sc["Batches"]})
        run.sample({"config": name, "transition": next((t for t in ts if t["obs"]["op"] == "iter" and len(t["obs"]["blocks"] or []) > 2), ts[-1])}, cap=2)
        del ts, cases, res
    run.extra["transitions_per_op"] = per_op
    n = 400 if run.quick else 8000
    args = [(run.seed, i, run.workdir) for i in range(n)]
    for a, fails in zip(args, pmap(random_case, args, chunk=20)):
        run.traces += 1
        run.case(("rand", a[1]))
        if not fails:
            run.ok("random_store_conforms")
        for clause, msg in fails:
            run.fail(clause, {"clause": clause, "op": "random"}, {"seed": a[0], "i": a[1]}, msg, replay={"random": [a[0], a[1]]})
    run.assumptions += ["the shard list of a reader is read from the private field EmbedReader._shards",
                        "ids are free of line breaks (\\n, \\r): ids.tsv is 'one id per line'; an id holding '\\r' or '\\n' is read back as two ids and shifts "
                        "every later id of the shard against its vector (observed, reported with the check's findings)",
                        "a reader is followed only while its own shards stay untouched (reader' = closed otherwise)",
                        "vectors are compared bit for bit in fp32; fp16 storage = numpy's round-to-nearest-even cast"]
    run.exhaustive = False


def replay(rep) -> int:
    os.makedirs("/verif/.work/X15", exist_ok=True)
    r = rep["replay"]
    if "t" in r:
        fails = replay_transition({"t": r["t"], "workdir": "/verif/.work/X15", "batches": r.get("batches")})
    else:
        fails = random_case((r["random"][0], r["random"][1], "/verif/.work/X15"))
    for f in fails:
        print(": ".join(f))
    if fails:
        print(f"VIOLATION property=X15 replay={rep.get('_path', '?')}")
        return 1
    print("replay: conforms")
    return 0
