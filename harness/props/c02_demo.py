"""C02 through the repository's own multi-agent driver (clematis.scripts.demo.main: scheduler loop around
world.scenario.run_one_turn).  The driver reads scheduler.* (policy, fairness) itself, outside the orchestrator's gate
predicates, so "a closed gate makes the subtree inert" has to hold for the driver as well.

For every closed feature the demo runs twice over the same agents / steps / text in one process:
   base     configuration file without the feature's subtree
   variant  the subtree present, gate off, values customised
and the picks (which agent ran at each step, with the pick reason), the utterances, every log stream (volatile timing
fields masked) and every snapshot body must be equal; no artefact of the closed feature may appear."""
from __future__ import annotations

import contextlib
import copy
import io
import json
import os
import shutil
import sys
import tempfile
from typing import Any, Dict, List, Tuple

VOLATILE = {"ms", "ms_plan", "ms_rag", "ms_speak", "ms_deliberate", "durations_ms", "snapshot", "now"}

# closed subtrees (gate off, everything else customised) -- one variant per feature, two for the scheduler
VARIANTS: Dict[str, Dict[str, Any]] = {
    "scheduler_rr": {"scheduler": {"enabled": False, "policy": "round_robin", "quantum_ms": 20,
                                   "budgets": {"t1_iters": 1, "t2_k": 1, "t3_ops": 1, "wall_ms": 200},
                                   "fairness": {"max_consecutive_turns": 1, "aging_ms": 200}}},
    "scheduler_fq": {"scheduler": {"enabled": False, "policy": "fair_queue", "quantum_ms": 1,
                                   "budgets": {"t1_pops": 0, "t2_k": 0, "wall_ms": 1},
                                   "fairness": {"max_consecutive_turns": 2, "aging_ms": 0}}},
    "graph": {"graph": {"enabled": False, "coactivation_threshold": 0.0, "observe_top_k": 1, "pair_cap_per_obs": 1,
                        "update": {"mode": "proportional", "alpha": 0.9}, "decay": {"half_life_turns": 1, "floor": 0.3},
                        "merge": {"enabled": True, "min_size": 2}, "split": {"enabled": True}, "promotion": {"enabled": True}}},
    "perf": {"perf": {"enabled": False, "metrics": {"report_memory": True},
                      "parallel": {"enabled": True, "t1": True, "t2": True, "agents": True, "max_workers": 4},
                      "t1": {"cache": {"max_entries": 1, "max_bytes": 1}}, "t2": {"cache": {"max_entries": 1, "max_bytes": 1}}}},
    "quality": {"t2": {"quality": {"enabled": False, "shadow": False, "fusion": {"alpha_semantic": 0.1}, "mmr": {"enabled": True, "lambda": 0.1, "k": 1}}}},
    "hybrid": {"t2": {"hybrid": {"enabled": False, "anchor_top_m": 1, "walk_hops": 2, "edge_threshold": 0.0, "lambda_graph": 1.0}}},
    "reflection": {"t3": {"allow_reflection": False, "reflection": {"backend": "rulebased", "summary_tokens": 1, "topk_snippets": 1}},
                   "scheduler": {"enabled": False, "budgets": {"ops_reflection": 5, "time_ms_reflection": 1}}},
}
FORBIDDEN = {"scheduler_rr": ["scheduler.jsonl"], "scheduler_fq": ["scheduler.jsonl"], "graph": ["gel.jsonl"], "reflection": ["t3_reflection.jsonl", "scheduler.jsonl"],
             "perf": [], "quality": [], "hybrid": []}


def _read_logs(d) -> Dict[str, list]:
    out: Dict[str, list] = {}
    for root, _dirs, files in os.walk(d):
        for fn in sorted(files):
            rel = os.path.relpath(os.path.join(root, fn), d)
            rows = []
            with open(os.path.join(root, fn), encoding="utf-8") as f:
                for line in f:
                    if not line.strip():
                        continue
                    try:
                        r = json.loads(line)
                    except ValueError:
                        r = {"__raw__": line}
                    rows.append({k: v for k, v in r.items() if k not in VOLATILE} if isinstance(r, dict) else r)
            out[rel] = rows
    return out


def _read_snaps(d) -> Dict[str, Any]:
    out: Dict[str, Any] = {}
    if os.path.isdir(d):
        for fn in sorted(os.listdir(d)):
            if fn.endswith(".meta"):
                continue
            with open(os.path.join(d, fn), "rb") as f:
                out[fn] = f.read().decode("utf-8", "replace").replace(d, "<SNAP>")
    return out


def _run_demo(doc: dict, root: str, agents: str, steps: int, text: str) -> Dict[str, Any]:
    import yaml
    from .. import engine as E
    import clematis.scripts.demo as demo
    import clematis.io.paths as paths
    E.reset_global_caches()
    os.makedirs(root, exist_ok=True)
    cfg_path = os.path.join(root, "config.yaml")
    with open(cfg_path, "w", encoding="utf-8") as f:
        yaml.safe_dump(doc, f)
    out_dir = os.path.join(root, "out")
    snap_env = os.path.join(root, "snaps")
    old_cwd, old_argv, old_logs_dir = os.getcwd(), sys.argv, paths.logs_dir
    old_env = {k: os.environ.get(k) for k in ("CLEMATIS_SNAPSHOT_DIR", "CLEMATIS_LOG_DIR", "CI")}
    os.environ.update({"CLEMATIS_SNAPSHOT_DIR": snap_env, "CLEMATIS_LOG_DIR": out_dir, "CI": "true"})      # never write into the repository
    os.chdir(root)
    sys.argv = ["demo", "--config", cfg_path, "--agents", agents, "--steps", str(steps), "--text", text, "--out", out_dir, "--fixed-now-ms", "13371337"]
    buf = io.StringIO()
    err = None
    try:
        with contextlib.redirect_stdout(buf):
            demo.main()
    except SystemExit as e:
        err = None if e.code in (0, None) else f"demo exited with {e.code}"
    except Exception as e:      # noqa: BLE001
        err = f"{type(e).__name__}: {e}"
    finally:
        os.chdir(old_cwd)
        sys.argv = old_argv
        paths.logs_dir = old_logs_dir
        for k, v in old_env.items():
            if v is None:
                os.environ.pop(k, None)
            else:
                os.environ[k] = v
    lines = buf.getvalue().splitlines()
    # which agent ran at each step (the printed pick REASON names the policy in force and is not one of the artefacts the
    # property lists: with fair_queue configured and the gate off it reads AGING_BOOST instead of ROUND_ROBIN for the same agent)
    picks = []
    for ln in lines:
        if ln.startswith("["):
            head = ln.split("|")[0]
            picks.append(" ".join(tok for tok in head.split() if not tok.startswith("pick=")))
    utter = [ln.split("| utter=", 1)[1] for ln in lines if "| utter=" in ln]
    snaps = {"cwd/" + k: v for k, v in _read_snaps(os.path.join(root, ".data", "snapshots")).items()}
    snaps.update({"env/" + k: v for k, v in _read_snaps(snap_env).items()})
    return {"err": err, "picks": picks, "utterances": utter, "logs": _read_logs(out_dir), "snapshots": snaps}


def demo_pair_case(case) -> List[Tuple[str, str]]:
    import yaml
    from .. import engine as E
    repo = os.environ.get("VERIF_REPO", "/repo")
    with open(os.path.join(repo, "configs", "config.yaml")) as f:
        base_doc = yaml.safe_load(f) or {}
    var = VARIANTS[case["variant"]]
    # base: the shipped configuration without the feature's subtree; variant: the same plus the closed, customised subtree
    base = copy.deepcopy(base_doc)
    for top, sub in var.items():
        if top in ("t2", "t3"):
            for k in sub:
                (base.get(top) or {}).pop(k, None)
        else:
            base.pop(top, None)
    doc_b = E.deep_merge(copy.deepcopy(base), var)
    work = tempfile.mkdtemp(prefix="c02d_", dir=case["workdir"])
    fails: List[Tuple[str, str]] = []
    try:
        a = _run_demo(base, os.path.join(work, "a"), case["agents"], case["steps"], case["text"])
        b = _run_demo(doc_b, os.path.join(work, "b"), case["agents"], case["steps"], case["text"])
        where = f"demo driver, agents {case['agents']}, {case['steps']} steps, closed+customised {case['variant']}"
        if a["err"] or len(a["picks"]) != case["steps"]:
            return [("__machinery__", f"{where}: base run did not produce {case['steps']} turns: {a['err']} {a['picks']}")]
        if b["err"]:
            fails.append(("InertSubtree", f"{where}: the run with the closed subtree failed: {b['err']}"))
            return fails
        for name in FORBIDDEN[case["variant"]]:
            if any(os.path.basename(k) == name for k in b["logs"]):
                fails.append(("NoGatedArtefact", f"{where}: {name} written while the gate is off"))
        for key in ("picks", "utterances", "snapshots", "logs"):
            if a[key] != b[key]:
                if key == "logs":
                    diff = sorted(k for k in set(a[key]) | set(b[key]) if a[key].get(k) != b[key].get(k))
                    extra = f"streams {diff}"
                elif key == "snapshots":
                    extra = f"files {sorted(a[key])} vs {sorted(b[key])}"
                else:
                    extra = f"{a[key]} vs {b[key]}"
                fails.append(("InertSubtree", f"{where}: {key} differ from the run whose configuration omits the subtree ({extra})"))
                break
        return fails
    finally:
        shutil.rmtree(work, ignore_errors=True)


def check(run) -> None:
    from ..util import pmap
    from ..tlc import TLCError
    q = run.quick
    cases = []
    for v in VARIANTS:
        for agents, steps in ([("AgentA,AgentB,AgentC", 4)] if q else [("AgentA,AgentB,AgentC", 4), ("Zed,alpha", 5), ("Solo", 3)]):
            for text in (["hello world"] if q else ["hello world", "apple banana"]):
                cases.append({"variant": v, "agents": agents, "steps": steps, "text": text, "workdir": run.workdir})
    for c, fails in zip(cases, pmap(demo_pair_case, cases, chunk=1, procs=8)):
        cc = {k: v for k, v in c.items() if k != "workdir"}
        if fails and fails[0][0] == "__machinery__":
            raise TLCError("C02 demo driver: " + fails[0][1])
        run.traces += 1
        run.case(("demo_pair", json.dumps(cc, sort_keys=True)))
        if not fails:
            run.ok("InertSubtree.demo_driver")
        for clause, msg in fails:
            run.fail(clause, {"clause": clause, "driver": "demo", "variant": c["variant"]}, cc, msg, replay={"demo_pair": cc})
