"""C18 — binding to the orchestrator (clematis.engine.orchestrator.core.run_turn): the graph_enabled gate
and the sequencing observe -> tick -> merge / split / promotion passes.

(S->C)  every Turn(items, flags) transition of the Gel model is executed as ONE real engine turn: the
       retrieval is scripted through the documented `orchestrator.t2_semantic` seam, log records are
       captured through `orchestrator.append_jsonl`; the GEL store after the turn is compared with the
       spec, the gel.jsonl records with the spec's counts; with graph.enabled=false the store must be
       untouched and no gel record may appear, whatever the maintenance switches say.
(C->S)  sessions of consecutive real turns with random float configurations; the gel functions bound in
       the orchestrator's namespace are wrapped (harness side) so that the store is recorded after every
       stage; the recordings are validated by GelTrace like the direct histories.
"""
from __future__ import annotations

import copy
import json
import os
from types import SimpleNamespace
from typing import Any, Dict, List, Tuple

from ..util import Def, make_cfg, pmap, rng, split_defs

_WD = {"dir": None}


class AD(dict):
    """dict with attribute access (what run_smoke_turn builds from a validated config)"""

    def __getattr__(self, k):
        try:
            return self[k]
        except KeyError as e:
            raise AttributeError(k) from e

    def __setattr__(self, k, v):
        self[k] = v


def ad(o):
    if isinstance(o, dict):
        return AD({k: ad(v) for k, v in o.items()})
    if isinstance(o, list):
        return [ad(v) for v in o]
    return o


def _env(tag: str) -> str:
    d = os.path.join(_WD["dir"] or "/verif/.work/C18", "turns", f"{tag}_{os.getpid()}")
    os.makedirs(d, exist_ok=True)
    os.environ["CLEMATIS_LOG_DIR"] = os.path.join(d, "logs")
    os.environ["CLEMATIS_SNAPSHOT_DIR"] = os.path.join(d, "snaps")
    os.environ["CI"] = "true"
    os.chdir(d)
    return d


def _full_cfg(graph: Dict[str, Any], d: str) -> AD:
    from configs.validate import validate_config
    return ad(validate_config({"t4": {"snapshot_dir": os.path.join(d, "snaps")}, "graph": copy.deepcopy(graph)}))


def run_real_turn(graph: Dict[str, Any], state: Dict[str, Any], items: List[Tuple[str, float]], turn_id: str, d: str):
    """one real run_turn with a scripted retrieval; -> captured (stream, record) list"""
    import clematis.engine.orchestrator as orch
    from clematis.engine.orchestrator import core
    from clematis.engine.types import EpisodeRef, T2Result
    logs: List[Tuple[str, Dict[str, Any]]] = []
    old = (orch.append_jsonl, orch.t2_semantic)

    def fake_t2(ctx, st, text, t1):
        return T2Result(retrieved=[EpisodeRef(id=i, owner="A", score=s, text=f"episode {i}") for i, s in items],
                        graph_deltas_residual=[], metrics={"k_returned": len(items), "k_used": len(items)})

    orch.append_jsonl = lambda name, rec: logs.append((name, rec))
    orch.t2_semantic = fake_t2
    try:
        ctx = SimpleNamespace(turn_id=turn_id, agent_id="A", now=None, now_ms=0, cfg=_full_cfg(graph, d))
        core.run_turn(ctx, state, "hello")
    finally:
        orch.append_jsonl, orch.t2_semantic = old
    return logs


def replay_turn(case) -> List[Tuple[str, Dict[str, Any], str]]:
    from . import c18
    consts, t = case
    nm = c18.names(consts["NN"], consts["NLow"])
    c, obs, on = t["cfg"], t["obs"], t["gate"]
    fm, fs, fp = obs["flags"]
    g = c18.graph_cfg(c, on, 1)
    if g is None:
        return [("__rejected__", {}, "config not accepted by the validator")]
    g["merge"]["enabled"], g["split"]["enabled"], g["promotion"]["enabled"] = bool(fm), bool(fs), bool(fp)
    d = _env("sc")
    state = c18.build_state(t["pre"], nm)
    state.update({"version_etag": "0", "_boot_loaded": True})
    pre = copy.deepcopy(state["graph"])
    items = [(nm[i], c18.fl(s)) for i, s in obs["items"]]
    fails: List[Tuple[str, Dict[str, Any], str]] = []
    try:
        logs = run_real_turn(g, state, items, "7", d)
    except Exception as e:       # a turn must complete (C20); here it is simply a failed binding
        return [("TurnBinding", {"cause": "turn-raised"}, f"run_turn raised {type(e).__name__}: {e}")]
    gel = [r for n, r in logs if n == "gel.jsonl"]
    if not on:
        if state.get("graph") != pre:
            fails.append(("GateOffUntouched", {"cause": "state-touched"},
                          f"run_turn with graph.enabled=false (merge/split/promotion enabled={fm, fs, fp}) changed state.graph: {c18._diff({'graph': pre}, state)}"))
        if gel:
            fails.append(("GateOffUntouched", {"cause": "gel-logged"}, f"run_turn with graph.enabled=false wrote gel records {gel}"))
        return fails
    lo, hi = c["lo"] / c18.D, c["hi"] / c18.D
    for msg in c18.canonical_keys(state["graph"]["edges"]):
        fails.append(("OneEdgePerUnorderedPair", {"cause": "non-canonical-key"}, f"after a turn: {msg}"))
    got_e, exp_e = c18.alpha_edges(state), c18.want_edges(t["post"], nm)
    if got_e != exp_e:
        bad = [k for k, v in got_e.items() if v[2] == "coact" and not (lo <= v[3] <= hi)]
        pre_ok = not c18.within_clamp(pre["edges"], lo, hi)
        exp_bad = [k for k, v in exp_e.items() if v[2] == "coact" and not (lo <= v[3] <= hi)]
        if bad and pre_ok and not exp_bad:
            fails.append(("WithinClamp", {"cause": "turn-outside-clamp"}, f"after a turn: {bad[0]} = {got_e[bad[0]][3]} outside [{lo}, {hi}]"))
        fails.append(("TurnSequencing", {"cause": "post-state-differs"}, f"after a turn with items {items} flags {fm, fs, fp}: edges {c18._ediff(got_e, exp_e)} (got vs spec)"))
    if set(state["graph"]["nodes"]) != {nm[r] for r in t["post"]["nodes"]}:
        fails.append(("MaintenanceOnlyAnnotatesOrAttaches", {"cause": "nodes-differ"},
                      f"after a turn: nodes {sorted(state['graph']['nodes'])}, spec says {sorted(nm[r] for r in t['post']['nodes'])}"))
    meta = state["graph"]["meta"]
    if meta.get("merges") != [c18.merge_rec(m, nm) for m in t["post"]["merges"]] or \
            [dict(s, parts=sorted(s["parts"])) for s in meta.get("splits", [])] != [c18.split_rec(s, nm) for s in t["post"]["splits"]]:
        fails.append(("MaintenanceRecords", {"cause": "meta-differs"}, f"after a turn: meta {meta.get('merges')} / {meta.get('splits')} differ from the spec"))
    # log records: observe, decay, maintenance (only when a pass is switched on), in this order
    want = ["observe_retrieval", "edge_decay"] + (["maint"] if (fm or fs or fp) else [])
    kinds = [r.get("event") or ("maint" if "merge_attempts" in r else "?") for r in gel]
    if kinds != want:
        fails.append(("TurnSequencing", {"cause": "gel-records"}, f"gel.jsonl records {kinds}, expected {want}"))
    else:
        o, dcy = gel[0], gel[1]
        if (o["k_in"], o["k_used"], o["pairs_updated"]) != (len(items), obs["kused"], obs["pairs"]):
            fails.append(("ObserveOnlyTopKAboveThreshold", {"cause": "selection-differs"},
                          f"turn: observe record {o}, spec k_used={obs['kused']} pairs={obs['pairs']}"))
        if o["pairs_updated"] > c["cap"]:
            fails.append(("ObserveAtMostPairCap", {"cause": "cap-exceeded"}, f"turn: pairs_updated {o['pairs_updated']} > {c['cap']}"))
        if dcy["dropped_edges"] != obs["dropped"]:
            fails.append(("TickDropsExactlyBelowFloor", {"cause": "drop-count"}, f"turn: dropped_edges {dcy['dropped_edges']}, spec {obs['dropped']}"))
        if len(gel) == 3:
            m = gel[2]
            got = (m["merge_attempts"], m["merge_applied"], m["split_attempts"], m["split_applied"], m["promotion_applied"])
            exp = (obs["mcands"], obs["mapplied"], obs["scands"], obs["sapplied"], obs["papplied"])
            if got != exp:
                fails.append(("TurnSequencing", {"cause": "maintenance-counts"}, f"turn: maintenance record {got}, spec {exp}"))
    return fails


# ------------------------------------------------------------------------------------------------
# sessions of real turns, recorded per stage (C->S)
# ------------------------------------------------------------------------------------------------
def _known(rank, st, e) -> bool:
    """every id in the store is inside the logged universe (nested concept ids "c::c::.." grow without bound)"""
    g = st.get("graph") or {}
    ids = {r.get("src") for r in g.get("edges", {}).values()} | {r.get("dst") for r in g.get("edges", {}).values()}
    return all(x["r"] for x in e["nodes"]) and all(i in rank for i in ids)


def gen_session(args) -> Dict[str, Any]:
    from clematis.engine.orchestrator import core
    from . import c18_traces as T
    seed, tidn, turns, tol = args
    r = rng(seed, "gel-session", tidn)
    gcfg = T.draw_config(r)
    for k in ("merge", "split", "promotion"):
        gcfg[k]["enabled"] = r.random() < 0.7
    ids = r.sample([x for x in T.POOL if x], r.choice([3, 4, 6]))
    rank = T.universe(T.POOL)
    upd, dec = gcfg["update"], gcfg["decay"]
    c = {"lo": T.enc(upd["clamp_min"]), "hi": T.enc(upd["clamp_max"]), "floor": T.enc(dec["floor"]),
         "thr": T.enc(gcfg["coactivation_threshold"]), "topk": min(int(gcfg["observe_top_k"]), 100000),
         "cap": min(int(gcfg["pair_cap_per_obs"]), 100000)}
    d = _env("cs")
    state: Dict[str, Any] = {"version_etag": "0", "_boot_loaded": True}
    from clematis.engine import gel
    gel._ensure_graph_store(state)
    ev: List[Dict[str, Any]] = [dict(T.snapshot(state, rank), op="init", gate=True)]
    cur = {"items": []}
    names = ("gel_observe", "gel_tick", "gel_apply_merge", "gel_apply_split", "gel_apply_promotion")
    saved = {n: getattr(core, n) for n in names}

    def wrap(n, op):
        real = saved[n]

        def w(ctx, st, *a, **kw):
            out = real(ctx, st, *a, **kw)
            e = dict(T.snapshot(st, rank, ev[-1]["ml"]), op=op, gate=True)
            if op == "observe":
                e.update(items=[[rank[i], T.enc(s)] for i, s in cur["items"]], pairs=int(out["pairs_updated"]),
                         kused=int(out["k_used"]), permok=True)
            if op == "tick":
                e.update(dt0=False, half=(int(dec["half_life_turns"]) == 1))
            if cur.get("stop") or not _known(rank, st, e):
                cur["stop"] = True            # ids beyond the logged universe: the recording ends here
            else:
                ev.append(e)
            return out
        return w

    for n, op in zip(names, ("observe", "tick", "merge", "split", "promote")):
        setattr(core, n, wrap(n, op))
    try:
        for k in range(turns):
            on = r.random() < 0.8
            n = r.choice([0, 2, 3, 3, 4, 5])
            cur["items"] = [(r.choice(ids), r.choice([0.2, 0.5, 0.9, 1.0, 0.0]) if r.random() < 0.3 else r.random()) for _ in range(n)]
            before = len(ev)
            run_real_turn(dict(gcfg, enabled=on), state, cur["items"], str(k + 1), d)
            if not on and not cur.get("stop"):
                if len(ev) != before:
                    ev.append(dict(ev[-1], op="gated-call", gate=True))      # a gel function ran behind a closed gate
                ev.append(dict(T.snapshot(state, rank, ev[-1]["ml"]), op="turn", gate=False))
            if cur.get("stop"):
                break
    finally:
        for n in names:
            setattr(core, n, saved[n])
    return {"tid": tidn, "c": c, "ev": ev, "cfg": gcfg}


def check(run) -> None:
    from ..tlc import TLCError
    from . import c18, c18_traces as T
    _WD["dir"] = run.workdir
    q = run.quick
    D = c18.D
    # ---- S->C: Turn transitions of the model as real engine turns ---------------------------------
    chain4 = c18.graph_def({(1, 2): D // 2, (2, 7): D // 4, (7, 8): D // 2, (1, 7): D})
    consts = c18.base_consts(NN=4, Modes=["additive"], AlphaDens=[2], Clamps=c18.clamp_def([(-D, D)]),
                             Floors=[D // 4], Thresholds=[D // 2], TopKs=[3], PairCaps=[2],
                             Maints=Def(c18.tla_set([c18.M1] if q else [c18.M1, c18.M2])),
                             InitGraphs=Def(c18.tla_set(["<<>>", chain4])), ItemIds=c18.seq_def([1, 2, 7]),
                             Scores=c18.seq_def([D] if q else [D // 4, D]), MaxItems=2 if q else 3, Ops=["turn"], InitGates=[True, False],
                             MaxDepth=1 if q else 2)
    res = c18.tlc_retry(run, "Gel", make_cfg(consts, c18.INVS, c18.PROPS, spec="SpecD"), name="turns", workers=1, timeout_s=900,
                        defs=split_defs(consts))
    run.model_must_hold(res)
    small = {"NN": 4, "NLow": 2}
    cases = [(small, t) for t in res.emitted if t["obs"]["op"] == "turn"]
    outs = pmap(replay_turn, cases, chunk=8)
    for (cst, t), fails in zip(cases, outs):
        if fails and fails[0][0] == "__rejected__":
            run.guarded_out += 1
            continue
        run.traces += 1
        run.case(("turn", json.dumps(t, sort_keys=True)))
        if not fails:
            run.ok("Gel.turn.conforms" if t["gate"] else "Gel.turn.gate_off_untouched")
        for clause, sig, msg in fails:
            run.fail(clause, dict(sig, clause=clause), {"family": "turn", "transition": t}, f"engine turn: {msg}",
                     replay={"family": "turn", "constants": cst, "transition": t})
    if cases:
        pick = [x for x in cases if x[1]["gate"] and x[1]["obs"]["papplied"]] or cases
        run.sample({"family": "turn", "transition": pick[0][1]}, cap=12)
    # ---- C->S: sessions of real turns ------------------------------------------------------------------
    n, turns = (12, 8) if q else (300, 12)
    tol: List[str] = []
    args = [(run.seed, 100000 + i, turns, tuple(tol)) for i in range(n)]
    traces = pmap(gen_session, args, procs=None if not q else 4, chunk=1)
    cfgs = {t["tid"]: t.pop("cfg") for t in traces}
    ctl = None
    for t in traces:
        ctl = T.corrupt(t, "gate", -11) or ctl
        if ctl:
            break
    if ctl is None:
        ctl = T.corrupt(traces[0], "key", -11) or T.corrupt(traces[0], "tick-grew", -11)
    v = run.validate_traces("GelTrace", {}, traces + ([ctl] if ctl else []), name="GelTrace_sessions", timeout_s=1500)
    if ctl is None:
        # no edge ever appeared in any session: a machinery failure unless the sessions themselves are rejected
        if all(v[t["tid"]][0] == "ok" for t in traces) and not run.violations:
            raise TLCError("no session offers a place for a negative control")
    else:
        if v[ctl["tid"]][0] == "ok":
            raise TLCError("GelTrace accepted the negative control of the turn sessions")
        run.ok("GelTrace.negative_control_rejected.session")
    for t in traces:
        verdict, pos = v[t["tid"]]
        run.traces += 1
        run.case(("gelsession", t["tid"]))
        if verdict == "ok":
            run.ok("GelTrace.session_accepted")
            continue
        clause, _, cause = verdict.partition(":")
        e = t["ev"][pos - 1] if 0 < pos <= len(t["ev"]) else None
        cfgd = T.safe(cfgs[t["tid"]])
        run.fail(clause, {"clause": clause, "cause": cause},
                 {"tid": t["tid"], "position": pos, "graph_config": cfgd, "event": T._brief(e), "previous": T._brief(t["ev"][pos - 2]) if pos >= 2 else None},
                 f"session of real turns {t['tid']} (update={cfgd['update']} decay={cfgd['decay']}): event {pos} ({e['op'] if e else '?'}) rejected by GelTrace: {verdict}",
                 replay={"family": "turn.session", "args": [run.seed, t["tid"], turns, list(tol)]})


def replay(r) -> List[Tuple[str, str]]:
    _WD["dir"] = "/verif/.work/C18_replay"
    if r["family"] == "turn":
        return [(c, m) for c, _s, m in replay_turn((r["constants"], r["transition"]))]
    from .. import tlc as _tlc
    from . import c18_traces as T
    seed, tidn, turns, tol = r["args"]
    t = gen_session((seed, tidn, turns, tuple(tol)))
    t.pop("cfg")
    wd = "/verif/.work/C18_replay"
    os.makedirs(wd, exist_ok=True)
    path = os.path.join(wd, "session.ndjson")
    with open(path, "w") as f:
        f.write(json.dumps(t, separators=(",", ":")) + "\n")
    res = _tlc.run_tlc("GelTrace", "SPECIFICATION TraceSpec\nPOSTCONDITION Done\n", wd, name="GelTrace_replay", workers=1,
                       env={"TRACE_FILE": path})
    verdict, pos = res.verdicts.get(tidn, ("no-verdict", 0))
    if verdict == "ok":
        return []
    return [(verdict.partition(":")[0], f"session {tidn}: event {pos} {T._brief(t['ev'][pos - 1]) if pos else ''} rejected: {verdict}")]
