"""C01 — turn execution is reproducible byte-for-byte.

(M)    Turn.tla (simulation) generates multi-turn behaviours over the gate/kill/reflection inputs; the
       harness adds seeded worlds (1-3 graphs with tags and duplicate labels, 0-6 episodes with two
       owners and exact score ties, GEL edges) and configuration knobs.  Repro.tla states the property
       as a functional dependency (observation key -> byte token) over all runs of one behaviour.
(S->C->S) every behaviour is executed by subprocesses under nuisance settings — PYTHONHASHSEED in
       {0, 1, seed-derived}, scripted perf-counter patterns (constant, +1 h per call, random), thread
       switch-interval jitter with the T1/T2 pools on, and once more warm in the same process — writing
       real log files under CI=true; utterances, canonical log lines (T1, T2, T4, apply, turn, health)
       and snapshot bodies are digested and all runs of a behaviour are validated in one Repro trace.
"""
from __future__ import annotations

import json
import os
import subprocess
import sys
from typing import Any, Dict, List, Tuple

from ..util import make_cfg, pmap

MANIFEST = {
    "technique": "TLA+ turn-pipeline spec used in simulation mode to generate multi-turn behaviours; each behaviour executed on the real engine in subprocesses under different hash seeds, scripted perf-counter patterns, thread jitter and cold/warm process; the observations of all runs validated by TLC against a functional-dependency trace spec (Repro.tla: observation key determines byte token)",
    "text": "Model-generated behaviours (gate, kill-switch and reflection inputs over 3 turns, two agents) on seeded worlds and configurations are run under every nuisance setting the property quantifies over; byte digests of utterances, canonical CI-normalised log lines as written to disk and snapshot bodies are checked by TLC for functional dependence on the behaviour alone.",
    "note": "Byte identity is decided on SHA-256 digests of the on-disk bytes with the scratch directory normalised. Inputs always carry a logical clock (ctx.now, ctx.now_ms). Worlds are small (<= 3 graphs, <= 6 episodes). Thread timing is perturbed by switch-interval jitter, not enumerated.",
}

DIAG = {"cache_hits", "cache_misses", "cache_used", "max_delta", "cache_hit", "cache_size"}


def _mask(line: str) -> str:
    try:
        r = json.loads(line)
    except Exception:
        return line
    for k in list(r):
        if k in DIAG:
            r.pop(k)
    if isinstance(r.get("t2"), dict):
        r["t2"].pop("cache_hit", None)
    return json.dumps(r, sort_keys=True)


def run_variant(job) -> Dict[str, Any]:
    case_path, outdir, hashseed, clock, jitter = job
    env = dict(os.environ)
    repo = os.environ.get("VERIF_REPO", "/repo")
    env.update({"PYTHONHASHSEED": str(hashseed), "PYTHONPATH": f"{repo}:/verif", "CI": "true", "PYTHONDONTWRITEBYTECODE": "1"})
    p = subprocess.run(["/venv/bin/python", "-m", "harness.c01_runner", case_path, outdir, clock, "1" if jitter else "0"],
                       cwd="/verif", env=env, stdout=subprocess.PIPE, stderr=subprocess.PIPE, text=True, timeout=600)
    for line in p.stdout.splitlines():
        if line.startswith("C01RESULT "):
            return {"ok": True, "obs": json.loads(line[len("C01RESULT "):]), "variant": [hashseed, clock, jitter]}
    return {"ok": False, "err": (p.stderr or p.stdout)[-2000:], "variant": [hashseed, clock, jitter]}


def check(run) -> None:
    q = run.quick
    run.rule = ("behaviours simulated from Turn.tla x seeded world/config, each run under hash seeds x clock patterns x jitter x cold/warm in subprocesses; "
                "distinct = (behaviour, nuisance setting); a trace = all observations of one behaviour")
    nb = 10 if q else 250
    consts = {"MaxTurns": 3, "Vary": ["graph", "maint", "kill", "allow_refl", "plan_refl", "sched"], "ForceOn": [], "FaultSites": [], "MaxFaults": 0, "StashCleared": True}
    cfg = make_cfg(consts, ["YieldOnlyAtBoundary", "TurnCompletes", "NoArtefact", "VersionDiscipline"], [], emit=False, view=None, constraint="EmitDone")
    sim = run.tlc("Turn", cfg, name="Turn_simulate", workers=1, timeout_s=600, simulate=f"num={nb * 3}", depth=40)
    behaviours = [b["h"] for b in sim.emitted][:nb]
    if len(behaviours) < min(nb, 5):
        from ..tlc import TLCError
        raise TLCError(f"Turn simulation produced only {len(behaviours)} behaviours")
    variants = [(0, "zero", False), (1, "huge", False), (run.seed * 7919 + 12345, "random", True), (2, "random", False), (3, "zero", False)]
    if not q:
        variants += [(4, "random", False), (4242, "zero", True), (6, "huge", False)]
    jobs, cases = [], []
    for bi, h in enumerate(behaviours):
        case = {"h": h, "world": bi + run.seed * 1000}
        path = os.path.join(run.workdir, f"case_{bi}.json")
        with open(path, "w") as f:
            json.dump(case, f)
        cases.append(case)
        for vi, (hs, clock, jit) in enumerate(variants):
            jobs.append((path, os.path.join(run.workdir, f"out_{bi}_{vi}"), hs, clock, jit))
    outs = pmap(run_variant, jobs, chunk=1)
    by_b: Dict[int, List[dict]] = {}
    for job, o in zip(jobs, outs):
        bi = int(os.path.basename(job[0])[5:-5])
        if not o["ok"]:
            from ..tlc import TLCError
            raise TLCError(f"C01 runner failed for behaviour {bi} variant {o['variant']}: {o['err']}")
        by_b.setdefault(bi, []).append(o)
    # three traces per behaviour (see DESIGN C01): cold runs / full tokens; all runs / masked; all runs / full
    traces, lines_of = [], {}
    for bi, runs in sorted(by_b.items()):
        evX, evY, evZ = [], [], []
        for o in runs:
            for tag in ("cold", "warm", "warm2"):
                for ob in o["obs"][tag]:
                    k, t = ob[0], ob[1]
                    line = ob[2] if len(ob) > 2 else None
                    tm = t if line is None else __import__("hashlib").sha256(_mask(line).encode()).hexdigest()[:16]
                    lines_of.setdefault((bi, k), []).append((o["variant"], tag, line))
                    if tag == "cold":
                        evX.append({"k": k, "tok": t})
                    evY.append({"k": k, "tok": tm})
                    evZ.append({"k": k, "tok": t})
        traces += [{"tid": 3 * bi + 1, "ev": evX}, {"tid": 3 * bi + 2, "ev": evY}, {"tid": 3 * bi + 3, "ev": evZ}]
    ctl = {"tid": -1, "ev": [{"k": "t1.jsonl#0", "tok": "aaaa"}, {"k": "t1.jsonl#0", "tok": "bbbb"}]}
    v = run.validate_traces("Repro", {}, traces + [ctl], name="Repro", timeout_s=1500)
    if v[-1][0] == "ok":
        from ..tlc import TLCError
        raise TLCError("Repro accepted the negative control")
    run.ok("Repro.negative_control_rejected")
    for t in traces:
        bi, kind = (t["tid"] - 1) // 3, (t["tid"] - 1) % 3
        verdict, pos = v[t["tid"]]
        run.traces += 1
        run.case(("repro", bi, kind))
        if verdict == "ok":
            run.ok(["FunctionalOutput.cold_runs_identical", "FunctionalOutput.all_runs_identical_modulo_cache_diagnostics", "FunctionalOutput.all_runs_identical"][kind])
            continue
        key = t["ev"][pos - 1]["k"]
        seen = lines_of.get((bi, key), [])
        detail = "; ".join(f"{var}/{tag}: {(ln or '')[:160]}" for var, tag, ln in seen[:4])
        if kind == 2 and v[3 * bi + 1][0] == "ok" and v[3 * bi + 2][0] == "ok":
            run.fail("FunctionalOutput", {"fields": "cache-diagnostics", "cause": "process-global-cache-warmth"},
                     {"behaviour": cases[bi], "key": key}, f"behaviour {bi}: {key} differs between a cold and a warm run only in cache diagnostics: {detail}",
                     replay={"case": cases[bi]})
        else:
            what = ["cold runs differ (hash seed / clock / thread timing)", "runs differ outside cache diagnostics", "runs differ"][kind]
            run.fail("FunctionalOutput", {"fields": "other", "cause": ["nuisance", "warmth-or-nuisance", "any"][kind], "stream": key.split("#")[0]},
                     {"behaviour": cases[bi], "key": key}, f"behaviour {bi}: {what} at {key}: {detail}", replay={"case": cases[bi]})
    run.sample({"behaviour": cases[0], "variants": variants}, cap=2)
    run.extra["runs_per_behaviour"] = len(variants) * 2
    run.exhaustive = False
    run.assumptions += ["digest equality stands for byte equality", "worlds/configurations are seeded samples; nuisance dimensions are sampled, not enumerated"]


def replay(rep) -> int:
    case = rep["replay"]["case"]
    os.makedirs("/verif/.work/C01r", exist_ok=True)
    path = "/verif/.work/C01r/case.json"
    with open(path, "w") as f:
        json.dump(case, f)
    outs = [run_variant((path, f"/verif/.work/C01r/out{i}", hs, clock, jit)) for i, (hs, clock, jit) in enumerate([(0, "zero", False), (1, "huge", False), (77, "random", True)])]
    toks: Dict[str, set] = {}
    for o in outs:
        if not o["ok"]:
            print(o["err"])
            return 2
        for tag in ("cold", "warm", "warm2"):
            for ob in o["obs"][tag]:
                toks.setdefault(ob[0], set()).add(ob[1])
    bad = sorted(k for k, s in toks.items() if len(s) > 1)
    if bad:
        print("keys with more than one token:", bad[:20])
        print(f"VIOLATION property=C01 replay={rep.get('_path', '?')}")
        return 1
    print("replay: all runs identical")
    return 0
