"""C15 (C->S): long seeded random histories on the real containers, validated by TLC against the
LruBytes / NsCache specifications (LruBytesTrace, NsCacheTrace)."""
from __future__ import annotations

from typing import Any, Dict, List, Tuple

from ..util import rng

KEYS = [f"k{i:02d}" for i in range(12)]


def gen_lrubytes_trace(seed, tidn, maxe, maxb, n):
    from clematis.engine.util.lru_bytes import LRUBytes
    r = rng(seed, "lb", tidn, maxe, maxb)
    c = LRUBytes(maxe, maxb)
    ev: List[Dict[str, Any]] = []
    hi = max(2, (maxb or 64))
    for _ in range(n):
        x = r.random()
        k = r.choice(KEYS)
        if x < 0.55:
            v = r.randrange(1, 1000)
            cost = r.choice([0, 1, -3, r.randrange(0, hi + 2), r.randrange(0, max(2, hi // 3))])
            evn, evb = c.put(k, v, cost)
            ev.append({"op": "put", "k": k, "v": v, "c": cost, "evn": evn, "evb": evb})
        elif x < 0.85:
            got = c.get(k)
            ev.append({"op": "get", "k": k, "hit": got is not None, "v": got if got is not None else 0})
        elif x < 0.98:
            ev.append({"op": "contains", "k": k, "r": bool(k in c)})
        else:
            c.clear()
            ev.append({"op": "clear"})
    ev.append({"op": "final", "items": [[k, v] for k, v in c.items()], "bytes": c.size_bytes(),
               "entries": c.size_entries()})
    return {"tid": tidn, "ev": ev}


class _Clk:
    def __init__(self):
        self.t = 1000

    def __call__(self):
        return self.t


def gen_lrucache_trace(seed, tidn, mx, ttl, n):
    from clematis.engine.cache import LRUCache
    r = rng(seed, "lc", tidn, mx, ttl)
    clk = _Clk()
    c = LRUCache(max_entries=mx, ttl_s=ttl, time_fn=clk)
    ev: List[Dict[str, Any]] = []
    for _ in range(n):
        x = r.random()
        k = r.choice(KEYS[:8])
        if x < 0.4:
            v = r.randrange(1, 1000)
            e0 = c.stats["evicted"]
            c.set(k, v)
            ev.append({"op": "set", "ns": "n1", "k": k, "v": v, "evicted": c.stats["evicted"] - e0})
        elif x < 0.65:
            hit, v = c.get2(k)
            ev.append({"op": "get", "ns": "n1", "k": k, "hit": bool(hit), "v": v if hit else 0})
        elif x < 0.75:
            ev.append({"op": "contains", "ns": "n1", "k": k, "r": bool(k in c)})
        elif x < 0.8:
            ev.append({"op": "items", "ns": "n1", "ks": [kk for kk, _ in c.items()]})
        elif x < 0.97:
            dt = r.choice([1, 1, 2, 3, 7])
            clk.t += dt
            ev.append({"op": "tick", "dt": dt})
        else:
            ev.append({"op": "invalidate", "ns": "n1", "removed": c.invalidate()})
    now = clk.t
    clk.t = now - 10 ** 6
    items = [[k, v] for k, v in c.items()]
    clk.t = now
    ev.append({"op": "final", "items": {"n1": items}})
    return {"tid": tidn, "ev": ev}


def gen_mgr_trace(seed, tidn, mx, ttl, n):
    from clematis.engine.cache import CacheManager
    r = rng(seed, "mg", tidn, mx, ttl)
    clk = _Clk()
    m = CacheManager(max_entries=mx, ttl_sec=ttl, time_fn=clk)
    ev: List[Dict[str, Any]] = []
    nss = ["n1", "n2"]
    for _ in range(n):
        x = r.random()
        k = r.choice(KEYS[:6])
        ns = r.choice(nss)
        if x < 0.45:
            v = r.randrange(1, 1000)
            e0 = m.stats["evicted"]
            m.set(ns, ("etag", k), v)
            ev.append({"op": "set", "ns": ns, "k": k, "v": v, "evicted": m.stats["evicted"] - e0})
        elif x < 0.75:
            hit, v = m.get(ns, ("etag", k))
            ev.append({"op": "get", "ns": ns, "k": k, "hit": bool(hit), "v": v if hit else 0})
        elif x < 0.93:
            dt = r.choice([1, 1, 2, 3, 7])
            clk.t += dt
            ev.append({"op": "tick", "dt": dt})
        elif x < 0.98:
            ev.append({"op": "invalidate", "ns": ns, "removed": m.invalidate_namespace(ns)})
        else:
            ev.append({"op": "invalidate_all", "removed": m.invalidate_all()})
    items = {}
    for ns in nss:
        inner = getattr(m, "_ns", {}).get(ns)
        items[ns] = [[k[1], v] for k, v in (inner.items() if inner is not None else [])]
    ev.append({"op": "final", "items": items})
    return {"tid": tidn, "ev": ev}


def corrupt(t):
    """negative control: flip one recorded observation; the spec must reject the trace"""
    import copy
    c = copy.deepcopy(t)
    c["tid"] = -t["tid"]
    for e in c["ev"][len(c["ev"]) // 2:]:
        if e["op"] == "get":
            e["hit"] = not e["hit"]
            e["v"] = 7
            return c
        if e["op"] == "put":
            e["evn"] += 1
            return c
        if e["op"] == "set":
            e["evicted"] += 1
            return c
    return None


def _judge(run, fam, consts, traces, verdicts):
    for t in traces:
        if t["tid"] < 0:
            if verdicts[t["tid"]][0] == "ok":
                from ..tlc import TLCError
                raise TLCError(f"negative control for {fam} was accepted: the trace spec is vacuous")
            run.ok(f"{fam}.negative_control_rejected")
            continue
        v, pos = verdicts[t["tid"]]
        run.traces += 1
        run.case((fam, t["tid"], str(consts)))
        if v == "ok":
            run.ok(f"{fam}.trace_accepted")
        else:
            e = t["ev"][pos - 1] if 0 < pos <= len(t["ev"]) else None
            run.fail(v, {"family": fam, "op": (e or {}).get("op"), "direction": "trace"},
                     {"constants": consts, "event": e, "position": pos, "tid": t["tid"]},
                     f"{fam}: trace {t['tid']} rejected at event {pos} ({e}) by clause {v}",
                     replay={"family": fam + ".trace", "constants": consts, "trace": t})


def check(run) -> None:
    q = run.quick
    n = 250 if q else 600
    per = 12 if q else 60
    tidn = 0
    for (e, b) in ([(4, 0), (0, 40), (5, 64), (3, 9)] if q else [(4, 0), (0, 40), (5, 64), (3, 9), (8, 100), (1, 1), (0, 0), (2, 5)]):
        traces = []
        for _ in range(per):
            tidn += 1
            traces.append(gen_lrubytes_trace(run.seed, tidn, e, b, n))
        traces += [c for c in [corrupt(traces[0])] if c]
        consts = {"Keys": ["a"], "Costs": [0], "Vals": [0], "MaxE": e, "MaxB": b}
        v = run.validate_traces("LruBytesTrace", consts, traces, name=f"LruBytesTrace_e{e}_b{b}")
        _judge(run, "LRUBytes", consts, traces, v)
        if tidn == per:
            run.sample({"family": "LRUBytes.trace", "constants": consts, "first_events": traces[0]["ev"][:6]}, cap=12)
    for (m, ttl) in ([(3, 2), (4, 0), (2, 5)] if q else [(3, 2), (4, 0), (2, 5), (0, 3), (6, 1), (1, 1)]):
        traces = []
        for _ in range(per):
            tidn += 1
            traces.append(gen_lrucache_trace(run.seed, tidn, m, ttl, n))
        traces += [c for c in [corrupt(traces[0])] if c]
        consts = {"NS": ["n1"], "Keys": ["a"], "Vals": [0], "Max": m, "Ttl": ttl, "Ticks": [1]}
        v = run.validate_traces("NsCacheTrace", consts, traces, name=f"NsCacheTrace1_m{m}_t{ttl}")
        _judge(run, "LRUCache", consts, traces, v)
        traces = []
        for _ in range(per):
            tidn += 1
            traces.append(gen_mgr_trace(run.seed, tidn, m, ttl, n))
        traces += [c for c in [corrupt(traces[0])] if c]
        consts = {"NS": ["n1", "n2"], "Keys": ["a"], "Vals": [0], "Max": m, "Ttl": ttl, "Ticks": [1]}
        v = run.validate_traces("NsCacheTrace", consts, traces, name=f"NsCacheTrace2_m{m}_t{ttl}")
        _judge(run, "CacheManager", consts, traces, v)


def replay(r) -> List[Tuple[str, str]]:
    """re-generate is not possible from the trace alone: re-validate the recorded trace shape by
    re-running the generator with the recorded constants is done by the full check; here we only
    report the stored rejection."""
    return [("TraceRejected", f"stored trace for {r['family']} with constants {r['constants']} (re-run ./check C15 to regenerate)")]
