"""X10 helpers: materialise an abstract console world on disk, run one console command (in-process through
main(argv) / the umbrella CLI, or in a real subprocess `python -m clematis console -- ...`), project the
directories back to the abstract state of Console.tla and compare one transition with the specification.

Nothing is written outside the scratch root: cwd, CLEMATIS_LOG_DIR, CLEMATIS_SNAPSHOT_DIR,
CLEMATIS_SNAPSHOTS_DIR, TMPDIR / tempfile.tempdir, HOME and XDG_CONFIG_HOME all point below it."""
from __future__ import annotations

import contextlib
import copy
import io
import json
import os
import shutil
import subprocess
import sys
import tempfile
import zlib
from typing import Any, Dict, List, Optional, Tuple

EPOCH = 315532800                       # documented deterministic SOURCE_DATE_EPOCH (operator guide, section 2)
CLOCKS = {1: 315532800000, 2: 1000}     # --now-ms values (0 = omitted)
INPUTS = {1: "hello", 2: "zebra crossing now"}      # --input values (0 = omitted)
REQ_ENV = {"TZ": "UTC", "PYTHONHASHSEED": "0", "SOURCE_DATE_EPOCH": str(EPOCH), "CLEMATIS_NETWORK_BAN": "1"}
REQ_ORDER = ["TZ", "PYTHONHASHSEED", "SOURCE_DATE_EPOCH", "CLEMATIS_NETWORK_BAN"]
BAD_ENV = {"TZ": "Europe/Paris", "PYTHONHASHSEED": "4242", "CLEMATIS_NETWORK_BAN": "0"}
SCRUB = ["CLEMATIS_LOG_DIR", "CLEMATIS_LOGS_DIR", "CI", "CLEMATIS_T3_ALLOW", "CLEMATIS_T3_APPLY_OPS", "CLEMATIS_LLM_MODE",
         "CLEMATIS_LLM_CASSETTE", "CLEMATIS_CONFIG", "CLEMATIS_DEBUG", "CLEMATIS_TMP", "CLEMATIS_SNAPSHOT_DIR", "CLEMATIS_SNAPSHOTS_DIR"]
VOLATILE = {"ms", "ms_plan", "ms_rag", "ms_speak", "ms_deliberate", "durations_ms", "now"}
TURN_STREAMS = ["t1", "t2", "t4", "apply", "turn", "health"]
T3_STREAMS = ["t3", "t3_plan", "t3_dialogue"]
BUNDLE_STAGES = ["t1", "t2", "t3", "t3_plan", "t3_dialogue", "t3_reflection", "t3_filter", "t4", "apply", "turn"]
STAGE_FILES = [s + ".jsonl" for s in BUNDLE_STAGES]
EXPORT_META = ["logs_dir", "schema", "snapshots_dir", "stages", "tool"]
SCHED_LINES = ['{"event": "yield", "agent": "a"}', '{"event": "yield"}', 'not json', '{"x": 1}']
SCHED_COUNTS = {"yield": 2, "parse_error": 1, "unknown": 1}
MISUSE = {"nocmd": [], "badcmd": ["bogus"], "cmp_no_b": ["compare", "--a", "pre/p1.json"], "badint": ["step", "--now-ms", "abc"],
          "unknown_flag": ["status", "--frobnicate"], "reset_extra": ["reset", "now"]}

EMPTY_META = {"merges": [], "splits": [], "promotions": [], "concept_nodes_count": 0, "edges_count": 0, "schema": "v1.1"}


def repo() -> str:
    return os.environ.get("VERIF_REPO", "/repo")


# ---- abstract state <-> disk ---------------------------------------------------------------------------------
def norm_state(st: Dict[str, Any]) -> Dict[str, Any]:
    """the spec's JSON (empty function = [], sets = lists) as plain comparable python"""
    files = st["files"] if isinstance(st["files"], dict) else {}
    outs = st["outs"] if isinstance(st["outs"], dict) else {}
    return {"files": {k: dict(v) for k, v in files.items()}, "order": list(st["order"] or []), "log": list(st["log"] or []), "n3": int(st["n3"]),
            "outs": {k: norm_bundle(v) for k, v in outs.items()}}


def norm_bundle(b: Dict[str, Any]) -> Dict[str, Any]:
    if b["kind"] != "run":
        return {"kind": b["kind"]}
    return {"kind": "run", "log": list(b["log"] or []), "n3": int(b["n3"]), "snapv": int(b["snapv"]), "g": int(b["g"])}


def snap_path(name: str) -> str:
    return f"snaps/state_{name}.json"


def out_path(name: str) -> str:
    return f"pre/{name}.json" if name in ("p1", "p2", "p3", "junk") else f"out/{name}.json"


def _snapshot_payload(name: str, rec: Dict[str, Any]) -> str:
    if rec["kind"] == "trunc":
        return '{"turn": 1, "agent": "' + name + '", "version_etag": "3", "gel": {"nodes"'
    if rec["kind"] == "list":
        return "[1, 2]\n"
    nodes = {f"n{i}": {"id": f"n{i}", "label": f"concept {i}"} for i in range(1, rec["g"] + 1)}
    edges = {}
    if rec["g"] >= 2:
        edges = {"n1__n2__coact": {"src": "n1", "dst": "n2", "rel": "coact", "weight": 0.5, "updated_at": None, "attrs": {}}}
    meta = dict(EMPTY_META, edges_count=len(edges))
    return json.dumps({"turn": 1, "agent": name, "version_etag": str(rec["v"]), "applied": 0, "deltas": [], "schema_version": "v1", "store": {},
                       "graph_schema_version": "v1.1", "gel": {"nodes": nodes, "edges": edges, "meta": meta},
                       "graph": {"nodes_count": len(nodes), "edges_count": len(edges), "meta": {"last_update": None}}})


def _pre_bundle(kind: str) -> str:
    def logs(n, n3):
        d = {s: [] for s in BUNDLE_STAGES}
        for s in ("t1", "t2", "t4", "apply", "turn"):
            d[s] = [{"turn": "1", "agent": "console"} for _ in range(n)]
        d["t3"] = [{"turn": "1"} for _ in range(n3)]
        return d
    if kind == "p1":
        return json.dumps({"logs": logs(1, 0), "meta": {"logs_dir": "/x/logs", "schema": "v1", "snapshots_dir": "/x/snaps", "stages": STAGE_FILES, "tool": "clematis-export-logs"},
                           "snapshot": {"version_etag": "9", "schema_version": "v1"}}, indent=2) + "\n"
    if kind == "p2":
        d = {k: v for k, v in logs(1, 0).items() if k in ("t1", "t2", "t4", "apply", "turn")}
        return json.dumps({"meta": {"tool": "clematis-console", "schema": "v1", "stages": ["t1", "t2", "t4", "apply", "turn"]}, "snapshots": [], "logs": d}) + "\n"
    if kind == "p3":
        return json.dumps({"logs": logs(2, 1), "snapshots": [{}, {}], "meta": {}}) + "\n"
    return '{"logs": {"t1": [1, 2\n'       # junk


def materialise(root: str, st: Dict[str, Any], mode: Dict[str, Any]) -> None:
    """an INITIAL abstract state (no console output yet) as a directory tree"""
    st = norm_state(st)
    for d in ("snaps", "tmp", "pre", "home"):
        os.makedirs(os.path.join(root, d), exist_ok=True)
    for i, name in enumerate(st["order"]):
        rec = st["files"][name]
        p = os.path.join(root, snap_path(name))
        with open(p, "w", encoding="utf-8") as f:
            f.write(_snapshot_payload(name, rec))
        if rec["side"]:
            with open(p + ".meta", "w", encoding="utf-8") as f:
                f.write(json.dumps({"created_at": "1980-01-01T00:00:00Z", "schema_version": "v1"}) + "\n")
            os.utime(p + ".meta", ns=((10 ** 9 + 1000 * i) * 10 ** 9, (10 ** 9 + 1000 * i) * 10 ** 9))
        t = (10 ** 9 + 1000 * i) * 10 ** 9
        os.utime(p, ns=(t, t))
    for name, b in st["outs"].items():
        with open(os.path.join(root, out_path(name)), "w", encoding="utf-8") as f:
            f.write(_pre_bundle(b["kind"]))
    if mode["logdir"] == "set":
        os.makedirs(os.path.join(root, "logs"), exist_ok=True)
        if mode["sched"]:
            with open(os.path.join(root, "logs", "scheduler.jsonl"), "w", encoding="utf-8") as f:
                f.write("\n".join(SCHED_LINES) + "\n")


def _lines(p: str) -> List[str]:
    try:
        with open(p, encoding="utf-8") as f:
            return [ln for ln in f.read().split("\n") if ln.strip()]
    except FileNotFoundError:
        return []


def abstract_bundle(b: Any) -> Dict[str, Any]:
    """a console bundle (parsed JSON) as the spec's record; structural inconsistencies are reported in 'bad'"""
    if not isinstance(b, dict):
        return {"kind": "notadict"}
    bad = []
    logs = b.get("logs") if isinstance(b.get("logs"), dict) else {}
    if sorted(b.keys()) != ["logs", "meta", "snapshot"]:
        bad.append(f"top-level keys {sorted(b.keys())}")
    if sorted(logs.keys()) != sorted(BUNDLE_STAGES):
        bad.append(f"log stages {sorted(logs.keys())}")
    meta = b.get("meta") if isinstance(b.get("meta"), dict) else {}
    if sorted(meta.keys()) != EXPORT_META or meta.get("schema") != "v1" or meta.get("stages") != STAGE_FILES:
        bad.append(f"meta {json.dumps(meta)[:200]}")
    try:
        log = [int(r["version_etag"]) for r in logs.get("apply", [])]
    except Exception:
        log, _ = [], bad.append("apply records without version_etag")
    for s in ("t1", "t2", "t4", "turn"):
        if len(logs.get(s, [])) != len(log):
            bad.append(f"{s} has {len(logs.get(s, []))} records, apply {len(log)}")
    n3 = len(logs.get("t3_plan", []))
    for s in ("t3", "t3_dialogue"):
        if len(logs.get(s, [])) != n3:
            bad.append(f"{s} has {len(logs.get(s, []))} records, t3_plan {n3}")
    for s in ("t3_reflection", "t3_filter"):
        if logs.get(s):
            bad.append(f"{s} not empty")
    for s, recs in logs.items():
        for r in recs:
            if not isinstance(r, dict) or r.get("turn") != "1" or r.get("agent") != "console":
                bad.append(f"{s} record without turn '1' / agent 'console'")
                break
    snap = b.get("snapshot") if isinstance(b.get("snapshot"), dict) else {}
    try:
        snapv = int(snap.get("version_etag"))
    except Exception:
        snapv, _ = -1, bad.append("snapshot.version_etag missing")
    if not str(snap.get("path", "")).endswith("state_console.json") or snap.get("schema_version") != "v1":
        bad.append(f"snapshot {json.dumps(snap)[:200]}")
    out = {"kind": "run", "log": log, "n3": n3, "snapv": snapv, "g": int(snap.get("nodes") or 0)}
    if bad:
        out["bad"] = bad
    return out


def project(root: str) -> Dict[str, Any]:
    """the abstract state of the directories (Console.tla: files, order, log, n3, outs)"""
    files, mt = {}, {}
    sd = os.path.join(root, "snaps")
    names = sorted(os.listdir(sd)) if os.path.isdir(sd) else []
    for n in names:
        if n.endswith(".json.meta") and n[:-5] in names:
            continue
        if not (n.startswith("state_") and n.endswith(".json")):
            files["?" + n] = {"kind": "unexpected"}
            continue
        name = n[len("state_"):-len(".json")]
        p = os.path.join(sd, n)
        rec = {"kind": "trunc", "v": 0, "g": 0, "side": os.path.exists(p + ".meta")}
        try:
            with open(p, encoding="utf-8") as f:
                d = json.load(f)
            if isinstance(d, dict):
                rec.update(kind="good", v=int(d["version_etag"]), g=len((d.get("gel") or {}).get("nodes") or {}))
                if d.get("schema_version") != "v1" or (name == "console" and (d.get("agent") != "console" or d.get("turn") != 1)):
                    rec["kind"] = "good?"
            else:
                rec["kind"] = "list"
        except Exception:
            pass
        files[name] = rec
        mt[name] = os.stat(p).st_mtime_ns
    order = sorted(mt, key=lambda k: mt[k])
    ld = os.path.join(root, "logs")
    log: List[Any] = []
    for ln in _lines(os.path.join(ld, "apply.jsonl")):
        try:
            log.append(int(json.loads(ln)["version_etag"]))
        except Exception:
            log.append("?")
    for s in TURN_STREAMS:
        k = len(_lines(os.path.join(ld, s + ".jsonl")))
        if k != len(log):
            log.append(f"{s}:{k}")
    n3 = len(_lines(os.path.join(ld, "t3_plan.jsonl")))
    for s in T3_STREAMS:
        if len(_lines(os.path.join(ld, s + ".jsonl"))) != n3:
            n3 = -1
    outs = {}
    for sub in ("pre", "out"):
        d = os.path.join(root, sub)
        for n in sorted(os.listdir(d)) if os.path.isdir(d) else []:
            name = n[:-5] if n.endswith(".json") else "?" + n
            if sub == "pre":
                with open(os.path.join(d, n), encoding="utf-8") as f:
                    outs[name] = {"kind": name if f.read() == _pre_bundle(name) else "modified"}
                continue
            try:
                with open(os.path.join(d, n), encoding="utf-8") as f:
                    outs[name] = abstract_bundle(json.load(f))
            except Exception:
                outs[name] = {"kind": "junk"}
    return {"files": files, "order": order, "log": log, "n3": n3, "outs": outs}


def snapshot_tree(root: str) -> Dict[str, Any]:
    """everything below root: files with (size, mtime) and the log contents; directories"""
    files, dirs, logs = {}, set(), {}
    for base, dnames, fnames in os.walk(root):
        rel = os.path.relpath(base, root)
        for d in dnames:
            dirs.add(os.path.normpath(os.path.join(rel, d)))
        for f in fnames:
            p = os.path.join(base, f)
            st = os.stat(p)
            r = os.path.normpath(os.path.join(rel, f))
            files[r] = (st.st_size, st.st_mtime_ns)
            if r.startswith("logs" + os.sep):
                with open(p, "rb") as fh:
                    logs[r] = fh.read()
    return {"files": files, "dirs": dirs, "logs": logs}


# ---- running one command -------------------------------------------------------------------------------------
def env_for(root: str, mode: Dict[str, Any], ci: bool) -> Dict[str, str]:
    e = dict(REQ_ENV)
    for b in mode["badenv"]:
        e[b] = BAD_ENV[b]
    e["CLEMATIS_SNAPSHOT_DIR"] = os.path.join(root, "snaps")        # where the engine loads / writes (clematis.io.paths)
    e["CLEMATIS_SNAPSHOTS_DIR"] = os.path.join(root, "snaps")       # the documented variable of the console
    if mode["logdir"] == "set":
        e["CLEMATIS_LOG_DIR"] = os.path.join(root, "logs")
    e["TMPDIR"] = os.path.join(root, "tmp")
    e["HOME"] = os.path.join(root, "home")
    e["XDG_CONFIG_HOME"] = os.path.join(root, "home", ".config")
    if ci:
        e["CI"] = "true"
    return e


def argv_of(obs: Dict[str, Any]) -> List[str]:
    c = obs["cmd"]
    if c == "misuse":
        return list(MISUSE[obs["what"]])
    if c in ("reset", "status"):
        return [c] + ([] if obs["sarg"] == "none" else ["--snapshot", snap_path(obs["sarg"])])
    if c == "compare":
        return ["compare", "--a", out_path(obs["a"]), "--b", out_path(obs["b"])]
    a = ["step" if zlib.crc32(json.dumps(obs, sort_keys=True).encode()) % 4 else "next"]      # `next` is the documented alias of `step`
    if obs["sarg"] != "none":
        a += ["--snapshot", snap_path(obs["sarg"])]
    if obs["clock"]:
        a += ["--now-ms", str(CLOCKS[obs["clock"]])]
    if obs["input"]:
        a += ["--input", INPUTS[obs["input"]]]
    if obs["t3"]:
        a += ["--t3", "--llm-mode", "rulebased"]
    if obs["out"] != "none":
        a += ["--out", out_path(obs["out"])]
    return a


def run_inproc(root: str, argv: List[str], mode: Dict[str, Any], ci: bool, route: int) -> Dict[str, Any]:
    """route 0: clematis.scripts.console.main(argv); route 1: the umbrella CLI, clematis.cli.main.main(["console", "--", ...])"""
    import clematis.scripts.console as C
    import clematis.engine.orchestrator.core as OC
    from .. import engine as E
    saved_env, cwd, saved_tmp, saved_argv = dict(os.environ), os.getcwd(), tempfile.tempdir, list(sys.argv)
    calls: List[Dict[str, Any]] = []
    real = OC.run_turn

    def spy(ctx, state, text, *a, **k):
        calls.append({"now_ms": getattr(ctx, "now_ms", None), "text": text})
        return real(ctx, state, text, *a, **k)
    out, err = io.StringIO(), io.StringIO()
    rc: Any = None
    exc = None
    try:
        os.chdir(root)
        for k in SCRUB:
            os.environ.pop(k, None)
        os.environ.update(env_for(root, mode, ci))
        tempfile.tempdir = os.path.join(root, "tmp")
        E.reset_global_caches()         # every console command is a fresh process
        OC.run_turn = spy
        sys.argv = ["console"]
        with contextlib.redirect_stdout(out), contextlib.redirect_stderr(err):
            try:
                if route == 0:
                    rc = C.main(list(argv))
                else:
                    import clematis.cli.main as M
                    rc = M.main(["console", "--"] + list(argv))
            except SystemExit as e:
                rc = 0 if e.code is None else e.code
            except Exception as e:      # noqa: BLE001   (an uncaught exception ends the interpreter with status 1)
                exc, rc = type(e).__name__, 1
    finally:
        OC.run_turn = real
        os.chdir(cwd)
        os.environ.clear()
        os.environ.update(saved_env)
        tempfile.tempdir = saved_tmp
        sys.argv = saved_argv
    return {"rc": rc, "exc": exc, "out": out.getvalue(), "err": err.getvalue(), "calls": calls}


def run_subprocess(root: str, argv: List[str], mode: Dict[str, Any], ci: bool, route: int = 1) -> Dict[str, Any]:
    env = {"PATH": os.environ.get("PATH", "/usr/bin:/bin"), "PYTHONPATH": repo(), "PYTHONDONTWRITEBYTECODE": "1", "LC_ALL": "C.UTF-8", "PYTHONUTF8": "1"}
    env.update(env_for(root, mode, ci))
    cmd = [sys.executable, "-m", "clematis", "console"] + (["--"] if route else []) + list(argv)
    p = subprocess.run(cmd, cwd=root, env=env, capture_output=True, text=True, timeout=300)
    exc = None
    if "Traceback (most recent call last)" in p.stderr:
        last = [ln for ln in p.stderr.strip().splitlines() if ln and not ln.startswith(" ")][-1]
        exc = last.split(":")[0].split(".")[-1]
    return {"rc": p.returncode, "exc": exc, "out": p.stdout, "err": p.stderr, "calls": None}


# ---- comparing one transition with the spec -------------------------------------------------------------------
def mask(o: Any, root: str, unset_logdir: bool, top: bool = True) -> Any:
    """a bundle modulo the documented volatile fields (timings; the scratch root; the random temporary log directory)"""
    if isinstance(o, dict):
        out = {}
        for k, v in o.items():
            if k in VOLATILE:
                out[k] = 0
            else:
                out[k] = mask(v, root, unset_logdir, False)
        if top and unset_logdir and isinstance(out.get("meta"), dict) and "logs_dir" in out["meta"]:
            out["meta"] = dict(out["meta"], logs_dir="$TMP")
        return out
    if isinstance(o, list):
        return [mask(x, root, unset_logdir, False) for x in o]
    if isinstance(o, str):
        return o.replace(root, "$ROOT")
    return o


def _json_or_none(s: str):
    try:
        return json.loads(s)
    except Exception:
        return None


def exec_transition(root: str, t: Dict[str, Any], mode: Dict[str, Any], runner: str = "in", ci: bool = False, route: int = 0) -> Tuple[List[Tuple[str, str]], Dict[str, Any]]:
    """run the command of transition t (pre state = what is on disk under root) and compare with the spec.
    -> (failures [(clause, message)], info {"bundle": parsed bundle or None, "bytes": --out file bytes or None, "res": raw result})"""
    obs = t["obs"]
    argv = argv_of(obs)
    fails: List[Tuple[str, str]] = []
    before = snapshot_tree(root)
    res = run_inproc(root, argv, mode, ci, route) if runner == "in" else run_subprocess(root, argv, mode, ci, route)
    after = snapshot_tree(root)
    where = f"`console {' '.join(argv)}` ({runner}{'/umbrella' if route else ''}{', CI' if ci else ''}; logdir {mode['logdir']}; dir {norm_state(t['pre'])['order']})"
    info: Dict[str, Any] = {"bundle": None, "bytes": None, "res": res, "argv": argv}
    out, err = res["out"], res["err"]
    err_lines = [ln for ln in err.splitlines() if ln.strip()]

    # exit code (an unhandled exception = interpreter exit status 1 + traceback)
    crash = obs["err"] == "crash"
    if res["rc"] != obs["rc"] or (res["exc"] is not None) != crash:
        fails.append(("ExitCodesAsDocumented", f"{where}: exit {res['rc']}{' (uncaught ' + res['exc'] + ')' if res['exc'] else ''}, spec {obs['rc']}"
                      f"{' (unhandled exception, as implemented)' if crash else ''}; stderr {err.strip()[-300:]!r}"))

    # the warning about the environment: reset and step only, naming exactly the deviating variables
    warn = [ln for ln in err_lines if ln.startswith("[console] WARNING")]
    want_warn = [v for v in REQ_ORDER if v in obs["warn"]]
    exp_warn = [f"[console] WARNING: non-deterministic env vars differ: {want_warn}"] if want_warn else []
    if warn != exp_warn:
        fails.append(("WarnsOnlyWhereDocumented", f"{where}: warning lines {warn}, spec {exp_warn}"))
    other_err = [ln for ln in err_lines if not ln.startswith("[console] WARNING")]

    sel_path = None
    if obs["cmd"] in ("reset", "status"):
        if obs["sarg"] != "none":
            sel_path = snap_path(obs["sarg"])
        elif obs["sel"] != "none":
            sel_path = os.path.join(root, snap_path(obs["sel"]))

    c = obs["cmd"]
    if obs["rc"] == 2 and obs["err"] == "snapshot":
        p = sel_path if c != "step" else snap_path(obs["sarg"])
        if out.strip() or other_err != [f"[console] ERROR: failed to read snapshot: {p}"]:
            fails.append(("ExitCodesAsDocumented", f"{where}: a failed snapshot read must print one error line on stderr and nothing on stdout; stdout {out[:200]!r} stderr {other_err}"))
    elif obs["err"] == "usage":
        if out.strip() or not other_err or not other_err[0].startswith("usage: console") or not any(": error: " in ln for ln in other_err):
            fails.append(("ExitCodesAsDocumented", f"{where}: usage errors go to stderr (usage + error line), stdout stays empty; stdout {out[:200]!r} stderr {other_err[:3]}"))
    elif crash:
        if out.strip():
            fails.append(("ExitCodesAsDocumented", f"{where}: crashed but printed {out[:200]!r}"))
    elif c == "reset":
        hint = ["graph", "gel"] if obs["sel"] == "none" else ["gel", "graph", "version_etag", "store"]
        want = {"ok": True, "snapshot": sel_path, "state_hint": hint}
        got = _json_or_none(out)
        # (state_hint lists the keys of the loaded state: the documented ones must be there, in this order first)
        if not isinstance(got, dict) or dict(got, state_hint=None) != dict(want, state_hint=None) or list(got.get("state_hint") or [])[:len(hint)] != hint or other_err:
            fails.append(("ResetLoadsChosenSnapshot", f"{where}: printed {out.strip()[:300]!r} (stderr {other_err}), spec {want}"))
    elif c == "status":
        sched: Dict[str, Any] = {"policy": "round_robin", "fairness_keys": []}
        if obs["counts"]:
            sched["recent_event_counts"] = dict(SCHED_COUNTS)
        want = {"scheduler": sched, "budgets": {}}
        if sel_path:
            want = {"snapshot": sel_path, **want}
        if _json_or_none(out) != want or other_err:
            fails.append(("StatusIsPure", f"{where}: status printed {out.strip()[:300]!r} (stderr {other_err}), spec {want}"))
    elif c == "compare":
        got = _json_or_none(out)
        if obs["rc"] == 0:
            if got != {"equal": True} or other_err:
                fails.append(("CompareReflexive" if obs["a"] == obs["b"] else "CompareDetectsDifference", f"{where}: printed {out.strip()[:200]!r}, spec equal"))
        else:
            def cnt(s):
                return {"t1": s["turns"], "t2": s["turns"], "t3": s["t3"], "t3_reflection": 0, "t4": s["turns"], "apply": s["turns"], "turn": s["turns"]}
            metas = {"export": EXPORT_META, "min": ["schema", "stages", "tool"], "none": []}
            want = {}
            for k in obs["diff"]:
                if k == "counts":
                    want[k] = {"a": cnt(obs["sa"]), "b": cnt(obs["sb"])}
                elif k == "snapshots_len":
                    want[k] = {"a": obs["sa"]["snaps"], "b": obs["sb"]["snaps"]}
                else:
                    want[k] = {"a": metas[obs["sa"]["meta"]], "b": metas[obs["sb"]["meta"]]}
            if got != want or other_err:
                fails.append(("CompareDetectsDifference", f"{where}: printed {json.dumps(got)[:400]}, spec {json.dumps(want)[:400]}"))
    elif c == "step":
        logline = f"[console] using logs_dir={os.path.join(root, 'logs')}"
        if mode["logdir"] == "set":
            ok_err = other_err == [logline]
        else:
            ok_err = len(other_err) == 1 and other_err[0].startswith(f"[console] using logs_dir={os.path.join(root, 'tmp')}{os.sep}clematis-logs-")
        if not ok_err:
            fails.append(("ExitCodesAsDocumented", f"{where}: stderr of a successful step {other_err}"))
        want_b = norm_bundle(obs["bundle"])
        if obs["out"] == "none":
            b = _json_or_none(out)
        else:
            b = None
            if out.strip():
                fails.append(("BundleShape", f"{where}: with --out nothing goes to stdout, got {out[:200]!r}"))
            try:
                with open(os.path.join(root, out_path(obs["out"])), "rb") as f:
                    raw = f.read()
                info["bytes"] = raw
                b = json.loads(raw.decode("utf-8"))
                canon = json.dumps(_canonical(b), indent=2, ensure_ascii=False) + "\n"
                if raw.decode("utf-8") != canon or b"\r" in raw:
                    fails.append(("BundleShape", f"{where}: the --out file is not canonical JSON (sorted keys, indent 2, LF, final newline)"))
            except Exception as e:      # noqa: BLE001
                fails.append(("BundleShape", f"{where}: --out file unreadable: {type(e).__name__}: {e}"))
        info["bundle"] = b
        ab = abstract_bundle(b)
        if ab.get("bad"):
            fails.append(("BundleShape", f"{where}: {ab['bad'][:3]}"))
        ab.pop("bad", None)
        if ab != want_b:
            clause = "StepAdvancesExactlyOne" if ab.get("log") != want_b["log"] or ab.get("snapv") != want_b["snapv"] else "ResetLoadsChosenSnapshot" if ab.get("g") != want_b["g"] else "BundleShape"
            fails.append((clause, f"{where}: bundle {ab}, spec {want_b}"))
        if isinstance(b, dict):
            m = b.get("meta") or {}
            if m.get("snapshots_dir") != os.path.join(root, "snaps") or (mode["logdir"] == "set" and m.get("logs_dir") != os.path.join(root, "logs")):
                fails.append(("BundleShape", f"{where}: meta directories {m.get('logs_dir')} / {m.get('snapshots_dir')}"))

    # exactly one turn per successful step, none otherwise; the clock and the text that reach the orchestrator
    if res["calls"] is not None:
        calls = res["calls"]
        if len(calls) != obs["turns"]:
            fails.append(("StepAdvancesExactlyOne", f"{where}: run_turn called {len(calls)} times, spec {obs['turns']}"))
        elif calls:
            want_now = EPOCH * 1000 if obs["clock"] == 0 else CLOCKS[obs["clock"]]
            want_text = INPUTS.get(obs["input"], "")
            if calls[0]["now_ms"] != want_now or calls[0]["text"] != want_text:
                fails.append(("StepDeterministic", f"{where}: the orchestrator got now_ms={calls[0]['now_ms']} text={calls[0]['text']!r}, spec now_ms={want_now} "
                              f"({'SOURCE_DATE_EPOCH*1000' if obs['clock'] == 0 else '--now-ms'}) text={want_text!r}"))

    # what changed on disk
    changed = {p for p in set(before["files"]) | set(after["files"]) if before["files"].get(p) != after["files"].get(p)}
    newdirs = after["dirs"] ^ before["dirs"]
    allowed, allowed_dirs = set(), set()
    if c == "step" and obs["rc"] == 0:
        allowed = {os.path.normpath(snap_path("console")), os.path.normpath(snap_path("console") + ".meta")}
        if obs["out"] != "none":
            allowed.add(os.path.normpath(out_path(obs["out"])))
            allowed_dirs.add("out")
        if mode["logdir"] == "set":
            streams = TURN_STREAMS + (T3_STREAMS if obs["t3"] else [])
            for s in streams:
                r = os.path.join("logs", s + ".jsonl")
                allowed.add(r)
                old, new = before["logs"].get(r, b""), after["logs"].get(r, b"")
                if not (new.startswith(old) and new.endswith(b"\n") and new[len(old):].count(b"\n") == 1):
                    fails.append(("StepAdvancesExactlyOne", f"{where}: {r} did not grow by exactly one record ({old.count(10)} -> {new.count(10)} lines)"))
        for p in allowed - {os.path.join("logs", s + ".jsonl") for s in TURN_STREAMS + T3_STREAMS}:
            if p not in after["files"]:
                fails.append(("StepAdvancesExactlyOne", f"{where}: {p} was not written"))
    extra = sorted(changed - allowed) + sorted("dir " + d for d in newdirs - allowed_dirs)
    if extra:
        clause = "NothingWrittenOutsideOut" if obs["rc"] == 0 and c == "step" else "StatusIsPure" if c == "status" else "ResetFailureLeavesState" if obs["rc"] != 0 else "NothingWrittenOutsideOut"
        fails.append((clause, f"{where}: files created / modified / removed beyond what the command may write: {extra[:8]}"))

    # the abstract state after the command
    got, want_post = project(root), norm_state(t["post"])
    if got != want_post:
        diff = {k: (got[k], want_post[k]) for k in got if got[k] != want_post[k]}
        clause = ("StepAdvancesExactlyOne" if c == "step" and obs["rc"] == 0 else "StatusIsPure" if c == "status" else "ResetFailureLeavesState" if obs["rc"] != 0 else "NothingWrittenOutsideOut")
        fails.append((clause, f"{where}: state after the command differs from the spec in {json.dumps(diff, default=str)[:600]}"))
    return fails, info


def _canonical(o: Any) -> Any:
    if isinstance(o, dict):
        return {k: _canonical(o[k]) for k in sorted(o.keys())}
    if isinstance(o, list):
        return [_canonical(x) for x in o]
    return o


def same_bundle(a: Dict[str, Any], root_a: str, b: Dict[str, Any], root_b: str, mode: Dict[str, Any], exact: bool) -> Optional[str]:
    """two replays of the same step from the same state: byte-identical bundles when the volatile timings are
    normalised away by the run itself (CI=true, no T3 timings, fixed log directory), else identical modulo the
    documented volatile fields"""
    if a["bytes"] is not None and b["bytes"] is not None and exact:
        x, y = a["bytes"].replace(root_a.encode(), b"$ROOT"), b["bytes"].replace(root_b.encode(), b"$ROOT")
        if x != y:
            return "the two --out files differ byte-wise (CI=true: timings are zeroed by the run itself)"
    unset = mode["logdir"] == "unset"
    x, y = mask(a["bundle"], root_a, unset), mask(b["bundle"], root_b, unset)
    if x != y:
        ks = [k for k in (x or {}) if (x or {}).get(k) != (y or {}).get(k)] if isinstance(x, dict) and isinstance(y, dict) else []
        detail = ""
        if "logs" in ks:
            for s in x["logs"]:
                if x["logs"][s] != y["logs"].get(s):
                    detail = f" stage {s}: {json.dumps(x['logs'][s])[:300]} vs {json.dumps(y['logs'].get(s))[:300]}"
                    break
        return f"the bundles differ beyond the volatile fields in {ks}{detail}"
    return None


# ---- the adapter functions called directly -------------------------------------------------------------------
def direct_checks(root: str, st: Dict[str, Any], mode: Dict[str, Any], step_t: Optional[Dict[str, Any]]) -> List[Tuple[str, str]]:
    """adapter_reset / adapter_status / find_latest_snapshot / summarize_bundle / compare_bundles on the state on disk;
    adapter_step when step_t (the spec's step without --snapshot, --out, --t3 from this state) is given: root is then modified"""
    import pathlib
    import clematis.scripts.console as C
    from .. import engine as E
    st = norm_state(st)
    fails: List[Tuple[str, str]] = []
    saved_env, cwd, saved_tmp = dict(os.environ), os.getcwd(), tempfile.tempdir
    sink = io.StringIO()
    try:
        os.chdir(root)
        for k in SCRUB:
            os.environ.pop(k, None)
        os.environ.update(env_for(root, mode, False))
        tempfile.tempdir = os.path.join(root, "tmp")
        before = snapshot_tree(root)
        with contextlib.redirect_stdout(sink), contextlib.redirect_stderr(sink):
            latest = st["order"][-1] if st["order"] else None
            got = C.find_latest_snapshot(pathlib.Path(root, "snaps"))
            want = os.path.join(root, snap_path(latest)) if latest else None
            if got != want:
                fails.append(("ResetLoadsChosenSnapshot", f"find_latest_snapshot -> {got}, spec {want} (dir oldest->newest {st['order']})"))
            if C.find_latest_snapshot(pathlib.Path(root, "no-such-dir")) is not None:
                fails.append(("ResetLoadsChosenSnapshot", "find_latest_snapshot of a missing directory is not None"))
            for name in list(st["files"]) + ["ghost"]:
                rec = st["files"].get(name)
                try:
                    s = C.adapter_reset(os.path.join(root, snap_path(name)))
                    res = ("ok", s)
                except SystemExit as e:
                    res = ("exit", e.code)
                except Exception as e:      # noqa: BLE001
                    res = ("crash", type(e).__name__)
                if rec is not None and rec["kind"] == "good":
                    ok = res[0] == "ok" and res[1].get("version_etag") == str(rec["v"]) and len((res[1].get("gel") or {}).get("nodes") or {}) == rec["g"] and res[1].get("gel") is res[1].get("graph")
                elif rec is not None and rec["kind"] == "list":
                    ok = res[0] == "crash"         # as implemented (I5)
                else:
                    ok = res == ("exit", 2)
                if not ok:
                    fails.append(("ResetLoadsChosenSnapshot", f"adapter_reset({snap_path(name)}) -> {str(res)[:200]}, file is {rec}"))
            # no path: the engine's tolerant load of the latest file
            lrec = st["files"].get(latest) if latest else None
            try:
                s0 = C.adapter_reset(None)
                res = ("ok", s0.get("version_etag"), len((s0.get("gel") or {}).get("nodes") or {}))
            except SystemExit as e:
                s0, res = None, ("exit", e.code)
            except Exception as e:      # noqa: BLE001
                s0, res = None, ("crash", type(e).__name__)
            if lrec is None or lrec["kind"] == "trunc":
                want_r = ("ok", None, 0)
            elif lrec["kind"] == "good":
                want_r = ("ok", str(lrec["v"]), lrec["g"])
            else:
                want_r = ("crash", "AttributeError")
            if res != want_r:
                fails.append(("ResetLoadsChosenSnapshot", f"adapter_reset(None) -> {res}, spec {want_r} (latest file {latest}: {lrec})"))
            if s0 is not None:
                s0c = copy.deepcopy(s0)
                info = C.adapter_status(s0)
                sched: Dict[str, Any] = {"policy": "round_robin", "fairness_keys": []}
                if mode["logdir"] == "set" and mode["sched"]:
                    sched["recent_event_counts"] = dict(SCHED_COUNTS)
                if info != {"scheduler": sched, "budgets": {}} or s0 != s0c:
                    fails.append(("StatusIsPure", f"adapter_status -> {info}; state argument changed: {s0 != s0c}"))
                cfg_state = dict(s0, cfg={"scheduler": {"policy": "fair_queue", "fairness": {"b": 1, "a": 2}, "budgets": {"t2_k": 3, "wall_ms": 9, "other": 1}}})
                info2 = C.adapter_status(cfg_state)
                if info2.get("scheduler", {}).get("policy") != "fair_queue" or info2["scheduler"].get("fairness_keys") != ["a", "b"] or info2.get("budgets") != {"t2_k": 3, "wall_ms": 9}:
                    fails.append(("StatusIsPure", f"adapter_status does not report the projection of state.cfg.scheduler: {info2}"))
            # bundles: summaries and comparison
            parsed = {}
            for name, b in st["outs"].items():
                try:
                    parsed[name] = C.load_json(os.path.join(root, out_path(name)))
                except Exception:
                    parsed[name] = None
                if (parsed[name] is None) != (b["kind"] == "junk"):
                    fails.append(("CompareDetectsDifference", f"load_json({out_path(name)}) readable={parsed[name] is not None}, spec kind {b['kind']}"))
            names = [n for n in parsed if parsed[n] is not None]
            for x in names:
                sx = C.summarize_bundle(parsed[x])
                if sorted(sx) != ["counts", "meta_keys", "snapshots_len"]:
                    fails.append(("CompareDetectsDifference", f"summarize_bundle({x}) keys {sorted(sx)}"))
                for y in names:
                    dxy, dyx = C.compare_bundles(parsed[x], parsed[y]), C.compare_bundles(parsed[y], parsed[x])
                    if x == y and dxy:
                        fails.append(("CompareReflexive", f"compare_bundles({x}, {x}) -> {dxy}"))
                    if sorted(dxy) != sorted(dyx) or any(dxy[k]["a"] != dyx[k]["b"] or dxy[k]["b"] != dyx[k]["a"] for k in dxy if k in dyx):
                        fails.append(("CompareSymmetric", f"compare_bundles({x}, {y}) -> {dxy} but ({y}, {x}) -> {dyx}"))
                    if bool(dxy) != (C.summarize_bundle(parsed[x]) != C.summarize_bundle(parsed[y])):
                        fails.append(("CompareDetectsDifference", f"compare_bundles({x}, {y}) -> {dxy} although the summaries are {'different' if not dxy else 'equal'}"))
        after = snapshot_tree(root)
        if before["files"] != after["files"] or before["dirs"] != after["dirs"]:
            ch = sorted(p for p in set(before["files"]) | set(after["files"]) if before["files"].get(p) != after["files"].get(p))
            fails.append(("StatusIsPure", f"adapter_reset / adapter_status / summarize / compare changed files: {ch[:6]} dirs {sorted(after['dirs'] ^ before['dirs'])[:4]}"))
        # one turn through adapter_step directly
        if step_t is not None and s0 is not None:
            obs = step_t["obs"]
            E.reset_global_caches()
            with contextlib.redirect_stdout(sink), contextlib.redirect_stderr(sink):
                try:
                    st2, bundle = C.adapter_step(s0, now_ms=CLOCKS[1], input_text=INPUTS[1])
                    ab = abstract_bundle(bundle)
                    bad = ab.pop("bad", None)
                    if str(st2.get("version_etag")) != str(obs["v1"]) or ab != norm_bundle(obs["bundle"]) or bad:
                        fails.append(("StepAdvancesExactlyOne", f"adapter_step from version {obs['v0']}: state version {st2.get('version_etag')}, bundle {ab} {bad or ''}; spec version {obs['v1']}, bundle {norm_bundle(obs['bundle'])}"))
                except SystemExit as e:
                    fails.append(("StepAdvancesExactlyOne", f"adapter_step exited with {e.code}"))
                except Exception as e:      # noqa: BLE001
                    fails.append(("StepAdvancesExactlyOne", f"adapter_step raised {type(e).__name__}: {e}"))
            if os.environ.get("CLEMATIS_LOG_DIR") != (os.path.join(root, "logs") if mode["logdir"] == "set" else None):
                fails.append(("NothingWrittenOutsideOut", f"adapter_step left CLEMATIS_LOG_DIR={os.environ.get('CLEMATIS_LOG_DIR')}"))
            if os.listdir(os.path.join(root, "tmp")):
                fails.append(("NothingWrittenOutsideOut", f"adapter_step left {os.listdir(os.path.join(root, 'tmp'))} in the temporary directory"))
            post = dict(norm_state(step_t["post"]))
            got = project(root)
            if got != post:
                fails.append(("StepAdvancesExactlyOne", f"after adapter_step the directories are {json.dumps({k: got[k] for k in got if got[k] != post[k]}, default=str)[:400]}, spec {json.dumps({k: post[k] for k in got if got[k] != post[k]}, default=str)[:400]}"))
    finally:
        os.chdir(cwd)
        os.environ.clear()
        os.environ.update(saved_env)
        tempfile.tempdir = saved_tmp
    return fails


def copy_world(src: str, dst: str) -> None:
    shutil.copytree(src, dst, symlinks=True, copy_function=shutil.copy2)
    # (copytree applies copystat to the directories too; file mtimes decide which snapshot is the latest)
