"""C13 sanitiser part: concretisation of the class vectors of Planner.tla (San table) into strings,
replay on parse_and_validate, and the seeded garbage generator for SanitiserTotal.

Limits are written here from the documentation (docs/m3/llm_adapter.md M3-10, PLANNER_V1 schema text,
raw size guard), never imported from the code."""
from __future__ import annotations

import json
from typing import Any, Dict, List, Optional, Tuple

from ..util import rng

MAX_RAW = 20000
PLAN_MAX = 16
ITEM_MAX = 200
RAT_MAX = 2000

SMALL_OBJ = '{"plan":["step1","step2"],"rationale":"why"}'        # the documented example


def _pick(xs, j):
    return xs[j % len(xs)]


def build_object(v: Dict[str, Any], j: int, compact: bool = False) -> Tuple[str, Optional[list], Optional[str]]:
    """-> (json text, plan list or None, rationale or None) for the object-field classes of v"""
    obj: Dict[str, Any] = {}
    plan_list = None
    ok_items = ["step 1", "x", "s" * ITEM_MAX, "é" * ITEM_MAX, "  padded  ", "\U0001f600" * ITEM_MAX]
    bad = {
        "empty": [""],
        "blank": ["   ", "\t\n", "  "],
        # the limit is on the item as delivered (len(x) <= 200), not on its stripped text: padded items first
        "toolong": ["do the thing" + " " * ITEM_MAX, "l" * (ITEM_MAX + 1), " " + "l" * ITEM_MAX, "l" * 1000,
                    "\t" * 150 + "x" + "\n" * 150, "\u3000" * 100 + "step" + "\u3000" * 100],
        "nonstring": [1, None, ["a"], {"a": 1}, True, 1.5],
    }
    if v["plan"] == "nonlist":
        obj["plan"] = _pick(["a", {"0": "a"}, None, 3, True], j)
    elif v["plan"] in ("le", "gt"):
        if v["plan"] == "le":
            n = _pick([1, PLAN_MAX, 3, 0], j)
            if n == 0 and v["item"] != "ok":
                n = 2
        else:
            n = _pick([PLAN_MAX + 1, 40], j)
        items: List[Any] = [_pick(ok_items, j + i) for i in range(n)]
        if v["item"] != "ok":
            pos = _pick([0, n - 1, n // 2], j)
            items[pos] = _pick(bad[v["item"]], j)
        obj["plan"] = items
        plan_list = items
    rat = None
    if v["rat"] == "empty":
        obj["rationale"] = ""
    elif v["rat"] == "ok":
        rat = _pick(["why", "r", "R" * RAT_MAX, "because é\n\"quoted\""], j)
        obj["rationale"] = rat
    elif v["rat"] == "toolong":
        obj["rationale"] = _pick(["R" * (RAT_MAX + 1), "R" * 5000], j)
    elif v["rat"] == "nonstring":
        obj["rationale"] = _pick([5, None, ["r"], {"r": 1}, False], j)
    if v["refl"] == "bool":
        obj["reflection"] = bool(v["rv"])
    elif v["refl"] == "int01":
        obj["reflection"] = 1 if v["rv"] else 0
    elif v["refl"] == "accstr":
        obj["reflection"] = _pick(["true", "1"], j) if v["rv"] else _pick(["false", "0"], j)
    elif v["refl"] == "other":
        obj["reflection"] = _pick(["maybe", 2, None, 1.5, [], "", {"v": True}, -1], j)
    if v["extra"]:
        k, val = _pick([("debug", True), ("ops", []), ("Plan", ["a"]), ("", 0)], j)
        obj[k] = val
    # key order / formatting variants
    keys = list(obj.keys())
    if j % 3 == 1:
        keys.reverse()
    o2 = {k: obj[k] for k in keys}
    if j % 3 == 0 or compact:
        text = json.dumps(o2, separators=(",", ":"), ensure_ascii=False)
    elif j % 3 == 1:
        text = json.dumps(o2, indent=2, ensure_ascii=True)
    else:
        text = json.dumps(o2)
    return text, plan_list, rat


def payload_text(v, j, compact=False) -> Tuple[str, Optional[list], Optional[str]]:
    p = v["payload"]
    if p == "object":
        return build_object(v, j, compact)
    if p == "array":
        return _pick(["[" + SMALL_OBJ + "]", "[]", '["plan","rationale"]'], j), None, None
    if p == "scalar":
        return _pick(['"plan"', "42", "true", "null", "-0.5"], j), None, None
    if p == "invalid":
        return _pick(["{'plan': ['a'], 'rationale': 'ok'}", '{"plan":["a"],"rationale":"ok",}',
                      '{"plan":["a"],"rationale":"ok"', SMALL_OBJ + SMALL_OBJ, SMALL_OBJ + "\n" + SMALL_OBJ,
                      '{"plan":["a"] "rationale":"ok"}', "{plan:[],rationale:ok}"], j), None, None
    return _pick(["", "   "], j), None, None


def assemble(v, j, pad: int = 0, outside: bool = False, compact: bool = False) -> Tuple[str, Optional[list], Optional[str]]:
    P, plan_list, rat = payload_text(v, j, compact)
    padding = " " * pad
    P0 = P
    if pad and not outside:
        P = (P[:1] + padding + P[1:]) if P[:1] in ("{", "[") else (P + padding)
    f = v["fence"]
    if f == "none":
        core = P
    elif f in ("json", "jsonc"):
        core = ("```%s\n%s\n```" if j % 2 == 0 else "```%s\n%s```") % (f, P)
    elif f == "emptytag":
        core = "```\n%s\n```" % P
    elif f == "other":
        core = "```%s\n%s\n```" % (_pick(["python", "yaml", "json5", "javascript"], j), P)
    elif f == "unterminated":
        core = ("```json\n%s" % P) if j % 2 == 0 else ("```json\n%s\n``" % P)
    else:  # two fenced blocks
        b = "```json\n%s\n```" % P
        core = (b + "\n" + "```json\n%s\n```" % P0) if j % 2 == 0 else (b + "\n\n```\n" + SMALL_OBJ + "\n```")
    if v["prose"] == "prefix":
        core = _pick(["Here is the plan:\n", "Sure! ", "PLAN "], j) + core
    elif v["prose"] == "suffix":
        core = core + _pick(["\nLet me know if you need more.", " thanks", "\n// end"], j)
    elif j % 3 == 2:
        core = "\n " + core + " \n"           # surrounding whitespace only: still pure JSON / a single block
    if pad and outside:
        core = core + padding
    return core, plan_list, rat


def strings_for(v, nvar: int) -> List[Tuple[str, Optional[list], Optional[str], str]]:
    """1..3 strings per class vector, with the sizes realised exactly"""
    out = []
    for j in range(nvar):
        base, plan_list, rat = assemble(v, j)
        compact = len(base) > MAX_RAW - 8        # \u escapes / indentation blew it up: use the compact rendering
        if compact:
            base, plan_list, rat = assemble(v, j, compact=True)
        if len(base) > MAX_RAW:
            raise AssertionError(f"concretisation exceeds the raw limit before padding: {v} variant {j} len {len(base)}")
        if v["size"] == "le":
            if j == 0:
                out.append((base, plan_list, rat, f"v{j}"))
            else:       # boundary: exactly MAX_RAW characters
                t, pl, rt = assemble(v, j, pad=MAX_RAW - len(base), outside=(j % 2 == 0), compact=compact)
                assert len(t) == MAX_RAW, (len(t), v)
                out.append((t, pl, rt, f"v{j}@{MAX_RAW}"))
        else:
            target = MAX_RAW + 1 if j != 2 else 30011
            t, pl, rt = assemble(v, j, pad=target - len(base), outside=(j % 2 == 1), compact=compact)
            assert len(t) == target, (len(t), v)
            out.append((t, pl, rt, f"v{j}@{target}"))
    return out


def replay_san(args) -> Dict[str, Any]:
    from clematis.engine.policy.sanitize import parse_and_validate
    from clematis.engine.policy.json_schemas import PLANNER_V1
    case, nvar = args
    v, want = case["inp"], case["out"]
    fails: List[Dict[str, Any]] = []
    n = 0
    for text, plan_list, rat, tag in strings_for(v, nvar):
        n += 1
        try:
            res = parse_and_validate(text, PLANNER_V1)
        except BaseException as e:       # noqa: BLE001 - any exception is the violation
            fails.append({"clause": "SanitiserTotal", "sig": {"family": "san", "exc": type(e).__name__},
                          "msg": f"parse_and_validate raised {type(e).__name__}: {e} on class vector {v} ({tag})", "variant": tag})
            continue
        ok = isinstance(res, tuple) and len(res) == 2 and res[0] is True
        if ok and not want["ok"]:
            fails.append({"clause": "SanitiserAcceptsOnlySingleObjectWithinLimits",
                          "sig": {"family": "san", "accepted_although": want["why"]},
                          "msg": f"accepted although the documentation rejects ({want['why']}): vector {v} ({tag}), text[:80]={text[:80]!r} -> {str(res[1])[:120]}",
                          "variant": tag})
        elif not ok and want["ok"]:
            fails.append({"clause": "SanitiserVerdictMatchesTable", "sig": {"family": "san", "rejected": "documented-valid input"},
                          "msg": f"rejected a documented-valid input: vector {v} ({tag}), text[:80]={text[:80]!r} -> {res!r:.200}",
                          "variant": tag})
        elif ok:
            exp = {"plan": plan_list, "rationale": rat, "reflection": bool(want["refl"])}
            got = res[1]
            if not (isinstance(got, dict) and got == exp and type(got.get("reflection")) is bool):
                fails.append({"clause": "SanitiserVerdictMatchesTable", "sig": {"family": "san", "normalised": "differs"},
                              "msg": f"normalised object differs: vector {v} ({tag}): got {str(got)[:200]}, expected {str(exp)[:200]}",
                              "variant": tag})
    return {"fails": fails, "n": n, "accepted": 1 if want["ok"] else 0}


# ---- SanitiserTotal: seeded garbage -----------------------------------------------------------------
def within_limits(obj: Any) -> Optional[str]:
    if not isinstance(obj, dict):
        return "not a dict"
    if set(obj.keys()) != {"plan", "rationale", "reflection"}:
        return f"keys {sorted(obj.keys())}"
    if not isinstance(obj["plan"], list) or len(obj["plan"]) > PLAN_MAX:
        return "plan type/size"
    for x in obj["plan"]:
        if not isinstance(x, str) or not (1 <= len(x) <= ITEM_MAX) or not x.strip():
            return f"plan item {x!r:.40}"
    if not isinstance(obj["rationale"], str) or not (1 <= len(obj["rationale"]) <= RAT_MAX):
        return "rationale"
    if type(obj["reflection"]) is not bool:
        return "reflection not bool"
    return None


def single_object(text: str) -> Optional[str]:
    """documented acceptance shape, stated independently: pure JSON object or exactly one fenced block"""
    if len(text) > MAX_RAW:
        return "raw too large"
    s = text.strip()
    if s.startswith("```"):
        nl = s.find("\n")
        if not s.endswith("```") or nl < 0:
            return "broken fence"
        if s[3:nl].strip().lower() not in ("", "json", "jsonc"):
            return "fence language"
        s = s[nl + 1:-3]
    try:
        o = json.loads(s)
    except Exception as e:       # noqa: BLE001
        return f"not JSON ({type(e).__name__})"
    return None if isinstance(o, dict) else "not an object"


def garbage(seed: int, i: int) -> Any:
    r = rng(seed, "garbage", i)
    fam = i % 16

    def uni(n):
        pools = [(0x20, 0x7e), (0, 0x1f), (0x80, 0x7ff), (0xd800, 0xdfff), (0x1f300, 0x1f6ff), (0xfff0, 0xffff),
                 (0x2000, 0x206f)]
        out = []
        for _ in range(n):
            lo, hi = r.choice(pools)
            out.append(chr(r.randint(lo, hi)))
        return "".join(out)

    valid = json.dumps({"plan": ["a", "b " * r.randint(1, 20)], "rationale": "r" * r.randint(1, 50),
                        **({"reflection": r.choice([True, False, 0, 1, "true", "0"])} if r.random() < 0.5 else {})})
    if fam == 0:
        return uni(r.choice([0, 1, 5, 50, 500, 5000]))
    if fam == 1:       # deep nesting within / around the size limit
        d = r.choice([10, 100, 500, 1000, 5000, 9999, 10000, 10001, 19999, 20000])
        o, c = r.choice([("[", "]"), ('{"a":', "}"), ('[{"plan":', "}]")])
        s = o * d + r.choice(["", "1", '"x"']) + c * r.choice([0, d, d - 1])
        return s[:r.choice([len(s), MAX_RAW, MAX_RAW + 1])] if r.random() < 0.5 else s
    if fam == 2:       # huge
        n = r.choice([MAX_RAW - 1, MAX_RAW, MAX_RAW + 1, 10 ** 5, 10 ** 6, 3 * 10 ** 6])
        return r.choice(["a", " ", "{", '"', "\ud800", "\x00", "9"]) * n
    if fam == 3:       # binary-ish
        return bytes(r.randrange(256) for _ in range(r.choice([1, 16, 256, 4096]))).decode("latin-1")
    if fam == 4:       # lone surrogates inside otherwise valid JSON
        return '{"plan":["\ud83d"],"rationale":"\udc00' + uni(5).replace('"', "").replace("\\", "") + '"}'
    if fam == 5:       # character-level mutations of a valid object
        s = list(valid)
        for _ in range(r.randint(1, 4)):
            k = r.randrange(len(s) + 1)
            op = r.random()
            if op < 0.34 and s:
                del s[min(k, len(s) - 1)]
            elif op < 0.67:
                s.insert(k, r.choice(list('{}[]",:\\ \n\t') + [uni(1)]))
            elif s:
                s[min(k, len(s) - 1)] = r.choice(list('{}[]",:\\ 01tfn') + [uni(1)])
        return "".join(s)
    if fam == 6:       # fenced garbage
        tag = r.choice(["json", "", "jsonc", "JSON", "python", uni(3), "json\r"])
        body = r.choice([valid, uni(40), "", "```", valid + "\n```\n```json\n" + valid])
        return r.choice(["```%s\n%s\n```", "```%s\n%s", "```%s%s```", "``%s\n%s\n```", "```%s\n%s\n````"]) % (tag, body)
    if fam == 7:       # numbers JSON tolerates or not
        x = r.choice(["NaN", "Infinity", "-Infinity", "1e999", "-0", "1" * 5000, "0x10", "1.", ".5", "1e", "01"])
        return r.choice(['{"plan":[],"rationale":"r","reflection":%s}', '{"plan":[%s],"rationale":"r"}', "%s",
                         '{"plan":[],"rationale":%s}']) % x
    if fam == 8:       # non-string inputs
        return r.choice([None, b"{}", 12, 1.5, ["{}"], {"plan": [], "rationale": "r"}, True, (), object])
    if fam == 9:       # duplicate / odd keys
        return r.choice(['{"plan":[1],"plan":["a"],"rationale":"r"}', '{"plan":["a"],"rationale":"r","rationale":""}',
                         '{"plan":["a"],"rationale":"r","reflection":true,"reflection":"x"}',
                         '{"plan":["a"],"rationale":"r","\\u0070lan":[]}', '{"":0}', "{}", '{"plan":null,"rationale":null}'])
    if fam == 10:      # escapes
        return '{"plan":["%s"],"rationale":"%s"}' % (r.choice(["\\u0000", "\\ud800", "\\uZZZZ", "\\", "\\x41", "\\n" * 150]),
                                                   r.choice(["\\t", "\\ud83d\\ude00", "\\u00", "a\\"]))
    if fam == 11:      # BOM / whitespace flavours around a valid object
        ws = r.choice(["\ufeff", "\u00a0", "\u2003", "\x0b", "\x0c", "\x1c", "\u3000", "\r\n", "\x00"])
        return r.choice([ws + valid, valid + ws, ws + valid + ws, "```json" + ws + "\n" + valid + "\n```"])
    if fam == 12:      # very many items / long fields right at the limits
        n = r.choice([PLAN_MAX, PLAN_MAX + 1, 1000])
        m = r.choice([ITEM_MAX, ITEM_MAX + 1])
        q = r.choice([RAT_MAX, RAT_MAX + 1])
        return json.dumps({"plan": ["i" * m] * n, "rationale": "q" * q})
    if fam == 13:      # nested wrong types
        return json.dumps({"plan": r.choice([[["a"]], [{"a": 1}], {"a": ["b"]}, [None], [True]]),
                           "rationale": r.choice([["r"], {"r": 1}, 0, "r"]), "reflection": r.choice([[1], {"x": 1}, "yes", "T", 2])})
    if fam == 14:      # prose mixes
        return r.choice(["Here you go: " + valid, valid + " -- done", valid + valid, valid + "\n" + valid, "[" + valid + "]",
                         "json\n" + valid, "`" + valid + "`", '"' + valid.replace('"', '\\"') + '"'])
    return uni(r.randint(1, 30)) + valid[: r.randint(0, len(valid))] + uni(r.randint(0, 30))


def replay_garbage(args) -> Dict[str, Any]:
    from clematis.engine.policy.sanitize import parse_and_validate
    from clematis.engine.policy.json_schemas import PLANNER_V1
    seed, i = args
    x = garbage(seed, i)
    fails = []
    desc = f"garbage(seed={seed}, i={i}) family {i % 16} type {type(x).__name__}" + (f" len {len(x)} head {x[:60]!r}" if isinstance(x, str) else f" value {x!r:.60}")
    try:
        res = parse_and_validate(x, PLANNER_V1 if i % 5 else None)
    except BaseException as e:           # noqa: BLE001
        return {"fails": [{"clause": "SanitiserTotal", "sig": {"family": "garbage", "exc": type(e).__name__},
                           "msg": f"parse_and_validate raised {type(e).__name__}: {e!s:.200} on {desc}"}], "accepted": 0}
    if not (isinstance(res, tuple) and len(res) == 2 and isinstance(res[0], bool)):
        return {"fails": [{"clause": "SanitiserTotal", "sig": {"family": "garbage", "shape": "not (bool, x)"},
                           "msg": f"result is not (ok, obj_or_reason): {res!r:.200} on {desc}"}], "accepted": 0}
    acc = 0
    if res[0]:
        acc = 1
        why = None
        if not isinstance(x, str):
            why = "non-string input accepted"
        else:
            why = single_object(x) or within_limits(res[1])
        if why:
            fails.append({"clause": "SanitiserAcceptsOnlySingleObjectWithinLimits", "sig": {"family": "garbage", "accepted_although": why.split(" (")[0]},
                          "msg": f"accepted although {why}: {desc} -> {str(res[1])[:200]}"})
    return {"fails": fails, "accepted": acc}
