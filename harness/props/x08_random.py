"""X08 helper — seeded random nested values checked against a Python reference of the documented freeze rules.

Reference (from the docstrings of clematis/engine/stages/state_clone.py, not from its code):
    None -> None;  a FrozenDict / FrozenList -> itself;
    Mapping -> FrozenDict, same keys in the same order, values frozen;
    list / tuple -> FrozenList of the same length; the elements are the live objects (deep_list: frozen elements);
    SimpleNamespace -> FrozenDict of its __dict__; the values are the live objects (deep_ns: frozen values);
    anything else -> the object itself.
A state object with such attribute values is snapshotted; a random part of the attributes is read, the live world is
then changed at random (structure and in-place), and everything is read: what was read before must be as it was,
what was not must be as the live world is now.  Random mutator calls on random frozen nodes must all raise and
change nothing.
"""
from __future__ import annotations

import collections
import dataclasses
import types
from types import SimpleNamespace
from typing import Any, Dict, List, Tuple

import numpy as np

from ..util import rng


class MyDict(dict):
    pass


class MyList(list):
    pass


class MyNs(SimpleNamespace):
    pass


class RoMapping(collections.abc.Mapping):
    """a Mapping that is not a dict"""

    def __init__(self, d):
        self._d = dict(d)

    def __getitem__(self, k):
        return self._d[k]

    def __iter__(self):
        return iter(self._d)

    def __len__(self):
        return len(self._d)


Point = collections.namedtuple("Point", "x y")


class Heavy:
    def __init__(self, r):
        self.vec = np.arange(r.randrange(1, 5), dtype=float)
        self.meta = {"tags": ["t"]}         # containers inside a heavy object are not the module's business


@dataclasses.dataclass
class Rec:
    a: Any = None
    b: Any = None


class Slotted:
    __slots__ = ("p", "q", "r")


class WithProperty:
    """an attribute computed on every access: the view keeps the first value"""

    def __init__(self):
        self.calls = 0
        self.plain = {"k": [1]}

    @property
    def computed(self):
        self.calls += 1
        return {"n": self.calls}


KEYS = ["k", "", "é", 0, 1, (1, 2), None, frozenset({1}), "graphs", 2.5]


def gen_leaf(r):
    c = r.randrange(14)
    if c == 0:
        return None
    if c == 1:
        return r.randrange(-5, 5)
    if c == 2:
        return r.choice(["", "txt", "é"])
    if c == 3:
        return np.arange(r.randrange(0, 6), dtype=float)
    if c == 4:
        return np.zeros((2, 2))
    if c == 5:
        return {1, 2}
    if c == 6:
        return frozenset({"a"})
    if c == 7:
        return Heavy(r)
    if c == 8:
        return Rec({"in": 1}, [1])
    if c == 9:
        return collections.deque([1, 2])            # a Sequence that is neither list nor tuple [as implemented: as is]
    if c == 10:
        return range(3)
    if c == 11:
        return b"bytes"
    if c == 12:
        return 1.5
    return bytearray(b"ab")


def gen_value(r, depth: int):
    if depth <= 0 or r.random() < 0.25:
        return gen_leaf(r)
    c = r.randrange(12)
    n = r.randrange(0, 4)
    if c <= 5:
        keys = r.sample(KEYS, n)
        items = [(k, gen_value(r, depth - 1)) for k in keys]
        if c == 0:
            return dict(items)
        if c == 1:
            return collections.OrderedDict(items)
        if c == 2:
            d = collections.defaultdict(list)
            d.update(items)
            return d
        if c == 3:
            return MyDict(items)
        if c == 4:
            return types.MappingProxyType(dict(items))
        return RoMapping(items)
    if c <= 9:
        items = [gen_value(r, depth - 1) for _ in range(n)]
        if c == 6:
            return items
        if c == 7:
            return tuple(items)
        if c == 8:
            return MyList(items)
        return Point(gen_value(r, depth - 1), gen_value(r, depth - 1))
    names = r.sample(["x", "y", "graphs", "_p"], min(n, 4))
    ns = (SimpleNamespace if c == 10 else MyNs)()
    for k in names:
        setattr(ns, k, gen_value(r, depth - 1))
    return ns


# ---- the reference -------------------------------------------------------------------------------------
def ref_freeze(x, deep_list: bool, deep_ns: bool, FD, FL):
    """expected shape: ("fd", [(key, shape)...]) | ("fl", [shape...]) | ("is", object)"""
    if x is None:
        return ("is", None)
    if isinstance(x, (FD, FL)):
        return ("is", x)
    if isinstance(x, collections.abc.Mapping):
        return ("fd", [(k, ref_freeze(x[k], deep_list, deep_ns, FD, FL)) for k in x])
    if isinstance(x, (list, tuple)):
        return ("fl", [ref_freeze(v, deep_list, deep_ns, FD, FL) if deep_list else ("is", v) for v in x])
    if isinstance(x, SimpleNamespace):
        return ("fd", [(k, ref_freeze(v, deep_list, deep_ns, FD, FL) if deep_ns else ("is", v)) for k, v in vars(x).items()])
    return ("is", x)


def conforms(v, shape, FD, FL, where: str, out: List[Tuple[str, str]], nodes: List[Any]) -> None:
    t = shape[0]
    if t == "is":
        if v is not shape[1]:
            out.append(("LeafIdentityPreserved", f"{where}: got a {type(v).__name__} that is not the live {type(shape[1]).__name__} object"))
        return
    if t == "fd":
        if type(v) is not FD:
            out.append(("ReadsAgreeWithModel", f"{where}: a mapping / namespace came back as {type(v).__name__}, documented FrozenDict"))
            return
        nodes.append(v)
        keys = [k for k, _ in shape[1]]
        if list(v) != keys or len(v) != len(keys) or list(v.keys()) != keys:
            out.append(("ReadsAgreeWithModel", f"{where}: keys {list(v)!r}, reference {keys!r}"))
            return
        for k, sub in shape[1]:
            if k not in v:
                out.append(("ReadsAgreeWithModel", f"{where}: key {k!r} is not `in` the FrozenDict"))
            conforms(v[k], sub, FD, FL, f"{where}[{k!r}]", out, nodes)
        return
    if type(v) is not FL:
        out.append(("ReadsAgreeWithModel", f"{where}: a list / tuple came back as {type(v).__name__}, documented FrozenList"))
        return
    nodes.append(v)
    if len(v) != len(shape[1]):
        out.append(("ReadsAgreeWithModel", f"{where}: length {len(v)}, reference {len(shape[1])}"))
        return
    for i, sub in enumerate(shape[1]):
        conforms(v[i], sub, FD, FL, f"{where}[{i}]", out, nodes)
    for i, e in enumerate(v):       # iteration = positions
        if e is not v[i]:
            out.append(("ReadsAgreeWithModel", f"{where}: iteration differs from indexing at {i}"))


def live_sig(x, seen=None):
    """deep structural signature of the live world (containers by structure + identity of everything)"""
    seen = seen if seen is not None else set()
    if id(x) in seen:
        return ("seen", id(x))
    if isinstance(x, dict):
        seen.add(id(x))
        return ("dict", id(x), tuple((repr(k), live_sig(v, seen)) for k, v in x.items()))
    if isinstance(x, (list, tuple)):
        seen.add(id(x))
        return ("seq", id(x), tuple(live_sig(v, seen) for v in x))
    if isinstance(x, SimpleNamespace):
        seen.add(id(x))
        return ("ns", id(x), tuple((k, live_sig(v, seen)) for k, v in vars(x).items()))
    if isinstance(x, np.ndarray):
        return ("nd", id(x), x.tobytes())
    if isinstance(x, (set, bytearray, collections.deque)):
        return ("mut", id(x), repr(x))
    return ("obj", id(x))


def root_sig(root):
    if hasattr(root, "__dict__"):
        return tuple((k, live_sig(v)) for k, v in vars(root).items())
    return tuple(live_sig(getattr(root, n, None)) for n in type(root).__slots__)


def containers(x, acc: List[Any], depth=0):
    if depth > 6:
        return
    if isinstance(x, dict):
        acc.append(x)
        for v in x.values():
            containers(v, acc, depth + 1)
    elif isinstance(x, list):
        acc.append(x)
        for v in x:
            containers(v, acc, depth + 1)
    elif isinstance(x, tuple):
        for v in x:
            containers(v, acc, depth + 1)
    elif isinstance(x, SimpleNamespace):
        acc.append(x)
        for v in vars(x).values():
            containers(v, acc, depth + 1)
    elif isinstance(x, (RoMapping, types.MappingProxyType)):
        for k in x:
            containers(x[k], acc, depth + 1)


def mutate_live(r, c) -> str:
    if isinstance(c, dict):
        k = r.randrange(4)
        if k == 0 or not c:
            c[r.choice(["new", 7, "k"])] = r.choice([1, {"fresh": 1}, [1]])
            return "dict set"
        if k == 1:
            del c[next(iter(c))]
            return "dict del"
        if k == 2:
            c.clear()
            return "dict clear"
        key = next(iter(c))
        c[key] = ["replaced"]
        return "dict replace"
    if isinstance(c, list):
        k = r.randrange(4)
        if k == 0 or not c:
            c.append({"appended": 1})
            return "list append"
        if k == 1:
            c.pop()
            return "list pop"
        if k == 2:
            c.reverse()
            return "list reverse"
        c[0] = "replaced"
        return "list setitem"
    names = list(vars(c))
    if names and r.random() < 0.5:
        delattr(c, names[0])
        return "ns delattr"
    setattr(c, r.choice(["x", "zz"]), {"set": 1})
    return "ns setattr"


FD_CALLS = ["setitem", "delitem", "update", "clear", "pop", "popitem", "setdefault", "ior", "setattr", "delattr", "data_via_dunder"]
FL_CALLS = ["setitem", "delitem", "append", "extend", "insert", "pop", "remove", "clear", "sort", "reverse", "iadd", "imul", "setattr", "slice_assign", "slice_del"]


def attempt(node, call: str, is_fd: bool):
    if call == "setattr":
        node.anything = 1
    elif call == "delattr":
        del node.anything
    elif call == "data_via_dunder":
        node.__setitem__("k", 1)
    elif call == "setitem":
        if is_fd:
            node[next(iter(node), "k")] = 1
        else:
            node[0] = 1
    elif call == "delitem":
        if is_fd:
            del node[next(iter(node), "k")]
        else:
            del node[0]
    elif call == "slice_assign":
        node[0:1] = [1]
    elif call == "slice_del":
        del node[:]
    elif call == "update":
        node.update(k=1)
    elif call == "clear":
        node.clear()
    elif call == "pop":
        node.pop(*(("k", None) if is_fd else ()))
    elif call == "popitem":
        node.popitem()
    elif call == "setdefault":
        node.setdefault("k", 1)
    elif call == "ior":
        y = node
        y |= {"k": 1}
    elif call == "append":
        node.append(1)
    elif call == "extend":
        node.extend([1])
    elif call == "insert":
        node.insert(0, 1)
    elif call == "remove":
        node.remove(1)
    elif call == "sort":
        node.sort()
    elif call == "reverse":
        node.reverse()
    elif call == "iadd":
        y = node
        y += [1]
    elif call == "imul":
        y = node
        y *= 2


def random_case(args) -> Dict[str, Any]:
    from clematis.engine.stages.state_clone import FrozenDict as FD, FrozenList as FL, freeze, readonly_snapshot, ReadOnlyState
    seed, i, deep_list, deep_ns, depth = args
    r = rng(seed, "x08", i)
    fails: List[Tuple[str, str]] = []
    info = collections.Counter()
    # ---- the state object ----
    kind = r.randrange(5)
    names = ["graphs", "agent_meta", "caches", "vec", "misc"][: r.randrange(2, 6)]
    if kind == 0:
        root: Any = SimpleNamespace()
    elif kind == 1:
        root = Heavy(r)
    elif kind == 2:
        root = Rec()
        names = ["a", "b"]
    elif kind == 3:
        root = Slotted()
        names = ["p", "q", "r"][: r.randrange(1, 4)]
    else:
        root = WithProperty()
        names = names[:2]
    for n in names:
        setattr(root, n, gen_value(r, depth))
    view = readonly_snapshot(root)
    if type(view) is not ReadOnlyState:
        fails.append(("ReadsAgreeWithModel", f"readonly_snapshot returned a {type(view).__name__}"))
        return {"fails": fails, "info": dict(info)}
    where0 = f"random case {i} (root {type(root).__name__}, attrs {names})"
    # ---- read a random part now ----
    first = [n for n in names if r.random() < 0.5]
    shapes: Dict[str, Any] = {}
    frozen_nodes: List[Any] = []
    for n in first:
        shapes[n] = ref_freeze(getattr(root, n), deep_list, deep_ns, FD, FL)
        conforms(getattr(view, n), shapes[n], FD, FL, f"{where0}: view.{n}", fails, frozen_nodes)
    if kind == 4:
        # [as implemented] a computed attribute is evaluated once, on the first read through the view
        v1 = view.computed
        v2 = view.computed
        if v1 is not v2 or dict(v1) != {"n": v1["n"]}:
            fails.append(("ViewStructureIsolatedFromLaterLiveStructuralChanges", f"{where0}: a computed attribute changed between two reads of the view"))
    if fails:
        return {"fails": fails, "info": dict(info)}
    # ---- the live world moves on ----
    conts: List[Any] = []
    for n in names:
        containers(getattr(root, n, None), conts)
    done = []
    for _ in range(r.randrange(0, 5)):
        k = r.random()
        if conts and k < 0.7:
            done.append(mutate_live(r, r.choice(conts)))
        elif k < 0.85:
            n = r.choice(names)
            try:
                setattr(root, n, gen_value(r, 2))
                done.append(f"rebind {n}")
            except AttributeError:
                pass
        else:
            for c in conts:
                for v in (c.values() if isinstance(c, dict) else (c if isinstance(c, list) else vars(c).values())):
                    if isinstance(v, np.ndarray) and v.size:
                        v.flat[0] += 1.0
                        done.append("ndarray in place")
                        break
    info["live_mutations"] += len(done)
    # ---- read everything: old reads as they were, new reads as the live world is now ----
    for n in names:
        if n not in shapes:
            try:
                cur = getattr(root, n)
            except AttributeError:
                try:
                    getattr(view, n)
                    fails.append(("ReadsAgreeWithModel", f"{where0}: view.{n} readable although the attribute is gone and was never read"))
                except AttributeError:
                    pass
                continue
            shapes[n] = ref_freeze(cur, deep_list, deep_ns, FD, FL)
            clause = "ReadsAgreeWithModel"
        else:
            clause = "ViewStructureIsolatedFromLaterLiveStructuralChanges"
        before = len(fails)
        conforms(getattr(view, n), shapes[n], FD, FL, f"{where0} after live changes {done}: view.{n}", fails, frozen_nodes)
        if clause != "ReadsAgreeWithModel":
            fails[before:] = [(clause if c == "ReadsAgreeWithModel" else c, m) for c, m in fails[before:]]
    info["frozen_nodes"] += len(frozen_nodes)
    if fails:
        return {"fails": fails, "info": dict(info)}
    # ---- mutator calls on frozen nodes and on the facade ----
    sig0 = root_sig(root)
    snap0 = {n: ref_freeze(getattr(view, n), deep_list, deep_ns, FD, FL) for n in shapes}
    tries = []
    for node in frozen_nodes[:40]:
        is_fd = type(node) is FD
        for call in r.sample(FD_CALLS if is_fd else FL_CALLS, 4):
            tries.append((node, call, is_fd))
    for node, call, is_fd in tries:
        try:
            attempt(node, call, is_fd)
            fails.append(("ViewRejectsEveryStructuralMutation", f"{where0}: {call} on a {type(node).__name__} did not raise"))
        except (TypeError, AttributeError):
            info["rejected"] += 1
        except Exception as e:      # noqa: BLE001
            fails.append(("ViewRejectsEveryStructuralMutation", f"{where0}: {call} on a {type(node).__name__} raised {type(e).__name__}, documented TypeError / AttributeError"))
    for what, fn in (("setattr", lambda: setattr(view, names[0], 1)), ("setattr new", lambda: setattr(view, "brand_new", 1)),
                     ("delattr", lambda: delattr(view, names[0])), ("setitem", lambda: view.__class__.__setitem__(view, names[0], 1)),
                     ("item assignment", lambda: exec("v[n] = 1", {"v": view, "n": names[0]}))):
        try:
            fn()
            fails.append(("ViewRejectsEveryStructuralMutation", f"{where0}: {what} on the ReadOnlyState did not raise"))
        except (TypeError, AttributeError):
            info["rejected"] += 1
    sig1 = root_sig(root)
    if sig1 != sig0:
        fails.append(("FailedMutationChangesNothing", f"{where0}: the live world changed during rejected mutation attempts"))
    for n in shapes:
        tmp: List[Tuple[str, str]] = []
        conforms(getattr(view, n), snap0[n], FD, FL, f"{where0}: view.{n} after rejected attempts", tmp, [])
        fails += [("FailedMutationChangesNothing", m) for _, m in tmp]
    # ---- freeze on its own: idempotent, type-stable; equality / hash laws ----
    val = gen_value(r, depth)
    f1 = freeze(val)
    tmp = []
    conforms(f1, ref_freeze(val, deep_list, deep_ns, FD, FL), FD, FL, f"{where0}: freeze({type(val).__name__})", tmp, [])
    fails += tmp
    if freeze(f1) is not f1:
        fails.append(("FreezeIdempotent", f"{where0}: freeze(freeze(x)) is not freeze(x) for a {type(val).__name__}"))
    if isinstance(f1, FD):
        flat = {k: v for k, v in f1.items() if isinstance(v, (int, str, float, bytes, type(None), frozenset))}
        if FD(flat) != flat or FD(flat) != FD(dict(flat)) or not (f1 == f1):
            fails.append(("HashAndEqualitySemantics", f"{where0}: a FrozenDict is not equal to the mapping with the same items"))
        try:
            if hash(f1) != hash(f1):
                fails.append(("HashAndEqualitySemantics", f"{where0}: unstable hash"))
            info["fd_hashable"] += 1
        except TypeError:
            info["fd_unhashable"] += 1
    if isinstance(f1, FL):
        if not (f1 == f1) or hash(f1) != hash(f1):
            fails.append(("HashAndEqualitySemantics", f"{where0}: a FrozenList is not equal to itself / unstable hash"))
        info["fl_eq_by_content" if f1 == FL(list(f1)) else "fl_eq_by_identity"] += 1
    # ---- census of what lies below the boundary (not a verdict) ----
    for node in frozen_nodes:
        vals = list(node.values()) if type(node) is FD else list(node)
        for v in vals:
            if isinstance(v, (dict, list, SimpleNamespace)):
                info["live_containers_handed_out"] += 1
    return {"fails": fails, "info": dict(info)}
