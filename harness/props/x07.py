"""X07 (extra, beyond the listed properties) — the in-memory memory index.

(M)    MemIndex.tla: add / clear / search_tiered / _iter_shards_for_t2 / sharded search over a small table of
       episode variants (duplicate ids, two owners, two named clusters + cluster-less, episodes without a
       vector, the zero vector) in exact integer geometry; every clause is an action property (TLC evaluates those on every
       transition; the observation is hidden by the VIEW, so reads are self-loops of the abstract state).
(S->C)  every transition (pre state, call, observation, post state) is replayed on a real InMemoryIndex rebuilt
       to the pre state: stored episodes in order, index_version / cache_token deltas, the hits (which physical
       episode, in which order, with which score), the shard views (membership by object identity), the
       merged sharded search against the spec and against the real whole-index search; purity of every read.
       Each clause is also evaluated directly on the real result.
       Seeded random long histories on ONE kept index (3-D integer vectors, hour-granular timestamps, more ids,
       owners and clusters, k = 0, all hints at once) against a Python reference of the same rules.
"""
from __future__ import annotations

import copy
import datetime as dt
import hashlib
import json
import math
from fractions import Fraction
from typing import Any, Dict, List, Optional, Tuple

from ..util import Def, make_cfg, pmap, rng, split_defs

MANIFEST = {"technique": "TLA+ state machine of the in-memory memory index (add, clear, tiered search, shard views, sharded search) in exact integer geometry model-checked with TLC; every transition replayed on InMemoryIndex (content order, version token, hits by physical episode and score, shard membership, merged shard search = whole search, purity); random long histories against a Python reference",
            "text": "extra spec beyond the listed properties", "note": "not a listed property; run with ./check X07"}

NOW = dt.datetime(2025, 4, 2, 0, 0, 0, tzinfo=dt.timezone.utc)      # ages 0, 1 lie in 2025Q2, ages >= 2 in 2025Q1
QB = 2
OWNER = {0: None, 1: "A", 2: "B", 9: "any"}
TIER = {1: "exact_semantic", 2: "cluster_semantic", 3: "archive", 4: "nonsense_tier"}
QSETS = {1: ["2025Q1"], 2: ["2025Q2"], 3: ["2025Q2", "2025Q1"], 4: []}
EID = {i: f"e{i}" for i in range(1, 10)}


def _iso(t: dt.datetime, style: int) -> str:
    if style % 2:
        return t.isoformat().replace("+00:00", "Z")
    return t.astimezone(dt.timezone(dt.timedelta(hours=2))).isoformat()      # the same instant, another offset


def srank(ids) -> Dict[int, int]:
    """order of the opaque keys of cluster-less episodes (index.py: 'a stable id from the episode id')"""
    keys = {i: "c:" + hashlib.md5(EID[i].encode("utf-8")).hexdigest()[:8] for i in ids}
    order = sorted(ids, key=lambda i: keys[i])
    return {i: order.index(i) for i in ids}


# ---------------------------------------------------------------------------------------------------
# tables of episode variants: (id, owner, age, cluster, x, y, has_vector)
TABLE_A = [(1, 1, 0, 1, 2, 1, 1), (2, 2, 1, 2, 1, 2, 1), (3, 1, 2, 2, -1, 1, 1), (1, 2, 40, 2, 1, 0, 1), (4, 1, 1, 1, 1, 3, 1)]
TABLE_B = [(1, 1, 0, 1, 2, 1, 1), (2, 2, 2, 0, 1, 2, 1), (3, 9, 1, 2, 0, 0, 1), (2, 1, 30, 2, 0, 0, 0), (4, 2, 31, 1, -2, -1, 1),
           (3, 1, 1, 0, 2, 1, 1)]
TABLE_C = [(1, 1, 30, 1, 3, 1, 1), (1, 1, 31, 2, 3, 1, 1), (2, 2, 0, 2, 1, 3, 1), (3, 2, 1, 1, -1, 2, 1), (4, 1, 2, 0, 2, -1, 1)]
VEC_POOL = [(2, 1), (1, 2), (-1, 1), (1, 0), (1, 3), (3, 1), (-2, -1), (0, 0), (2, -1), (-1, 2), (0, 1), (3, 2), (2, 3)]
TABLES: Dict[str, List[tuple]] = {"Aq": TABLE_A[:4], "A": TABLE_A, "B": TABLE_B, "C": TABLE_C}


def _sq(x: int) -> int:
    return x * x if x >= 0 else -(x * x)


def tie_safe(tab, queries) -> bool:
    for q in queries:
        rows = [r for r in tab if r[6]]
        for a in rows:
            for b in rows:
                da, db = q[0] * a[4] + q[1] * a[5], q[0] * b[4] + q[1] * b[5]
                na, nb = (a[4] ** 2 + a[5] ** 2) or 1, (b[4] ** 2 + b[5] ** 2) or 1
                if _sq(da) * nb == _sq(db) * na and not ((da == db and na == nb) or (da == 0 and db == 0)):
                    return False
    return True


def random_table(seed: int, i: int, queries) -> List[tuple]:
    r = rng(seed, "x07-table", i)
    while True:
        ids = [1, 2, 3, r.choice([1, 2, 3, 4]), r.choice([1, 2, 4])]
        r.shuffle(ids)
        tab = []
        for e in ids:
            x, y = r.choice(VEC_POOL)
            tab.append((e, r.choice([1, 2]), r.choice([0, 1, 2, 29, 30, 31, 40]), r.choice([0, 1, 1, 2, 2]), x, y, 0 if r.random() < 0.08 else 1))
        if tie_safe(tab, queries):
            return tab


def tab_def(tab) -> Def:
    return Def("<<" + ", ".join("[id |-> %d, o |-> %d, a |-> %d, c |-> %d, x |-> %d, y |-> %d, hv |-> %d]" % r for r in tab) + ">>")


# ---------------------------------------------------------------------------------------------------
# concretisation
def mk_ep(row, v: int, serial: int) -> Dict[str, Any]:
    eid, o, a, c, x, y, hv = row
    ep: Dict[str, Any] = {"id": EID[eid], "owner": OWNER[o], "text": f"p{serial}", "ts": _iso(NOW - dt.timedelta(days=a), v + serial),
                          "tags": []}
    if c:
        ep["aux"] = {"cluster_id": f"c{c}"}
    elif serial % 2:
        ep["aux"] = {}
    if hv:
        ep["vec_full"] = [float(x), float(y)]
    elif serial % 2:
        ep["vec_full"] = None
    return ep


def build(tab, st):
    from clematis.memory.index import InMemoryIndex
    idx = InMemoryIndex()
    for g in range(st["gen"]):
        idx.add(mk_ep(tab[0], 1, 900 + g))
        idx.clear()
    phys = []
    for n, v in enumerate(st["eps"] or []):
        ep = mk_ep(tab[v - 1], v, n + 1)
        phys.append(ep)
        idx.add(ep)
    return idx, phys


def project(idx) -> Dict[str, Any]:
    tokn = idx.cache_token()
    return {"texts": [e.get("text") for e in idx._eps], "ver": int(idx.index_version()), "tok": [int(tokn[1]), int(tokn[2])]}


def expected(st, serials: Optional[List[int]] = None) -> Dict[str, Any]:
    n = len(st["eps"] or [])
    return {"texts": [f"p{s}" for s in (serials if serials is not None else range(1, n + 1))], "ver": st["ver"], "tok": [st["gen"], st["ver"]]}


def cos_float(q, x, y) -> float:
    nq, nv = q[0] * q[0] + q[1] * q[1], x * x + y * y
    if nq == 0 or nv == 0:
        return 0.0
    return (q[0] * x + q[1] * y) / math.sqrt(nq * nv)


def hints_of(h) -> Dict[str, Any]:
    out: Dict[str, Any] = {"now": _iso(NOW, 1)}
    if h["rd"] != -1:
        out["recent_days"] = h["rd"]
    if h["thr"][1] != 0:
        out["sim_threshold"] = h["thr"][0] / h["thr"][1]
    if h["m"] != -1:
        out["clusters_top_m"] = h["m"]
    if h["qs"] != 0:
        out["archive_quarters"] = list(QSETS[h["qs"]])
    return out


def _canon(x):
    if isinstance(x, dict):
        return {k: _canon(v) for k, v in x.items()}
    if isinstance(x, (list, tuple)):
        return [_canon(v) for v in x]
    if hasattr(x, "tolist"):
        return ("nd", str(getattr(x, "dtype", "")), x.tolist())
    return x


def _snapshot(idx):
    return ([id(e) for e in idx._eps], _canon(idx._eps), idx.index_version(), tuple(idx.cache_token()))


def _pure(idx, snap, what: str) -> List[Tuple[str, str]]:
    now = _snapshot(idx)
    if now[0] != snap[0] or now[1] != snap[1]:
        return [("SearchIsPure", f"{what} changed the stored episodes")]
    if now[2] != snap[2] or now[3] != snap[3]:
        return [("SearchIsPure", f"{what} moved the version: index_version {snap[2]} -> {now[2]}, cache_token {snap[3]} -> {now[3]}")]
    return []


def _positions(refs, phys) -> List[int]:
    """which stored episode each hit is (the text field carries the serial number of the add)"""
    by_text = {e["text"]: i + 1 for i, e in enumerate(phys)}
    return [by_text.get(getattr(r, "text", None), -1) for r in refs]


def _search(target, obs):
    import numpy as np
    q = np.array([float(obs["q"][0]), float(obs["q"][1])], dtype=np.float32)
    hints = hints_of(obs["h"])
    q0, h0 = q.copy(), copy.deepcopy(hints)
    refs = target.search_tiered(OWNER[obs["ow"]], q, int(obs["k"]), TIER[obs["tier"]], hints)
    touched = (not np.array_equal(q, q0)) or hints != h0
    return list(refs), touched


def _thr_eff(h) -> float:
    return 0.0 if h["thr"][1] == 0 else h["thr"][0] / h["thr"][1]


def judge_hits(tab, pre, obs, refs, phys, want_pos, label: str) -> List[Tuple[str, str]]:
    """the clauses on a real result list + equality with the spec's positions"""
    fails: List[Tuple[str, str]] = []
    pos = _positions(refs, phys)
    rows = [tab[pre["eps"][p - 1] - 1] if p > 0 else None for p in pos]
    where = (f"{label} owner={OWNER[obs['ow']]!r} q={obs['q']} k={obs['k']} tier={TIER[obs['tier']]} hints={hints_of(obs['h'])} "
             f"on variants {pre['eps']} of {tab}")
    if -1 in pos:
        return [("ResultIsTheTopK", f"{where}: a hit is not a stored episode: {[(r.id, r.text) for r in refs]}")]
    if len(refs) > obs["k"] or len(set(pos)) != len(pos):
        fails.append(("ResultWithinK", f"{where}: {len(refs)} hits (positions {pos})"))
    for a, b in zip(refs, refs[1:]):
        if not (a.score > b.score or (a.score == b.score and str(a.id) <= str(b.id))):
            fails.append(("ResultSortedByScoreThenId", f"{where}: ({a.id}, {a.score}) listed before ({b.id}, {b.score})"))
            break
    for r, row in zip(refs, rows):
        if r.id != EID[row[0]] or abs(r.score - cos_float(obs["q"], row[4], row[5])) > 1e-6:
            fails.append(("ResultSortedByScoreThenId", f"{where}: hit ({r.id}, {r.score}) does not carry its episode's id / cosine {cos_float(obs['q'], row[4], row[5])}"))
            break
    if obs["ow"] != 0 and any(row[1] != obs["ow"] or r.owner != OWNER[obs["ow"]] for r, row in zip(refs, rows)):
        fails.append(("OwnerFilter", f"{where}: hits of owners {[r.owner for r in refs]}"))
    rd = 30 if obs["h"]["rd"] == -1 else obs["h"]["rd"]
    if obs["tier"] == 1 and rd > 0 and any(row[2] > rd for row in rows):
        fails.append(("RecencyWindow", f"{where}: hits aged {[row[2] for row in rows]} days, window {rd}"))
    if any(not row[6] or r.score < _thr_eff(obs["h"]) - 1e-9 for r, row in zip(refs, rows)):
        fails.append(("ThresholdRespected", f"{where}: scores {[r.score for r in refs]} (vector present: {[row[6] for row in rows]})"))
    if obs["tier"] == 2:
        sr = srank({r[0] for r in tab})
        cks = [row[3] if row[3] else 10 + sr[row[0]] for row in rows]
        if any(c not in (obs["chosen"] or []) for c in cks):
            fails.append(("ClusterTopM", f"{where}: hits from clusters {cks}, the top-m clusters are {obs['chosen']}"))
    if pos != list(want_pos or []) and not fails:
        fails.append(("ResultIsTheTopK", f"{where}: hits at positions {pos} ({[(r.id, round(r.score, 6)) for r in refs]}), spec {list(want_pos or [])}"))
    return fails


def shard_parts(idx, shards, phys) -> Tuple[List[List[int]], bool]:
    where = {id(e): i + 1 for i, e in enumerate(phys)}
    parts: List[List[int]] = []
    is_self = False
    for s in shards:
        if s is idx:
            is_self = True
            parts.append([where.get(id(e), -1) for e in idx._eps])
        else:
            parts.append([where.get(id(e), -1) for e in s._episodes])      # -1: a copy, not the parent's object
    return parts, is_self


def judge_parts(parts, is_self, n, s, want_parts, want_self, where) -> List[Tuple[str, str]]:
    flat = [p for part in parts for p in part]
    s_eff = -1 if s is None else s
    useful = not (n <= 1 or s_eff <= 1)
    bad = (flat != list(range(1, n + 1)) or (useful and (len(parts) > s_eff or len(parts) < 2 or any(not p for p in parts) or is_self))
           or (not useful and (not is_self or len(parts) != 1)))
    if bad:
        return [("ShardsPartitionInOrder", f"{where}: shards {parts} (index itself: {is_self}) of {n} episodes, suggested {s}")]
    if parts != [list(p or []) for p in want_parts] or is_self != want_self:
        return [("ShardChunksAsImplemented", f"{where}: shards {parts}, modelled chunking {want_parts}")]
    return []


def replay_transition(case) -> List[Tuple[str, str]]:
    name, t = case
    tab = TABLES[name]
    pre, obs, post = t["pre"], t["obs"], t["post"]
    pre["eps"], post["eps"] = pre["eps"] or [], post["eps"] or []
    op = obs["op"]
    try:
        idx, phys = build(tab, pre)
        if project(idx) != expected(pre):
            return [("Construct", f"could not build the pre state: {project(idx)} vs {expected(pre)}")]
        uid0 = idx.cache_token()[0]
        snap = _snapshot(idx)
        where = f"{op} on variants {pre['eps']} (gen {pre['gen']}) of table {tab}"
        fails: List[Tuple[str, str]] = []
        if op in ("add", "clear"):
            if op == "add":
                ep = mk_ep(tab[obs["v"] - 1], obs["v"], len(phys) + 1)
                ret = idx.add(ep)
                phys.append(ep)
            else:
                ret = idx.clear()
                phys = []
            got, want = project(idx), expected(post)
            if got["texts"] != want["texts"] or [id(e) for e in idx._eps] != [id(e) for e in phys] or ret is not None:
                fails.append(("AddAppends", f"{where}: stored {got['texts']}, spec {want['texts']}"))
            tok0, tok1 = snap[3], tuple(idx.cache_token())
            if (got["ver"], got["tok"]) != (want["ver"], want["tok"]) or tok1[0] != uid0 or not tuple(tok0[1:]) < tuple(tok1[1:]):
                fails.append(("VersionStrictlyMonotoneOnMutation", f"{where}: index_version {snap[2]} -> {got['ver']}, cache_token {tok0} -> {tok1}; "
                                                                   f"spec version {pre['ver']} -> {post['ver']}, generation {pre['gen']} -> {post['gen']}"))
            return fails
        if op == "shards":
            s = None if obs["s"] == -1 else obs["s"]
            for tier in ("exact_semantic", "cluster_semantic", "archive"):
                # (None is also the default of the parameter)
                shards = list(idx._iter_shards_for_t2(tier) if s is None and tier == "archive" else idx._iter_shards_for_t2(tier, suggested=s))
                parts, is_self = shard_parts(idx, shards, phys)
                fails += judge_parts(parts, is_self, len(phys), s, obs["parts"], obs["self"], f"{where} tier={tier}")
                for sh in shards:      # a view answers index_version like its parent
                    if int(sh.index_version()) != pre["ver"]:
                        fails.append(("ShardsPartitionInOrder", f"{where}: a shard view reports index_version {sh.index_version()}"))
            return fails + _pure(idx, snap, where)
        # search / shardsearch
        refs, touched = _search(idx, obs)
        if touched:
            fails.append(("SearchIsPure", f"{where}: search_tiered modified its query vector or hints"))
        fails += judge_hits(tab, pre, obs, refs, phys, obs["pos"], "search_tiered")
        fails += _pure(idx, snap, where + " search_tiered")
        if op == "shardsearch":
            shards = list(idx._iter_shards_for_t2(TIER[obs["tier"]], suggested=obs["s"]))
            parts, is_self = shard_parts(idx, shards, phys)
            fails += judge_parts(parts, is_self, len(phys), obs["s"], obs["parts"], obs["self"], where)
            pool = []
            for j, sh in enumerate(shards):
                hits, touched = _search(sh, obs)
                if j < len(obs["hits"]):
                    sub = judge_hits(tab, pre, obs, hits, phys, obs["hits"][j], f"shard {j + 1}/{len(shards)} {parts[j] if j < len(parts) else '?'}")
                    fails += [(c if c != "ResultIsTheTopK" else "ShardedSearchEqualsWhole", m) for c, m in sub]
                pool.extend(hits)
            pool.sort(key=lambda r: (-r.score, str(r.id)))
            pool = _first_per_id(pool)         # the cross-shard merge keeps an id once (its best hit)
            merged = pool[: obs["k"]]
            if [(r.id, r.score) for r in merged] != [(r.id, r.score) for r in refs]:
                fails.append(("ShardedSearchEqualsWhole", f"{where} owner={OWNER[obs['ow']]!r} q={obs['q']} k={obs['k']} tier={TIER[obs['tier']]} hints={hints_of(obs['h'])} "
                                                          f"suggested={obs['s']}: merged shard hits {[(r.id, round(r.score, 6)) for r in merged]}, whole index {[(r.id, round(r.score, 6)) for r in refs]}"))
            elif _positions(merged, phys) != list(obs["merged"] or []):
                fails.append(("ShardedSearchEqualsWhole", f"{where}: merged shard hits at positions {_positions(merged, phys)}, spec {obs['merged']}"))
            fails += _pure(idx, snap, where + " sharded search")
        return fails
    except Exception as e:      # noqa: BLE001
        import traceback
        return [("IndexTotal", f"{op} raised {type(e).__name__}: {e} ({obs}) {traceback.format_exc()[-400:]}")]


# ---------------------------------------------------------------------------------------------------
# random long histories against a Python reference of the same rules (3-D vectors, hours, more of everything)
def _ck(ep) -> str:
    c = (ep.get("aux") or {}).get("cluster_id")
    return str(c) if c else "c:" + hashlib.md5(str(ep["id"]).encode("utf-8")).hexdigest()[:8]


def _cosfrac(q, v) -> Tuple[Fraction, int, int]:
    d = sum(a * b for a, b in zip(q, v))
    nv = sum(b * b for b in v)
    nq = sum(a * a for a in q)
    if nv == 0 or nq == 0:
        return Fraction(0), 0, 0
    return Fraction(_sq(d), nv * nq), d, nv


class Guard(Exception):
    pass


def ref_search(model, part, universe, owner, q, k, tier, hints, now_h) -> List[int]:
    """positions (into `model`) the documented / implemented rules return when the positions `part` are searched"""
    sees = lambda e: owner is None or e["owner"] == owner      # noqa: E731
    rd = int(hints.get("recent_days", 30))
    thr = hints.get("sim_threshold", 0.0)
    thr = Fraction(0) if thr is None else Fraction(thr)
    m = int(hints.get("clusters_top_m", 3))
    quarters = hints.get("archive_quarters")
    chosen = set()
    if tier == "cluster_semantic":
        groups: Dict[str, List[int]] = {}
        for i in universe:
            if sees(model[i]) and model[i]["vec"] is not None:
                groups.setdefault(_ck(model[i]["ep"]), []).append(i)
        cl = []
        for c, mem in groups.items():
            sv = tuple(sum(model[i]["vec"][a] for i in mem) for a in range(3))
            f, d, nv = _cosfrac(q, sv)
            cl.append((-f, c, sv, len(mem)))
        cl.sort(key=lambda t: (t[0], t[1]))
        for a in cl[:max(m, 0)]:
            for b in cl[max(m, 0):]:
                if a[0] == b[0] and not ((a[2], a[3]) == (b[2], b[3]) or (not any(a[2]) and not any(b[2]))):
                    raise Guard("cluster tie at the top-m cut")
        chosen = {t[1] for t in cl[:max(m, 0)]}
    cand = []
    for i in part:
        e = model[i]
        if not sees(e) or e["vec"] is None:
            continue
        f, d, nv = _cosfrac(q, e["vec"])
        sgn = Fraction(1) if d >= 0 else Fraction(-1)
        # cos >= thr  <=>  sign(d) cos^2 >= sign(thr) thr^2
        if not (sgn * abs(f) >= (thr * thr if thr >= 0 else -(thr * thr))):
            continue
        if thr != 0 and abs(f) == thr * thr and (d >= 0) == (thr >= 0):
            raise Guard("cosine exactly on a non-zero threshold")
        if tier == "exact_semantic":
            if rd > 0 and e["age_h"] > rd * 24:
                continue
        elif tier == "cluster_semantic":
            if _ck(e["ep"]) not in chosen:
                continue
        elif tier == "archive":
            if quarters and e["quarter"] not in set(quarters):
                continue
        else:
            continue
        cand.append((-(sgn * abs(f)), str(e["ep"]["id"]), (_ck(e["ep"]) if tier == "cluster_semantic" else ""), i, d, nv))
    cand.sort(key=lambda t: t[:4])
    for a, b in zip(cand, cand[1:]):
        if a[0] == b[0] and (a[4], a[5]) != (b[4], b[5]) and not (a[4] == 0 and b[4] == 0):
            raise Guard("equal cosines from different vectors")
    # (repo fix 397ebc8) the k best are k distinct ids: only the best-ranked row of an id counts
    seen_ids, best = set(), []
    for t in cand:
        if t[1] in seen_ids:
            continue
        seen_ids.add(t[1])
        best.append(t)
    return [t[3] for t in best[:max(k, 0)]]


def _first_per_id(hits):
    seen, out = set(), []
    for h in hits:
        if str(h.id) in seen:
            continue
        seen.add(str(h.id))
        out.append(h)
    return out


def ref_shards(n: int, s) -> Tuple[List[List[int]], bool]:
    if n <= 1 or s is None or s <= 1:
        return [list(range(n))], True
    chunks = min(s, n)
    size = -(-n // chunks)
    return [list(range(a, min(a + size, n))) for a in range(0, n, size)], False


def random_history(args) -> List[Tuple[str, str]]:
    import numpy as np
    from clematis.memory.index import InMemoryIndex
    seed, hi = args
    r = rng(seed, "x07", hi)
    now = dt.datetime(2025, r.choice([1, 4, 7, 10]), r.choice([1, 2, 15]), r.randrange(24), r.choice([0, 30]), tzinfo=dt.timezone.utc)
    idx, other = InMemoryIndex(), InMemoryIndex()
    if idx.cache_token()[0] == other.cache_token()[0]:
        return [("VersionStrictlyMonotoneOnMutation", "two index instances share the instance part of cache_token")]
    uid = idx.cache_token()[0]
    model: List[Dict[str, Any]] = []
    gen = 0
    serial = 0
    fails: List[Tuple[str, str]] = []
    guards = 0
    tokens = [tuple(idx.cache_token())]
    comps = [-3, -2, -1, 0, 0, 1, 1, 2, 3]
    for step in range(r.choice([25, 60])):
        u = r.random()
        what = f"random history {hi} step {step}"
        try:
            if u < 0.4 or not model:
                serial += 1
                age_h = r.choice([0, 1, 23, 24, 25, 47, 48, 49, 24 * 29, 24 * 30, 24 * 30 + 1, 24 * 31, 24 * 100, 24 * 200])
                ts = now - dt.timedelta(hours=age_h)
                vec = None if r.random() < 0.08 else tuple(r.choice(comps) for _ in range(3))
                ep: Dict[str, Any] = {"id": r.choice(["e1", "e2", "e3", "e4", "e5", "e10", "E1"]), "owner": r.choice(["A", "B", "any", "world"]),
                                      "text": f"p{serial}", "ts": _iso(ts, serial)}
                cid = r.choice([None, None, "c1", "c2", "c3", "d"])
                if cid:
                    ep["aux"] = {"cluster_id": cid}
                if vec is not None:
                    ep["vec_full"] = [float(c) for c in vec] if serial % 3 else np.array(vec, dtype=np.float32)
                v0 = idx.index_version()
                idx.add(ep)
                model.append({"ep": ep, "owner": ep["owner"], "age_h": age_h, "vec": vec, "quarter": f"{ts.year}Q{(ts.month - 1) // 3 + 1}"})
                if idx.index_version() != v0 + 1:
                    fails.append(("VersionStrictlyMonotoneOnMutation", f"{what}: add moved index_version {v0} -> {idx.index_version()}"))
            elif u < 0.45:
                idx.clear()
                model, gen = [], gen + 1
            elif u < 0.55:
                s = r.choice([None, 0, 1, 2, 3, 4, 5, 8, 100])
                shards = list(idx._iter_shards_for_t2(r.choice(list(TIER.values())), suggested=s))
                parts, is_self = shard_parts(idx, shards, [m["ep"] for m in model])
                wp, ws = ref_shards(len(model), s)
                fails += judge_parts(parts, is_self, len(model), s, [[p + 1 for p in x] for x in wp], ws, what)
            else:
                owner = r.choice([None, None, "A", "B", "any", "nobody"])
                q = tuple(r.choice(comps) for _ in range(3))
                k = r.choice([0, 1, 2, 3, 5, 50])
                tier = r.choice(["exact_semantic", "cluster_semantic", "archive", "archive", "other"])
                hints: Dict[str, Any] = {"now": _iso(now, step)}
                if r.random() < 0.7:
                    hints["recent_days"] = r.choice([0, 1, 2, 30, 31, -1, 365])
                if r.random() < 0.7:
                    hints["sim_threshold"] = r.choice([0.0, 0.5, -0.5, 0.25, 0.75, None, -1.0])
                if r.random() < 0.7:
                    hints["clusters_top_m"] = r.choice([0, 1, 2, 3, 10])
                if r.random() < 0.5:
                    hints["archive_quarters"] = r.choice([[], None, ["2025Q1"], ["2024Q4", "2025Q2"], ["2025Q1", "2025Q2", "2025Q3", "2025Q4"]])
                qv = np.array(q, dtype=np.float32)
                snap = _snapshot(idx)
                h0 = copy.deepcopy(hints)
                refs = idx.search_tiered(owner, qv, k, tier, hints)
                fails += _pure(idx, snap, what + " search_tiered")
                if hints != h0 or tuple(qv) != tuple(np.array(q, dtype=np.float32)):
                    fails.append(("SearchIsPure", f"{what}: search_tiered modified its query vector or hints"))
                n = len(model)
                desc = f"{what}: owner={owner!r} q={q} k={k} tier={tier} hints={hints} over {[(m['ep']['id'], m['owner'], m['age_h'], _ck(m['ep']), m['vec']) for m in model]}"
                try:
                    want = ref_search(model, range(n), range(n), owner, q, k, tier, hints, now)
                    got = [int(x.text[1:]) for x in refs]
                    ser = [int(m["ep"]["text"][1:]) for m in model]
                    if got != [ser[i] for i in want]:
                        fails.append(("ResultIsTheTopK", f"{desc}: hits {[(x.id, x.text, round(x.score, 6)) for x in refs]}, reference {[model[i]['ep']['text'] for i in want]}"))
                    for x, i in zip(refs, want if not fails else []):
                        f = _cosfrac(q, model[i]["vec"])
                        c = math.copysign(math.sqrt(abs(f[0])), f[1]) if f[0] else 0.0
                        if abs(x.score - c) > 1e-6 or x.id != str(model[i]["ep"]["id"]) or x.owner != model[i]["owner"]:
                            fails.append(("ResultSortedByScoreThenId", f"{desc}: hit ({x.id}, {x.owner}, {x.score}) is not (id, owner, cosine {c}) of its episode"))
                            break
                    if not fails and n >= 2:
                        s = r.choice([2, 3, 4, 7])
                        shards = list(idx._iter_shards_for_t2(tier, suggested=s))
                        parts, _ = shard_parts(idx, shards, [m["ep"] for m in model])
                        pool = []
                        for sh, part in zip(shards, parts):
                            hits = sh.search_tiered(owner, qv, k, tier, hints)
                            wh = ref_search(model, [p - 1 for p in part], range(n), owner, q, k, tier, hints, now)
                            if [int(x.text[1:]) for x in hits] != [ser[i] for i in wh]:
                                fails.append(("ShardedSearchEqualsWhole", f"{desc}: shard {part} returns {[x.text for x in hits]}, reference {[model[i]['ep']['text'] for i in wh]}"))
                            pool.extend(hits)
                        pool.sort(key=lambda x: (-x.score, str(x.id)))
                        pool = _first_per_id(pool)
                        if [(x.id, x.score) for x in pool[:max(k, 0)]] != [(x.id, x.score) for x in refs]:
                            fails.append(("ShardedSearchEqualsWhole", f"{desc}: suggested={s} shards {parts}: merged {[(x.id, x.text) for x in pool[:max(k, 0)]]}, whole index {[(x.id, x.text) for x in refs]}"))
                        fails += _pure(idx, snap, what + " sharded search")
                except Guard:
                    guards += 1
            tk = tuple(idx.cache_token())
            if tk != tokens[-1]:
                if not tokens[-1][1:] < tk[1:] or tk[0] != uid:
                    fails.append(("VersionStrictlyMonotoneOnMutation", f"{what}: cache_token {tokens[-1]} -> {tk}"))
                tokens.append(tk)
            if (tk[1], tk[2]) != (gen, len(model)) or idx.index_version() != len(model) or [id(e) for e in idx._eps] != [id(m["ep"]) for m in model]:
                fails.append(("VersionStrictlyMonotoneOnMutation" if [id(e) for e in idx._eps] == [id(m["ep"]) for m in model] else "AddAppends",
                              f"{what}: cache_token {tk}, index_version {idx.index_version()}, {len(idx._eps)} stored; reference generation {gen}, {len(model)} episodes"))
        except Exception as e:      # noqa: BLE001
            import traceback
            fails.append(("IndexTotal", f"{what}: {type(e).__name__}: {e} {traceback.format_exc()[-500:]}"))
        if fails:
            break
    return fails[:3] + ([("__guards__", str(guards))] if guards and not fails else [])


# ---------------------------------------------------------------------------------------------------
INVARIANTS = ["VerCountsAdds"]
PROPERTIES = ["VersionStrictlyMonotoneOnMutation", "SearchIsPure", "AddAppends", "ResultWithinK", "ResultSortedByScoreThenId", "OwnerFilter", "RecencyWindow",
              "ThresholdRespected", "ClusterTopM", "ResultIsTheTopK", "ShardsPartitionInOrder", "ShardedSearchEqualsWhole"]


def _tuples(xs) -> Def:
    return Def("{" + ", ".join("<<%d, %d>>" % tuple(x) for x in xs) + "}")


def _ints(xs) -> Def:
    return Def("{" + ", ".join(str(x) for x in xs) + "}")


QUICK_SCOPE = {"queries": [(1, 1), (1, 0)], "owners": [0, 1, 9], "ks": [1, 2, 3], "thrs": [(0, 0), (1, 2)], "rds": [-1, 0, 1], "ms": [1, 2], "qs": [0, 2],
               "maxn": 3, "maxlen": 3}


def constants(tab, sc: Dict[str, Any], queries) -> Dict[str, Any]:
    ids = sorted({r[0] for r in tab})
    sr = srank(set(ids))
    if not tie_safe(tab, queries):
        from ..tlc import TLCError
        raise TLCError(f"table {tab} is not tie-safe for {queries}")
    return {"Tab": tab_def(tab), "SRank": Def("<<" + ", ".join(str(sr.get(i, 0)) for i in range(1, max(ids) + 1)) + ">>"),
            "Queries": _tuples(queries), "OwnerArgs": list(sc["owners"]), "Ks": list(sc["ks"]), "Thrs": _tuples(sc["thrs"]),
            "RDs": _ints(sc["rds"]), "TopMs": _ints(sc["ms"]), "QSets": list(sc["qs"]),
            "Suggs": _ints([-1, 0, 1, 2, 3, 5]), "QB": QB, "MaxN": sc["maxn"], "MaxLen": sc["maxlen"]}


def exercised(obs) -> List[str]:
    op = obs["op"]
    if op in ("add", "clear"):
        return ["AddAppends", "VersionStrictlyMonotoneOnMutation"]
    if op == "shards":
        return ["ShardsPartitionInOrder", "SearchIsPure"]
    out = ["SearchIsPure", "ResultWithinK", "ThresholdRespected", "ResultIsTheTopK"]
    n = len(obs["pos"] or [])
    if n >= 2:
        out.append("ResultSortedByScoreThenId")
    if obs["ow"] != 0:
        out.append("OwnerFilter")
    if obs["tier"] == 1 and obs["h"]["rd"] != 0:
        out.append("RecencyWindow")
    if obs["tier"] == 2:
        out.append("ClusterTopM")
    if op == "shardsearch":
        out += ["ShardsPartitionInOrder", "ShardedSearchEqualsWhole"]
    return out


def check(run) -> None:
    q = run.quick
    run.rule = ("every transition of the MemIndex model replayed on InMemoryIndex (state rebuilt per transition); seeded random histories on one kept "
                "index against a Python reference; distinct = distinct (table, pre state, call)")
    Q = dict(QUICK_SCOPE)
    if q:
        plan = [("Aq", Q, False)]
    else:
        plan = [("A", dict(Q, queries=[(1, 1), (1, 0), (-1, 2)], owners=[0, 1, 2], thrs=[(0, 0), (1, 2), (-1, 2)], qs=[0, 1, 2]), True),
                ("B", dict(Q, queries=[(1, 1), (0, 0), (-1, 2)], ks=[1, 3], thrs=[(0, 0), (-1, 2)], rds=[-1, 1], ms=[-1, 0, 1], qs=[0, 3, 4]), True),
                ("C", dict(Q, queries=[(1, 1)], owners=[0, 1], ks=[2, 3], rds=[-1, 1], qs=[0], maxn=4, maxlen=4), False)]
        for i in range(2):
            TABLES[f"R{i}"] = random_table(run.seed, i, [(1, 1), (1, 0), (0, 0), (-1, 2)])
            plan.append((f"R{i}", Q, False))
    guarded = 0
    per_op: Dict[str, int] = {}
    for name, sc, split in plan:
        tab = TABLES[name]
        run.constants[name] = {"table (id, owner, age, cluster, x, y, has_vector)": [list(r) for r in tab], **{k: v for k, v in sc.items()}}
        for qi, queries in enumerate([[x] for x in sc["queries"]] if split else [sc["queries"]]):
            consts = constants(tab, sc, queries)
            cfg = make_cfg(consts, INVARIANTS, PROPERTIES, emit=True, view="View_")
            res = run.tlc("MemIndex", cfg, name=f"MemIndex_{name}_{qi}", workers=6, timeout_s=1500, defs=split_defs(consts), heap="4g")
            run.model_must_hold(res)
            ts = res.emitted
            res.text = ""
            if not ts:
                from ..tlc import TLCError
                raise TLCError("MemIndex emitted no transitions")
            cases = []
            for t in ts:
                per_op[t["obs"]["op"]] = per_op.get(t["obs"]["op"], 0) + 1
                if t["obs"].get("guard"):
                    guarded += 1
                    continue
                cases.append((name, t))
            for (nm, t), fails in zip(cases, pmap(replay_transition, cases, procs=6, chunk=500)):
                run.traces += 1
                run.case(json.dumps([nm, t["pre"], {k: v for k, v in t["obs"].items() if k in ("op", "v", "s", "ow", "q", "k", "tier", "h")}], sort_keys=True))
                bad = {c for c, _ in fails}
                for c in exercised(t["obs"]):
                    if c not in bad:
                        run.ok(c)
                for clause, msg in fails:
                    run.fail(clause, {"clause": clause, "op": t["obs"]["op"]}, {"table": nm, "t": t}, msg, replay={"table": TABLES[nm], "t": t})
            if qi == 0:
                run.sample({"table": name, "transition": next((t for _, t in cases if t["obs"]["op"] == "shardsearch" and len(t["obs"]["pos"] or []) > 1), ts[-1])}, cap=2)
            del ts, cases, res
    run.guarded_out += guarded
    run.extra["transitions_per_op"] = per_op
    n = 300 if q else 6000
    args = [(run.seed, i) for i in range(n)]
    g = 0
    for a, fails in zip(args, pmap(random_history, args, procs=6, chunk=25)):
        run.traces += 1
        run.case(("rand", a[1]))
        real = [f for f in fails if f[0] != "__guards__"]
        g += sum(int(f[1]) for f in fails if f[0] == "__guards__")
        if not real:
            run.ok("random_history_conforms")
        for clause, msg in real:
            run.fail(clause, {"clause": clause, "op": "random"}, {"seed": a[0], "i": a[1]}, msg, replay={"random": list(a)})
    run.extra["random_history_searches_guarded_out"] = g
    run.assumptions += ["float cosines are compared with the exact rational cosines up to 1e-6; searches whose outcome hinges on an exact tie between "
                        "different vectors / centroids (non-exact float comparison) are not replayed and counted as guarded_out",
                        "insertion order and shard membership are read from the private fields _eps / _ShardView._episodes (object identity)"]
    run.exhaustive = False


def replay(rep) -> int:
    r = rep["replay"]
    if "t" in r:
        TABLES["_replay"] = [tuple(x) for x in r["table"]]
        fails = replay_transition(("_replay", r["t"]))
    else:
        fails = [f for f in random_history(tuple(r["random"])) if f[0] != "__guards__"]
    for f in fails:
        print(": ".join(f))
    if fails:
        print(f"VIOLATION property=X07 replay={rep.get('_path', '?')}")
        return 1
    print("replay: conforms")
    return 0
