"""X03 (extra, beyond the listed properties) — the in-memory concept graph store.

(M)    GraphStore.tla: upsert_nodes / upsert_edges / apply_deltas over small id, label, weight and relation
       alphabets with batches up to MaxBatch; content, iteration order, report counts; design clauses as
       invariants / action properties.
(S->C)  every transition (pre state, operation, batch, post state, report) is replayed on the real
       InMemoryGraphStore: content and iteration order after the call, the report, csr/csc consistency,
       and the etag relation  etag_pre = etag_post  =>  abstract state unchanged.
       Seeded random long histories: the equality relation of real etags over ALL visited states equals the
       equality relation of the abstract states (content + iteration order).
"""
from __future__ import annotations

import json
import os
from typing import Any, Dict, List, Tuple

from ..util import Def, make_cfg, pmap, rng, split_defs

MANIFEST = {"technique": "TLA+ model of the graph store (content, iteration order, reports) model-checked with TLC; every transition replayed on InMemoryGraphStore incl. the etag equality relation and csr/csc consistency; random long histories",
            "text": "extra spec beyond the listed properties", "note": "not a listed property; run with ./check X03"}

GID = "g"


def _key(k) -> str:
    """spec key -> real id: default edge ids are modelled as <<"e", src, dst>>"""
    if isinstance(k, (list, tuple)):
        return f"e:{k[1]}->{k[2]}"
    return str(k)


def _abs_state(st) -> Dict[str, Any]:
    """abstract state from the spec's JSON (functions with string keys; default-id keys arrive as JSON text)"""
    def keyfix(m):
        out = {}
        if isinstance(m, dict):
            for k, v in m.items():
                try:
                    kk = json.loads(k) if k.startswith("[") else k
                except Exception:
                    kk = k
                out[_key(kk)] = v
        return out
    return {"nodes": keyfix(st["nodes"]), "edges": keyfix(st["edges"]),
            "norder": [_key(x) for x in (st["norder"] or [])], "eorder": [_key(x) for x in (st["eorder"] or [])]}


def build(st):
    from clematis.graph.store import InMemoryGraphStore
    from clematis.engine.types import Node, Edge
    s = InMemoryGraphStore()
    s.ensure(GID)
    a = _abs_state(st)
    for nid in a["norder"]:
        n = a["nodes"][nid]
        s.upsert_nodes(GID, [Node(id=nid, label=_label(n["label"], nid), attrs=({"tags": ["t"]} if n["tag"] else {}))])
    for eid in a["eorder"]:
        e = a["edges"][eid]
        s.upsert_edges(GID, [Edge(id=eid, src=e["src"], dst=e["dst"], weight=e["w"] / 4.0, rel=e["rel"])])
    return s


def _label(lb, nid):
    return nid if lb == "=id" else lb


def project(store) -> Dict[str, Any]:
    g = store.get_graph(GID)
    return {"nodes": {k: {"label": n.label, "tag": 1 if (getattr(n, "attrs", None) or {}).get("tags") else 0} for k, n in g.nodes.items()},
            "edges": {k: {"src": e.src, "dst": e.dst, "w": e.weight * 4.0, "rel": e.rel} for k, e in g.edges.items()},
            "norder": list(g.nodes.keys()), "eorder": list(g.edges.keys())}


def expected(st) -> Dict[str, Any]:
    a = _abs_state(st)
    return {"nodes": {k: {"label": _label(v["label"], k), "tag": v["tag"]} for k, v in a["nodes"].items()},
            "edges": {k: {"src": v["src"], "dst": v["dst"], "w": float(v["w"]), "rel": v["rel"]} for k, v in a["edges"].items()},
            "norder": a["norder"], "eorder": a["eorder"]}


def do_op(store, obs):
    from clematis.engine.types import Node, Edge
    b = obs["batch"] or []
    if obs["op"] == "upsert_nodes":
        return store.upsert_nodes(GID, [Node(id=x["id"], label=x["label"], attrs=({"tags": ["t"]} if x["tag"] else {})) for x in b])
    if obs["op"] == "upsert_edges":
        return store.upsert_edges(GID, [Edge(id=x["id"], src=x["src"], dst=x["dst"], weight=x["w"] / 4.0, rel=x["rel"]) for x in b])
    deltas = []
    for x in b:
        k = x["kind"]
        if k == 1:
            deltas.append({"op": "upsert_edge", "id": x["id"], "src": x["src"], "dst": x["dst"], "weight": x["w"] / 4.0})
        elif k == 2:
            deltas.append({"op": "upsert_edge", "src": x["src"], "dst": x["dst"], "weight": x["w"] / 4.0})
        elif k == 3:
            deltas.append({"op": "upsert_node", "id": x["id"], "label": x["label"]})
        elif k == 4:
            deltas.append({"op": "upsert_node", "id": x["id"]})
        else:
            deltas.append({"op": "noop_unknown", "id": "zzz"})
    return store.apply_deltas(GID, deltas)


def views_ok(store) -> List[str]:
    g = store.get_graph(GID)
    out = []
    csr, csc = store.csr(GID), store.csc(GID)
    if set(csr) != {e.src for e in g.edges.values()} or set(csc) != {e.dst for e in g.edges.values()}:
        out.append(f"csr/csc keys {sorted(csr)} / {sorted(csc)} are not exactly the sources / destinations")
    for name, adj, near, far in (("csr", csr, "src", "dst"), ("csc", csc, "dst", "src")):
        listed = [(k, o, e.id) for k, lst in adj.items() for (o, e) in lst]
        want = [(getattr(e, near), getattr(e, far), e.id) for e in g.edges.values()]
        if sorted(listed) != sorted(want):
            out.append(f"{name} lists {sorted(listed)}, edges are {sorted(want)}")
        for k, lst in adj.items():      # per key: iteration (insertion) order of the edges
            if [e.id for (_, e) in lst] != [e.id for e in g.edges.values() if getattr(e, near) == k]:
                out.append(f"{name}[{k}] is not in the store's iteration order")
    return out


def replay_transition(t) -> List[Tuple[str, str]]:
    fails: List[Tuple[str, str]] = []
    try:
        store = build(t["pre"])
        if project(store) != expected(t["pre"]):
            return [("Construct", f"could not build the pre state: {project(store)} vs {expected(t['pre'])}")]
        etag0 = store.version_etag(GID)
        rep = do_op(store, t["obs"])
    except Exception as e:      # noqa: BLE001
        return [("StoreTotal", f"{t['obs']['op']} raised {type(e).__name__}: {e} (batch {t['obs']['batch']})")]
    got, want = project(store), expected(t["post"])
    where = f"{t['obs']['op']} {json.dumps(t['obs']['batch'])[:200]} on nodes={_abs_state(t['pre'])['norder']} edges={_abs_state(t['pre'])['eorder']}"
    for fld in ("nodes", "edges"):
        if got[fld] != want[fld]:
            fails.append(("ContentAfterOp", f"{where}: {fld} {got[fld]}, spec {want[fld]}"))
    for fld in ("norder", "eorder"):
        if got[fld] != want[fld]:
            fails.append(("IterationOrder", f"{where}: {fld} {got[fld]}, spec {want[fld]}"))
    if t["obs"]["op"] == "apply_deltas":
        if not isinstance(rep, dict) or rep.get("edits") != t["obs"]["edits"]:
            fails.append(("ReportCountsRecognisedOps", f"{where}: report {rep}, spec edits={t['obs']['edits']}"))
    same_state = expected(t["pre"]) == want
    etag1 = store.version_etag(GID)
    # safety direction only: an etag that stays must mean an unchanged state (the initial "v0" of a fresh graph is
    # replaced by the digest of the empty content on the first call - a changed etag for an unchanged state costs a
    # cache miss, never a wrong hit)
    if etag0 == etag1 and not same_state:
        fails.append(("EtagTracksState", f"{where}: etag stays {etag0} although the abstract state changed"))
    for m in views_ok(store):
        fails.append(("ViewsConsistent", f"{where}: {m}"))
    return fails


def random_history(args) -> List[Tuple[str, str]]:
    """long random history: group all visited states by real etag and by abstract state (content + order)"""
    from clematis.graph.store import InMemoryGraphStore
    from clematis.engine.types import Node, Edge
    seed, i = args
    r = rng(seed, "x03", i)
    ids = ["a", "b", "c", "é:1", ""]
    store = InMemoryGraphStore()
    store.ensure(GID)
    seen: Dict[str, str] = {}
    fails: List[Tuple[str, str]] = []
    for step in range(r.choice([20, 60])):
        k = r.random()
        if k < 0.35:
            store.upsert_nodes(GID, [Node(id=r.choice(ids), label=r.choice(["x", "y", "apple"]), attrs=r.choice([{}, {"tags": ["t"]}, {"tags": ["t", "u"]}]))
                                     for _ in range(r.randrange(0, 3))])
        elif k < 0.7:
            store.upsert_edges(GID, [Edge(id=r.choice(["e1", "e2", "e3"]), src=r.choice(ids), dst=r.choice(ids), weight=r.choice([0.25, 0.5, -0.5, 0.0]),
                                          rel=r.choice(["supports", "contradicts"])) for _ in range(r.randrange(0, 3))])
        else:
            store.apply_deltas(GID, [r.choice([{"op": "upsert_edge", "src": r.choice(ids), "dst": r.choice(ids), "weight": r.choice([0.25, 0.5])},
                                               {"op": "upsert_node", "id": r.choice(ids)}, {"op": "other"}]) for _ in range(r.randrange(0, 3))])
        g = store.get_graph(GID)
        absd = json.dumps([[(k2, n.label, (n.attrs or {}).get("tags", [])) for k2, n in g.nodes.items()],
                           [(k2, e.src, e.dst, e.weight, e.rel) for k2, e in g.edges.items()]], ensure_ascii=False)
        et = store.version_etag(GID)
        if et in seen and seen[et] != absd:
            fails.append(("EtagTracksState", f"random history {i} step {step}: etag {et} stands for two different states"))
            break
        seen[et] = absd
        for m in views_ok(store):
            fails.append(("ViewsConsistent", f"random history {i} step {step}: {m}"))
        if fails:
            break
    if not fails:
        # the same content inserted in the opposite order is a different input to T1 (adjacency lists follow the
        # iteration order): the etag must tell the two stores apart
        g = store.get_graph(GID)
        for rev_nodes, rev_edges in ((False, True), (True, False)):
            twin = InMemoryGraphStore()
            twin.ensure(GID)
            ns, es = list(g.nodes.values()), list(g.edges.values())
            twin.upsert_nodes(GID, list(reversed(ns)) if rev_nodes else ns)
            twin.upsert_edges(GID, list(reversed(es)) if rev_edges else es)
            g2 = twin.get_graph(GID)
            if (list(g2.nodes) != list(g.nodes) or list(g2.edges) != list(g.edges)) and twin.version_etag(GID) == store.version_etag(GID):
                fails.append(("EtagTracksState", f"random history {i}: the same content in a different iteration order "
                                                 f"(nodes {list(g.nodes)} vs {list(g2.nodes)}, edges {list(g.edges)} vs {list(g2.edges)}) has the same etag {store.version_etag(GID)}"))
                break
    return fails


def check(run) -> None:
    q = run.quick
    run.rule = "every transition of the GraphStore model replayed on InMemoryGraphStore; seeded random histories; distinct = distinct transition"
    consts = {"NodeIds": ["a", "b"], "EdgeIds": ["e1", "e2"] if not q else ["e1"], "Labels": ["x", "y"], "Weights": [1, 2], "Rels": ["supports"] if q else ["supports", "contradicts"],
              "MaxBatch": 2 if not q else 1, "MaxLen": 3 if not q else 3}
    cfg = make_cfg(consts, ["OrdersAreTheDomains"], ["NothingRemoved", "DeltaKeepsExistingNode", "EditsCountRecognised"], emit=True, view="View_")
    res = run.tlc("GraphStore", cfg, name="GraphStore", workers=1, timeout_s=1500)
    run.model_must_hold(res)
    ts = res.emitted
    if not ts:
        from ..tlc import TLCError
        raise TLCError("GraphStore emitted no transitions")
    for t, fails in zip(ts, pmap(replay_transition, ts, chunk=200)):
        run.traces += 1
        run.case(json.dumps([t["pre"], t["obs"]], sort_keys=True))
        if not fails:
            run.ok("GraphStore.transition_conforms")
        for clause, msg in fails:
            run.fail(clause, {"clause": clause, "op": t["obs"]["op"]}, t, msg, replay={"t": t})
    n = 200 if q else 3000
    args = [(run.seed, i) for i in range(n)]
    for a, fails in zip(args, pmap(random_history, args, chunk=20)):
        run.traces += 1
        run.case(("rand", a[1]))
        if not fails:
            run.ok("GraphStore.random_history_etag_relation")
        for clause, msg in fails:
            run.fail(clause, {"clause": clause, "op": "random"}, {"seed": a[0], "i": a[1]}, msg, replay={"random": list(a)})
    run.sample({"transition": ts[len(ts) // 2]}, cap=2)
    run.exhaustive = False


def replay(rep) -> int:
    r = rep["replay"]
    fails = replay_transition(r["t"]) if "t" in r else random_history(tuple(r["random"]))
    for f in fails:
        print(": ".join(f))
    if fails:
        print(f"VIOLATION property=X03 replay={rep.get('_path', '?')}")
        return 1
    print("replay: conforms")
    return 0
