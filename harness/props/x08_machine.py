"""X08 helper — the real-object machine behind ReadOnlyState.tla.

A world of the spec (heap of nodes: root / map / ns / list / leaf) is built out of real Python objects (plain dict,
OrderedDict, a dict subclass, SimpleNamespace, list, "heavy" leaves: an object with attributes, a numpy array, a
dataclass instance, a set), `readonly_snapshot` gives the view, and every operation of the spec is one real call.
Nothing of the module under test is re-implemented here: the expected values come from the spec's JSON.
"""
from __future__ import annotations

import collections
import dataclasses
from types import SimpleNamespace
from typing import Any, Dict, List, Optional, Tuple

import numpy as np


class LeafObj:
    """a heavy object with attributes"""

    def __init__(self):
        self.ver = 0
        self.payload = {"inner": [1, 2, 3]}      # a dict INSIDE a leaf object: never touched by freeze


@dataclasses.dataclass
class DataLeaf:
    ver: int = 0
    vec: Any = None


class MyDict(dict):
    """a dict subclass"""


class RootObj:
    """a plain state object with attributes"""


def mk_leaf(i: int):
    k = i % 4
    if k == 0:
        return LeafObj()
    if k == 1:
        return np.zeros(1)
    if k == 2:
        return DataLeaf(0, np.arange(3))
    return {0}


def leaf_ver(x) -> int:
    if isinstance(x, (LeafObj, DataLeaf)):
        return x.ver
    if isinstance(x, np.ndarray):
        return int(x[0])
    return len(x) - 1


def leaf_bump(x) -> None:
    if isinstance(x, (LeafObj, DataLeaf)):
        x.ver += 1
    elif isinstance(x, np.ndarray):
        x[0] += 1
    else:
        x.add(len(x))


def mk_map(i: int):
    return [dict, collections.OrderedDict, MyDict][i % 3]()


class Outcome:
    __slots__ = ("res", "exc", "msg", "value")

    def __init__(self, res, exc="", msg="", value=None):
        self.res, self.exc, self.msg, self.value = res, exc, msg, value


class Machine:
    def __init__(self, world: int, heap0: List[dict]):
        self.objs: Dict[int, Any] = {}
        self.kind: Dict[int, str] = {}
        self.ids: Dict[int, int] = {}
        self.view = None
        self.problems: List[Tuple[str, str]] = []
        for i, n in enumerate(heap0, start=1):
            self._alloc(i, n["kind"], world)
        for i, n in enumerate(heap0, start=1):
            for c in n["ch"] or []:
                self._attach(i, c["lab"], self.objs[c["id"]])

    # ---- construction ---------------------------------------------------------------------------
    def _alloc(self, i: int, kind: str, world: int = 0):
        if kind == "root":
            o = SimpleNamespace() if world % 2 == 0 else RootObj()
        elif kind == "map":
            o = mk_map(i)
        elif kind == "ns":
            o = SimpleNamespace()
        elif kind == "list":
            o = []
        else:
            o = mk_leaf(i)
        self.objs[i], self.kind[i], self.ids[id(o)] = o, kind, i
        return o

    def _attach(self, pid: int, lab: str, child) -> None:
        p, k = self.objs[pid], self.kind[pid]
        if k == "map":
            p[lab] = child
        elif k in ("ns", "root"):
            setattr(p, lab, child)
        else:
            p.append(child)

    @property
    def root(self):
        return self.objs[1]

    def fresh(self, kind: str):
        i = len(self.objs) + 1
        return i, self._alloc(i, "leaf" if kind == "leaf" else "map")

    # ---- live mutation of a real object (x is the object itself, however it was reached) --------------
    def live_op(self, x, kind: str, op: dict) -> int:
        o = op["op"]
        if o == "inplace":
            leaf_bump(x)
            return 0
        new = 0
        if o in ("set_new", "set_old", "append"):
            new, val = self.fresh(op["fresh"])
        if kind == "list":
            if o == "append":
                x.append(val)
            elif o == "set_old":
                x[op["pos"] - 1] = val
            elif o == "pop":
                x.pop()
            elif o == "reverse":
                x.reverse()
            else:
                raise ValueError(f"list op {o}")
        elif kind == "map":
            if o in ("set_new", "set_old"):
                x[op["key"]] = val
            elif o == "del":
                del x[op["key"]]
            else:
                raise ValueError(f"map op {o}")
        elif kind in ("ns", "root"):
            if o in ("set_new", "set_old"):
                setattr(x, op["key"], val)
            elif o == "del":
                delattr(x, op["key"])
            else:
                raise ValueError(f"ns op {o}")
        else:
            raise ValueError(f"{kind} op {o}")
        return new

    # ---- the view ----------------------------------------------------------------------------------
    def walk(self, attr: str, path: List[int]):
        """the object reached through the view at attr / child positions"""
        from clematis.engine.stages.state_clone import FrozenDict, FrozenList
        x = getattr(self.view, attr)
        for pos in path:
            if isinstance(x, (FrozenDict, dict)):
                x = x[list(x)[pos - 1]]
            elif isinstance(x, (FrozenList, list, tuple)):
                x = x[pos - 1]
            elif isinstance(x, SimpleNamespace):
                x = getattr(x, list(vars(x))[pos - 1])
            else:
                raise LookupError(f"cannot descend into {type(x).__name__} at position {pos}")
        return x

    def frozen_op(self, x, o: str) -> None:
        """one mutator spelling on a node the spec says is frozen (x is whatever the view handed out)"""
        from clematis.engine.stages.state_clone import FrozenDict
        is_map = isinstance(x, (FrozenDict, dict, SimpleNamespace))
        if o == "setattr":
            x.x08_attr = 1
        elif o == "setitem":
            if is_map:
                x[next(iter(x), "k9")] = 1
            else:
                x[0] = 1
        elif o == "delitem":
            if is_map:
                del x[next(iter(x), "k9")]
            else:
                del x[0]
        elif o == "update":
            x.update({"k9": 1})
        elif o == "clear":
            x.clear()
        elif o == "pop":
            if is_map:
                x.pop(next(iter(x), "k9"), None)
            else:
                x.pop()
        elif o == "popitem":
            x.popitem()
        elif o == "setdefault":
            x.setdefault("k9", 1)
        elif o == "ior":
            y = x
            y |= {"k9": 1}
        elif o == "append":
            x.append(1)
        elif o == "extend":
            x.extend([1])
        elif o == "insert":
            x.insert(0, 1)
        elif o == "remove":
            x.remove(x[0] if len(x) else 1)
        elif o == "sort":
            x.sort(key=id)
        elif o == "reverse":
            x.reverse()
        elif o == "iadd":
            y = x
            y += [1]
        elif o == "imul":
            y = x
            y *= 2
        else:
            raise ValueError(f"frozen op {o}")

    def root_op(self, o: str) -> None:
        v = self.view
        names = list(vars(self.root)) or ["a"]
        if o == "setattr_old":
            setattr(v, names[0], 1)
        elif o == "setattr_new":
            v.x08_new = 1
        elif o == "delattr":
            delattr(v, names[0])
        elif o == "setitem":
            v[names[0]] = 1
        elif o == "delitem":
            del v[names[0]]
        else:
            raise ValueError(f"root op {o}")

    def apply(self, op: dict) -> Outcome:
        from clematis.engine.stages.state_clone import FrozenDict, FrozenList, readonly_snapshot
        a = op["a"]
        try:
            if a == "snap":
                self.view = readonly_snapshot(self.root)
                return Outcome("ok")
            if a == "mlive":
                new = self.live_op(self.objs[op["id"]], self.kind[op["id"]], op)
                return Outcome("ok", value=new)
            if a == "read":
                return Outcome("ok", value=getattr(self.view, op["attr"]))
            if a == "readsub":
                return Outcome("ok", value=self.view[op["attr"]])
            if op["attr"] == "":
                self.root_op(op["op"])
                return Outcome("ok")
            x = self.walk(op["attr"], op["path"] or [])
            if op["op"] in ("inplace", "set_new", "set_old", "append") and op["id"]:
                # the spec expects a live object shared by identity at this place of the view
                if isinstance(x, (FrozenDict, FrozenList)):
                    kind = "map" if isinstance(x, FrozenDict) else "list"       # frozen after all: the real call must raise
                else:
                    if x is not self.objs.get(op["id"]):
                        self.problems.append(("LeafIdentityPreserved", f"the object at view.{op['attr']}{op['path']} is not the live object #{op['id']}"))
                    kind = self.kind.get(self.ids.get(id(x), -1), "leaf")
                new = self.live_op(x, kind, op)
                return Outcome("ok", value=new)
            self.frozen_op(x, op["op"])
            return Outcome("ok")
        except Exception as e:      # noqa: BLE001 - the exception class is the observation
            return Outcome("raise", type(e).__name__, str(e))

    # ---- projections ---------------------------------------------------------------------------------
    def project_live(self) -> List[dict]:
        out = []
        for i in range(1, len(self.objs) + 1):
            o, k = self.objs[i], self.kind[i]
            if k == "map":
                ch = [{"lab": kk, "id": self.ids.get(id(v), -1)} for kk, v in o.items()]
            elif k in ("ns", "root"):
                ch = [{"lab": kk, "id": self.ids.get(id(v), -1)} for kk, v in vars(o).items()]
            elif k == "list":
                ch = [{"lab": "", "id": self.ids.get(id(v), -1)} for v in o]
            else:
                ch = []
            out.append({"kind": k, "ch": ch, "ver": leaf_ver(o) if k == "leaf" else 0})
        return out

    def project_view_value(self, x, reads: List[str]) -> dict:
        """frozen tree of a value read through the view + the read laws at every frozen node"""
        from clematis.engine.stages.state_clone import FrozenDict, FrozenList, freeze
        if type(x) is FrozenDict:
            keys = list(x)
            n = len(keys)
            sentinel = object()
            try:
                ok = (len(x) == n and list(x.keys()) == keys and [k for k, _ in x.items()] == keys
                      and all(x[k] is v for k, v in x.items()) and all(a is b for a, b in zip(x.values(), (x[k] for k in keys)))
                      and all(k in x for k in keys) and all(x.get(k) is x[k] for k in keys)
                      and "x08_nokey" not in x and x.get("x08_nokey", sentinel) is sentinel)
                if not ok:
                    reads.append(f"FrozenDict read laws broken (keys {keys})")
                try:
                    x["x08_nokey"]
                    reads.append("FrozenDict['missing'] did not raise")
                except KeyError:
                    pass
                if freeze(x) is not x:
                    reads.append("FreezeIdempotent: freeze(FrozenDict) is not the same object")
                if not (x == x) or x != dict(x.items()):
                    reads.append("HashAndEqualitySemantics: FrozenDict is not equal to the plain dict of its items")
                try:
                    hv = hash(x)
                    if hv != hash(x):
                        reads.append("HashAndEqualitySemantics: unstable hash")
                except TypeError:
                    pass
            except Exception as e:      # noqa: BLE001
                reads.append(f"a read on a FrozenDict raised {type(e).__name__}: {e}")
            return {"t": "fd", "ch": [{"lab": k, "v": self.project_view_value(x[k], reads)} for k in keys]}
        if type(x) is FrozenList:
            n = len(x)
            try:
                items = [x[i] for i in range(n)]
                ok = (all(a is b for a, b in zip(list(x), items)) and len(list(x)) == n
                      and all(a is b for a, b in zip(reversed(x), reversed(items)))
                      and (n == 0 or (x[-1] is items[-1] and items[0] in x and x.index(items[0]) == 0)))
                if not ok:
                    reads.append(f"FrozenList read laws broken (len {n})")
                try:
                    x[n]
                    reads.append("FrozenList[len] did not raise")
                except IndexError:
                    pass
                if freeze(x) is not x:
                    reads.append("FreezeIdempotent: freeze(FrozenList) is not the same object")
                if not (x == x) or hash(x) != hash(x):
                    reads.append("HashAndEqualitySemantics: FrozenList not equal to itself / unstable hash")
            except Exception as e:      # noqa: BLE001
                reads.append(f"a read on a FrozenList raised {type(e).__name__}: {e}")
            return {"t": "fl", "ch": [{"lab": "", "v": self.project_view_value(v, reads)} for v in x]}
        return {"t": "ref", "id": self.ids.get(id(x), -1), "ch": [], "py": type(x).__name__}

    def project_view(self, attrs: List[str], absent: List[str], reads: List[str]) -> Dict[str, dict]:
        """DESTRUCTIVE observation (reads freeze attributes): only at the end of a replay"""
        out = {}
        for a in attrs:
            try:
                v = getattr(self.view, a)
            except Exception as e:      # noqa: BLE001
                out[a] = {"t": "raise", "exc": type(e).__name__}
                continue
            if getattr(self.view, a) is not v:
                reads.append(f"two reads of view.{a} gave two objects")
            out[a] = self.project_view_value(v, reads)
        for a in absent:
            try:
                getattr(self.view, a)
                reads.append(f"view.{a} is readable although the state has no such attribute and it was never read before")
            except AttributeError:
                if hasattr(self.view, a):
                    reads.append(f"hasattr(view, {a!r}) is True for a missing attribute")
            except Exception as e:      # noqa: BLE001
                reads.append(f"view.{a} (missing) raised {type(e).__name__}, spec AttributeError")
        return out


def strip(fv: Any) -> Any:
    """spec frozen value -> comparable form (fd / fl: the id of the source container is not observable)"""
    if not isinstance(fv, dict):
        return fv
    ch = fv.get("ch") or []
    if fv["t"] == "ref":
        return ("ref", fv["id"])
    return (fv["t"], tuple((c["lab"], strip(c["v"])) for c in ch))


def norm_heap(heap: List[dict]) -> List[Tuple]:
    return [(n["kind"], tuple((c["lab"], c["id"]) for c in (n["ch"] or [])), n["ver"]) for n in heap]
