"""C14 — config validation is total, pure, consistent, and admits only runnable configs.

(M)    ConfigContract.tla: the v1 key tree as a frozen table field -> (type, range/enum, default, valid corner
       values), structural rules, cross-field rules; Verdict(vector) in {ACCEPT, REJECT, UNSPEC}.  TLC enumerates
       the empty vector, every single-fault vector (12 leaf classes x fields, 3 structural classes x sections),
       pairwise-fault vectors and all-valid corner vectors and checks the contract's own sanity invariants.
(S->C)  every enumerated vector is concretised to a nested mapping (c14_table.py: index -> dotted path + concrete
       value per class), deep-copied, and passed to every API variant in-process; a sample (quick) / all (thorough)
       go through the real validate CLI entry point in a subprocess with a different PYTHONHASHSEED (batched), a
       few through `python -m clematis validate FILE` / `python -m clematis.scripts.validate FILE` one process
       each; accepted configs are executed: 2 turns on 2 small worlds under the bare normalised config and under
       validated(engine defaults (+) vector).
Clauses: TotalTyped, InputNotMutated, SameVerdictAllApis, AcceptedWithinRanges, EngineRunsUnderAccepted
       (+ RejectNamesFaults: a rejection names every faulty path, the "clear messages (field paths +
       constraints)" of the validator's contract).
"""
from __future__ import annotations

import collections
import copy
import json
import math
import os
import re
import shutil
import signal
import subprocess
import sys
import traceback
from typing import Any, Dict, List, Optional, Tuple

from ..util import make_cfg, pmap, rng
from . import c14_table as T

MANIFEST = {
    "technique": "TLA+ contract table (field -> type, range/enum, default) with cross-field rules; TLC enumerates single-fault, pairwise-fault and all-valid corner vectors with the contract's verdict; every vector is concretised and replayed on all validator API variants in-process, on the validate CLI in subprocesses with different hash seeds, and accepted configs are executed for 2 turns on 2 worlds",
    "text": "Exhaustive enumeration (TLC) of all single and pairwise deviations from the omitted-everything config over the frozen v1 contract table (185 fields x 12 leaf classes, 50 sections x 3 structural classes, 9 cross-field rules, corner vectors), bound to the code by running each vector through validate_config / validate_config_api / validate_config_verbose / the kwargs compat form / the normaliser and the validate CLI under a different PYTHONHASHSEED, comparing exception types, input immutability, verdicts and messages with each other and with the contract's verdict, checking every normalised value against the table's ranges, and executing turns on two small worlds under every accepted config.",
    "note": "The contract table is transcribed once from the operator-facing messages/defaults/docs (citations per row in c14_table.py) and frozen in the spec. Where the contract documents coercion without an outcome (non-numeric text, NaN/inf or containers for int/bool fields, non-dict sections) the spec's verdict is UNSPEC: either verdict conforms, but an accepted value must normalise into the documented range and the engine must run. At most two simultaneous deviations per vector (plus corner vectors); one concrete value per class.",
}

VERIF_REPO = os.environ.get("VERIF_REPO", "/repo")
NAN, INF = T.NAN, T.INF
CLS = T.CLASSES
MAX_WITNESS = 3

# =============================================================================================
# concretisation
# =============================================================================================


def _lev(a: str, b: str) -> int:
    dp = list(range(len(b) + 1))
    for i, ca in enumerate(a, 1):
        prev, dp[0] = dp[0], i
        for j, cb in enumerate(b, 1):
            prev, dp[j] = dp[j], min(dp[j] + 1, dp[j - 1] + 1, prev + (ca != cb))
    return dp[-1]


_UNKNOWN_KEYS: Dict[str, str] = {}


def _children(sec: str) -> List[str]:
    pre = sec + "." if sec else ""
    out = set()
    for f in T.FIELDS:
        if f["sec"] == sec:
            out.add(f["path"][len(pre):])
    for p, _f, _n in T.SECTIONS:
        if p and (p.rsplit(".", 1)[0] if "." in p else "") == sec:
            out.add(p[len(pre):])
    return sorted(out)


def unknown_key(sec: str) -> str:
    """an unknown key for the section: where the section has two known keys at the same small edit
    distance from some string, use that string (the did-you-mean hint then has a tie to break)"""
    if sec in _UNKNOWN_KEYS:
        return _UNKNOWN_KEYS[sec]
    kids = _children(sec)
    best = None
    cands = set()
    for k in kids:
        for i in range(len(k)):
            cands.add(k[:i] + k[i + 1:])
            cands.add(k[:i] + "5" + k[i + 1:])
        cands.add(k + "5")
    cands |= {"k", "t5", "x"}
    for c in sorted(cands):
        if not c or c in kids:
            continue
        ds = sorted(_lev(c, k) for k in kids)
        if len(ds) >= 2 and ds[0] == ds[1] and ds[0] <= 2:
            best = c
            break
    _UNKNOWN_KEYS[sec] = best or "zz_unknown_key_zz"
    return _UNKNOWN_KEYS[sec]


def leaf_value(f: Dict[str, Any], cls: str, wd: str, fixture: str) -> Any:
    k = f["kind"]

    def sub(v):
        if isinstance(v, str):
            return v.replace("@WORK@", wd).replace("@FIXTURE@", fixture)
        return copy.deepcopy(v)

    if cls in ("vmin", "vmax", "vmid"):
        v = sub(f[{"vmin": "mn", "vmax": "mx", "vmid": "md"}[cls]])
        if k == "float":
            v = float(v)
        return v
    lo, hi = f["lo"], f["hi"]
    if k in ("int", "float", "bool"):
        if cls == "below":
            if k == "int":
                return lo - 1
            return float(lo) if f["lox"] else math.nextafter(float(lo), -INF)
        if cls == "above":
            if k == "int":
                return hi + 1
            return float(hi) if f["hix"] else math.nextafter(float(hi), INF)
        return {"wrongtype": "maybe" if k == "bool" else "x", "nan": NAN, "pinf": INF, "ninf": -INF,
                "huge": T.HUGE_FLOAT if k == "float" else T.HUGE_INT, "empty": [] if k != "float" else {}}[cls]
    if k in ("enum", "str"):
        return {"below": "", "above": "bogus_value", "wrongtype": 5, "nan": NAN, "pinf": INF, "ninf": -INF,
                "huge": T.HUGE_INT, "empty": [] if k == "enum" else {}}[cls]
    if k == "list":
        return {"below": [], "above": ["bogus_value"], "wrongtype": 5, "nan": [NAN], "pinf": [INF], "ninf": [-INF],
                "huge": [T.HUGE_INT], "empty": {}}[cls]
    if k == "map":
        key = "EditGraph" if "cooldowns" in f["path"] else "supports"
        return {"below": {key: (lo if lo is not None else 0) - 1}, "wrongtype": "x", "nan": {key: NAN}, "pinf": {key: INF},
                "ninf": {key: -INF}, "huge": {key: T.HUGE_INT}, "empty": []}[cls]
    raise AssertionError(k)


class Guarded(Exception):
    pass


def _descend(cfg: dict, parts: List[str]) -> dict:
    cur = cfg
    for p in parts:
        nxt = cur.get(p)
        if nxt is None:
            nxt = cur[p] = {}
        if not isinstance(nxt, dict):
            raise Guarded("path below a non-dict value")
        cur = nxt
    return cur


def classes_of(case) -> List[Tuple[int, int]]:
    v = case["v"]
    if len(v) == 1 and v[0][0] == 0:
        return [(i + 1, c) for i, c in enumerate(case["cls"]) if c != 1]
    return [(e, c) for e, c in v]


def concretise(case, wd: str, fixture: str) -> Any:
    """-> the nested mapping for the vector (raises Guarded for the few self-contradictory pairs, e.g. a
    map field set to a non-dict plus a structural fault inside the same map)"""
    cfg: Any = {}
    elems = classes_of(case)
    # fields first, then structural faults
    for e, c in sorted(elems, key=lambda x: (x[0] > T.NF, x[0])):
        if e <= T.NF:
            f = T.FIELDS[e - 1]
            parts = f["path"].split(".")
            d = _descend(cfg, parts[:-1])
            d[parts[-1]] = leaf_value(f, CLS[c - 1], wd, fixture)
        else:
            sec = T.SECTIONS[e - T.NF - 1][0]
            parts = sec.split(".") if sec else []
            sc = T.SCLASSES[c - 1]
            if sc == "nondict":
                if not parts:
                    if cfg:
                        raise Guarded("root non-dict with other content")
                    return 5
                d = _descend(cfg, parts[:-1])
                if parts[-1] in d:
                    raise Guarded("non-dict section over an existing value")
                d[parts[-1]] = 5
            else:
                d = _descend(cfg, parts)
                d[unknown_key(sec) if sc == "unknown" else 7] = 1
    return cfg


def same(a: Any, b: Any) -> bool:
    """type-strict, NaN-aware deep equality (key order irrelevant)"""
    if type(a) is not type(b):
        return False
    if isinstance(a, dict):
        if len(a) != len(b):
            return False
        for k, va in a.items():
            if k not in b or not same(va, b[k]):
                return False
        return True
    if isinstance(a, (list, tuple)):
        return len(a) == len(b) and all(same(x, y) for x, y in zip(a, b))
    if isinstance(a, float):
        return (a != a and b != b) or a == b
    return a == b


# =============================================================================================
# in-process API variants
# =============================================================================================


def api_outcomes(cfg) -> Dict[str, Dict[str, Any]]:
    from configs import validate as V
    from clematis.errors import ConfigError
    snap = copy.deepcopy(cfg)
    out: Dict[str, Dict[str, Any]] = {}

    def run(name, call, shape):
        arg = copy.deepcopy(cfg)
        o: Dict[str, Any] = {"verdict": None, "msgs": None, "norm": None, "exc": None}
        try:
            r = call(arg)
            verdict, msgs, norm = shape(r)
            o.update(verdict=verdict, msgs=msgs, norm=norm)
        except ConfigError as e:
            if type(e) is not ConfigError and not isinstance(e, ConfigError):   # pragma: no cover
                o.update(verdict="crash", exc=type(e).__name__)
            else:
                m = str(e)
                o.update(verdict="reject", msgs=m.strip().split("\n") if m.strip() else [], raw=m)
        except BaseException as e:   # noqa: BLE001 — totality is the clause
            tb = traceback.extract_tb(e.__traceback__)[-1]
            o.update(verdict="crash", exc=type(e).__name__, where=f"{os.path.basename(tb.filename)}:{tb.name}", text=str(e)[:160])
        o["mutated"] = not same(arg, snap)
        out[name] = o

    run("validate_config", lambda a: V.validate_config(a), lambda r: ("accept", None, r))
    run("normalize_impl", lambda a: V._validate_config_normalize_impl(a), lambda r: ("accept", None, r))
    run("validate_config_verbose", lambda a: V.validate_config_verbose(a), lambda r: ("accept", None, r[0]))
    run("validate_config_api", lambda a: V.validate_config_api(a),
        lambda r: ("accept", None, r[2]) if (r[0] is True and r[1] == []) else
                  (("reject", list(r[1]), None) if (r[0] is False and r[2] is None) else ("malformed", None, r)))
    run("validate_config_kwargs", lambda a: V.validate_config(a, strict=True, verbose=True),
        lambda r: ("accept", None, None) if r[0] == [] else ("reject", list(r[0]), None))
    return out


# =============================================================================================
# range check of a normalised config against the table
# =============================================================================================
ALIASES = {"t1.cache.ttl_sec": "t1.cache.ttl_s", "t2.cache.ttl_sec": "t2.cache.ttl_s", "t4.cache.ttl_s": "t4.cache.ttl_sec"}
# keys the validator documents as accepted-but-ignored / rewritten (not part of the normalised output)
NOT_IN_OUTPUT = {"t2.quality.lexical.bm25_k1", "t2.quality.lexical.bm25_b", "t2.quality.lexical.stopwords", "t2.quality.fusion.mode"}


def lookup(norm, path):
    cur = norm
    for p in path.split("."):
        if not isinstance(cur, dict) or p not in cur:
            return False, None
        cur = cur[p]
    return True, cur


def in_range(f, v) -> Optional[str]:
    """None if v is a legal normalised value for field f, else the cause"""
    k = f["kind"]
    if v is None:
        return None if (f["nul"] or f["dflt"] is None) else "type"
    if f["soft"]:
        return None
    lo = f["normlo"] if f["normlo"] is not None else f["lo"]
    hi = f["hi"]
    if k == "int":
        if type(v) is not int:
            if isinstance(v, float) and v != v:
                return "nan"
            return "type"
        if (lo is not None and v < lo) or (hi is not None and v > hi) or (f["cap"] is not None and v > f["cap"]):
            return "range"
        return None
    if k == "float":
        if isinstance(v, bool) or not isinstance(v, (int, float)):
            return "type"
        if v != v:
            return "nan"           # "<path> must be a finite number"
        if math.isinf(v):
            return "inf"
        if lo is not None and (v < lo or (f["lox"] and v == lo)):
            return "inf" if math.isinf(v) else "range"
        if hi is not None and (v > hi or (f["hix"] and v == hi)):
            return "inf" if math.isinf(v) else "range"
        return None
    if k == "bool":
        return None if type(v) is bool else "type"
    if k == "enum":
        return None if (isinstance(v, str) and v in f["enum"]) else ("type" if not isinstance(v, str) else "range")
    if k == "str":
        return None if (isinstance(v, str) and (v != "" or not f["ne"])) else ("type" if not isinstance(v, str) else "range")
    if k == "list":
        if not isinstance(v, list) or not all(isinstance(x, str) for x in v):
            return "type"
        if f["ne"] and not v:
            return "range"
        if f["hi"] is not None and not set(v) <= set(f["enum"]):
            return "range"
        return None
    if k == "map":
        if not isinstance(v, dict) or not all(isinstance(x, str) for x in v):
            return "type"
        for x in v.values():
            if isinstance(x, bool) or not isinstance(x, (int, float)):
                return "type"
            if x != x:
                return "nan"
            if f["lo"] is not None and x < f["lo"]:
                return "range"
        return None
    return None


def unbounded(f) -> bool:
    """the contract gives the field a type but no range/enum/non-empty rule: a violation can only be a key the
    validator does not look at"""
    return f["lo"] is None and f["hi"] is None and not f["ne"] and f["kind"] in ("int", "float", "bool", "map", "list")


def awr_cause(f, why: str) -> str:
    """one cause per defect class: 'unchecked' (key passes through unexamined), 'nan' (NaN slips through a
    documented numeric bound), 'range' (value outside the documented range/enum, incl. +-inf / huge), 'type'"""
    if unbounded(f) and why not in ("nan", "inf"):
        return "unchecked"
    if why == "nan" and f["kind"] in ("int", "float", "map"):
        return "nan"
    if why in ("inf", "huge", "range") or f["kind"] in ("enum", "str", "list"):
        return "range"
    return why


def cause_of_class(e: int, c: int) -> str:
    if e > T.NF:
        return {"unknown": "unknown-key", "nonstr": "non-string-key", "nondict": "non-dict-section"}[T.SCLASSES[c - 1]]
    why = {"below": "range", "above": "range", "wrongtype": "type", "empty": "type", "nan": "nan", "pinf": "inf", "ninf": "inf",
           "huge": "huge"}.get(CLS[c - 1], CLS[c - 1])
    return awr_cause(T.FIELDS[e - 1], why)


def elem_name(e: int) -> str:
    return T.FIELDS[e - 1]["path"] if e <= T.NF else ("<root>" if not T.SECTIONS[e - T.NF - 1][0] else T.SECTIONS[e - T.NF - 1][0])


# =============================================================================================
# engine
# =============================================================================================
WORLD_B_GRAPHS = {
    "g:a": {"nodes": [("n:tea", "tea", ["drink"]), ("n:cup", "cup", []), ("n:milk", "milk", [])],
            "edges": [("e1", "n:tea", "n:cup", 0.75, "supports"), ("e2", "n:cup", "n:milk", 0.25, "associates")]},
    "g:b": {"nodes": [("n:tea2", "tea", []), ("n:leaf", "leaf", ["plant"])],
            "edges": [("e1", "n:tea2", "n:leaf", -0.5, "contradicts")]},
}
_ENGINE_RUNS = 0


class _Timeout(BaseException):
    pass


def _alarm(_sig, _frm):
    raise _Timeout()


def engine_dirs(wd: str) -> Tuple[str, str]:
    base = os.path.join(wd, "eng")
    return base, os.path.join(base, "logs")


def run_engine(norm: dict, wd: str, budget_s: float = 20.0) -> List[Tuple]:
    """2 turns on 2 small worlds under the normalised config -> list of failures
    (world, turn, exception type, file:function, text)"""
    global _ENGINE_RUNS
    from .. import engine as H
    import clematis.engine.orchestrator.core as core
    base, logs = engine_dirs(wd)
    _ENGINE_RUNS += 1
    os.chdir("/")
    shutil.rmtree(wd, ignore_errors=True)      # no logs / snapshots of an earlier case are visible to this one
    os.makedirs(logs, exist_ok=True)
    os.environ["CLEMATIS_LOG_DIR"] = logs
    os.environ["CLEMATIS_SNAPSHOT_DIR"] = os.path.join(base, "snap")
    os.chdir(base)
    fails = []
    # the memory of a world is embedded with the surface dimension the config asks for (a world is built *for* a config)
    ks = norm.get("k_surface", 32)
    dim = ks if (type(ks) is int and 1 <= ks <= 4096) else 32

    def eps_a():
        out = H.default_episodes()
        if dim != 32:
            for ep in out:
                ep["vec_full"] = H.hash_vec(ep["text"], dim)
        return out
    worlds = [("A", lambda: H.mk_state(H.DEFAULT_GRAPHS, eps_a()), "apple banana and a date"),
              ("B", lambda: H.mk_state(WORLD_B_GRAPHS, [H.mk_episode("x1", "A", "tea with milk", cluster="k1", dim=dim),
                                                           H.mk_episode("x2", "world", "a cup of tea leaf", ts="2024-02-03T00:00:00Z", cluster="k2", dim=dim),
                                                           H.mk_episode("x3", "B", "milk and leaf", cluster="k1", dim=dim)], boot_loaded=False),
               "tea cup leaf")]
    old = signal.signal(signal.SIGALRM, _alarm)
    try:
        for wname, mk, text in worlds:
            H.reset_global_caches()
            cfg = H.to_attr(copy.deepcopy(norm))
            state = mk()
            for turn in (1, 2):
                ctx = H.mk_ctx(cfg, agent="A", turn=turn, now_ms=H.NOW_MS + 1000 * turn)
                signal.setitimer(signal.ITIMER_REAL, budget_s)
                try:
                    core.Orchestrator().run_turn(ctx, state, text)
                except _Timeout:
                    fails.append((wname, turn, "Timeout", "-", f"turn did not finish within {budget_s}s"))
                    break
                except BaseException as e:   # noqa: BLE001
                    fr = traceback.extract_tb(e.__traceback__)[-1]
                    fails.append((wname, turn, type(e).__name__, f"{os.path.basename(fr.filename)}:{fr.name}", str(e)[:160]))
                    break
                finally:
                    signal.setitimer(signal.ITIMER_REAL, 0)
    finally:
        signal.signal(signal.SIGALRM, old)
    return fails


# =============================================================================================
# one vector
# =============================================================================================
_SUGG = re.compile(r" \(did you mean '[^']*'\)")


def eval_vector(case, wd: str, opts: Dict[str, Any]) -> Dict[str, Any]:
    """-> {"fails": [(clause, signature, message)], "ok": [clauses], "verdict": ..., "msgs": [...], "yaml": text|None,
           "guarded": bool}"""
    from configs import validate as V
    fixture = os.path.join(VERIF_REPO, "clematis", "fixtures", "llm", "qwen_small.jsonl")
    res: Dict[str, Any] = {"fails": [], "ok": [], "verdict": None, "msgs": None, "yaml": None, "guarded": False, "engine": None}
    wd = os.path.join(wd, f"p{os.getpid()}")       # per-process scratch: paths inside configs point here
    try:
        cfg = concretise(case, wd, fixture)
    except Guarded:
        res["guarded"] = True
        return res
    elems = classes_of(case)
    corner = len(case["v"]) == 1 and case["v"][0][0] == 0
    names = [elem_name(e) for e, _c in elems] if not corner else [f"<corner {case['v'][0][1]}>"]
    label = " + ".join(f"{elem_name(e)}={CLS[c - 1] if e <= T.NF else T.SCLASSES[c - 1]}" for e, c in elems) if not corner else names[0]
    has_nonstr = any(e > T.NF and T.SCLASSES[c - 1] == "nonstr" for e, c in elems)

    def fail(clause, sig, msg):
        res["fails"].append((clause, sig, f"[{label}] {msg}"))

    outs = api_outcomes(cfg)
    ref = outs["validate_config"]
    res["verdict"], res["msgs"], res["exc"] = ref["verdict"], ref["msgs"], ref.get("exc")
    # ---- TotalTyped -------------------------------------------------------------------------
    crashed = {n: o for n, o in outs.items() if o["verdict"] not in ("accept", "reject")}
    if crashed:
        n, o = sorted(crashed.items())[0]
        if has_nonstr:
            sig = {"cause": "non-string-key"}
        else:
            sig = {"cause": o.get("exc") or o["verdict"], "field": "|".join(names)}
        fail("TotalTyped", sig, f"{n} raised {o.get('exc')} at {o.get('where')}: {o.get('text')} (expected a normalised dict or ConfigError); "
                                f"variants crashing: {sorted(crashed)}")
    else:
        bad = [n for n, o in outs.items() if o["verdict"] == "accept" and o["norm"] is not None and not isinstance(o["norm"], dict)]
        empty = [n for n, o in outs.items() if o["verdict"] == "reject" and not o["msgs"]]
        if bad or empty:
            fail("TotalTyped", {"cause": "result-shape", "field": "|".join(names)}, f"non-dict result from {bad} / empty rejection from {empty}")
        else:
            res["ok"].append("TotalTyped")
    # ---- InputNotMutated --------------------------------------------------------------------
    mut = sorted(n for n, o in outs.items() if o["mutated"])
    if mut:
        fail("InputNotMutated", {"cause": "input-mutated", "variant": mut[0]}, f"argument differs from its deep copy after {mut}")
    else:
        res["ok"].append("InputNotMutated")
    # ---- SameVerdictAllApis (in-process part) -----------------------------------------------
    sv_ok = True
    for n, o in outs.items():
        if n == "validate_config":
            continue
        if o["verdict"] != ref["verdict"] or (o["verdict"] == "crash" and o.get("exc") != ref.get("exc")):
            fail("SameVerdictAllApis", {"cause": "verdict-differs", "variant": n},
                 f"{n} -> {o['verdict']}{'/' + str(o.get('exc')) if o.get('exc') else ''} but validate_config -> {ref['verdict']}{'/' + str(ref.get('exc')) if ref.get('exc') else ''}")
            sv_ok = False
        elif o["verdict"] == "reject" and o["msgs"] != ref["msgs"]:
            fail("SameVerdictAllApis", {"cause": "messages-differ", "variant": n}, f"{n} messages {o['msgs']} != validate_config messages {ref['msgs']}")
            sv_ok = False
        elif o["verdict"] == "accept" and o["norm"] is not None and ref["norm"] is not None and not same(o["norm"], ref["norm"]):
            fail("SameVerdictAllApis", {"cause": "normalised-differs", "variant": n}, f"{n} normalised config differs from validate_config's")
            sv_ok = False
    if sv_ok:
        res["ok"].append("SameVerdictAllApis")
    # ---- AcceptedWithinRanges / RejectNamesFaults -------------------------------------------
    spec = case["verdict"]
    if ref["verdict"] in ("accept", "reject"):
        awr_ok = True
        if spec == "ACCEPT" and ref["verdict"] == "reject":
            fail("AcceptedWithinRanges", {"cause": "over-reject", "field": "|".join(names)},
                 f"contract verdict ACCEPT but rejected: {ref['msgs'][:3]}")
            awr_ok = False
        if spec == "REJECT" and ref["verdict"] == "accept":
            for e in case["faults"]:
                c = dict(elems)[e]
                fail("AcceptedWithinRanges", {"cause": cause_of_class(e, c), "field": elem_name(e)},
                     f"contract rejects {elem_name(e)}={CLS[c - 1] if e <= T.NF else T.SCLASSES[c - 1]} "
                     f"({T.FIELDS[e - 1]['src'] if e <= T.NF else 'structure'}) but the config was accepted")
            for r in case["rules"]:
                fail("AcceptedWithinRanges", {"cause": "rule", "field": f"R{r}"}, f"cross-field rule R{r} {T.RULES['R%d' % r][0]} violated but the config was accepted")
            awr_ok = False
        if ref["verdict"] == "accept" and isinstance(ref["norm"], dict):
            norm = ref["norm"]
            given = {T.FIELDS[e - 1]["path"] for e, _c in elems if e <= T.NF}
            for f in T.FIELDS:
                p = f["path"]
                if p in ALIASES and p in given:
                    continue        # alias input: the canonical key carries the normalised value
                found, v = lookup(norm, p)
                if not found:
                    continue
                why = in_range(f, v)
                if why:
                    fail("AcceptedWithinRanges", {"cause": awr_cause(f, why), "field": p}, f"accepted, but normalised {p} = {v!r} is outside the contract ({f['src']})")
                    awr_ok = False
                elif not elems and f["dflt"] is not None and not same(v, f["dflt"]) and not (isinstance(v, (int, float)) and not isinstance(v, bool) and v == f["dflt"]):
                    fail("AcceptedWithinRanges", {"cause": "default", "field": p}, f"omitted {p} normalises to {v!r}, documented default {f['dflt']!r}")
                    awr_ok = False
        if awr_ok:
            res["ok"].append("AcceptedWithinRanges")
        if spec == "REJECT" and ref["verdict"] == "reject":
            msgs = [_SUGG.sub("", m) for m in ref["msgs"]]
            missing = []
            missing_el = []
            for e in case["faults"]:
                c = dict(elems)[e]
                if e <= T.NF:
                    want = T.FIELDS[e - 1]["msg"]
                    hit = any(m == want or m.startswith(want + " ") or m.startswith(want + "[") or m.startswith(want + ".") for m in msgs)
                else:
                    sec = T.SECTIONS[e - T.NF - 1][0]
                    sc = T.SCLASSES[c - 1]
                    if sc == "nondict":
                        hit = any(m.startswith(sec + " ") for m in msgs)
                    else:
                        key = unknown_key(sec) if sc == "unknown" else 7
                        want = f"{sec}.{key}" if sec else f"{key}"
                        hit = any(m.startswith(want + " ") and "unknown" in m for m in msgs)
                        if sc == "nonstr" and T.SECTIONS[e - T.NF - 1][1] == 2:
                            hit = any(m.startswith(sec + " ") for m in msgs)     # "<map> keys must be strings" / "<map> must be a mapping of name -> number"
                if not hit:
                    missing.append(elem_name(e))
                    missing_el.append([e, c])
            for r in case["rules"]:
                want = T.RULES["R%d" % r][1]
                if not any(m.startswith(want) for m in msgs):
                    missing.append(f"R{r}")
            if missing:
                fail("RejectNamesFaults", {"cause": "fault-not-named", "field": "|".join(missing), "_elems": missing_el},
                     f"rejected, but no message names {missing}: {ref['msgs'][:4]}")
            else:
                res["ok"].append("RejectNamesFaults")
    # ---- yaml text for the CLI --------------------------------------------------------------
    if opts.get("cli"):
        try:
            import yaml
            text = yaml.safe_dump(cfg, default_flow_style=False, sort_keys=False)
            back = yaml.safe_load(text)
            if same(back, cfg):
                res["yaml"] = text
        except Exception:
            res["yaml"] = None
    # ---- EngineRunsUnderAccepted ------------------------------------------------------------
    if opts.get("engine") and ref["verdict"] == "accept" and isinstance(ref["norm"], dict):
        from .. import engine as H
        eng: Dict[str, Any] = {}
        eng["bare"] = run_engine(ref["norm"], wd)
        try:
            merged = H.deep_merge(H.engine_defaults(), cfg) if isinstance(cfg, dict) else None
            norm2 = V.validate_config(copy.deepcopy(merged)) if merged is not None else None
        except Exception:
            norm2 = None
        eng["complete"] = run_engine(norm2, wd) if norm2 is not None else None
        res["engine"] = eng
    return res


def engine_fails(case, eng, base) -> List[Tuple[str, Dict[str, Any], str]]:
    """attribute engine failures: a failure already shown by the omitted-everything config under the same
    mode is the defaults' class; anything else belongs to the vector's own elements"""
    out = []
    elems = classes_of(case)
    corner = len(case["v"]) == 1 and case["v"][0][0] == 0
    names = "|".join(elem_name(e) for e, _c in elems) if not corner else f"<corner {case['v'][0][1]}>"
    label = " + ".join(f"{elem_name(e)}={CLS[c - 1] if e <= T.NF else T.SCLASSES[c - 1]}" for e, c in elems) if not corner else names
    for mode in ("bare", "complete"):
        fl = eng.get(mode)
        if not fl:
            continue
        for (w, turn, exc, where, text) in fl:
            key = (w, exc, where)
            # the omitted-everything config already fails like this (in the same mode, or - when the vector wipes
            # the completed section again, e.g. t1: 5 - in the bare mode): the defaults' class, not the vector's
            base_keys = {(b[0], b[2], b[3]) for m in ("bare", "complete") for b in ((base or {}).get(m) or [])} if elems else \
                        {(b[0], b[2], b[3]) for b in ((base or {}).get(mode) or [])}
            if key in base_keys:
                if not elems:
                    out.append(("EngineRunsUnderAccepted", {"cause": "defaults-incomplete", "exc": exc, "where": where},
                                f"[validate_config({{}}) / {mode}] world {w} turn {turn}: {exc} at {where}: {text}"))
                continue
            cause = "raises-under-contract-valid-config" if case["verdict"] == "ACCEPT" else "raises-under-unchecked-value"
            out.append(("EngineRunsUnderAccepted", {"cause": cause, "field": names},
                        f"[{label} / {mode} config] world {w} turn {turn}: {exc} at {where}: {text}"))
    return out


# =============================================================================================
# chunk worker: in-process + CLI batch + engine
# =============================================================================================


def cli_batch(texts: List[str], wd: str, seed: int, tag: str) -> Optional[dict]:
    jin = os.path.join(wd, f"cli_{tag}.in.json")
    jout = os.path.join(wd, f"cli_{tag}.out.json")
    cdir = os.path.join(wd, f"clicwd_{tag}")
    os.makedirs(cdir, exist_ok=True)
    with open(jin, "w") as f:
        json.dump({"docs": texts, "tmp": os.path.join(cdir, "config_under_test.yaml")}, f)
    env = dict(os.environ)
    env["PYTHONHASHSEED"] = str(seed)
    env["PYTHONPATH"] = f"{VERIF_REPO}:/verif"
    p = subprocess.run([sys.executable, "-m", "harness.props.c14_cli", jin, jout], cwd=cdir, env=env,
                       stdout=subprocess.PIPE, stderr=subprocess.STDOUT, text=True, timeout=3600)
    if p.returncode != 0 or not os.path.exists(jout):
        raise RuntimeError(f"CLI batch driver failed rc={p.returncode}: {p.stdout[-1500:]}")
    with open(jout) as f:
        out = json.load(f)
    for x in (jin, jout):
        try:
            os.remove(x)
        except OSError:
            pass
    shutil.rmtree(cdir, ignore_errors=True)
    return out


def compare_cli(case_label: str, verdict: str, msgs, exc, rc, lines, seed) -> List[Tuple[str, Dict[str, Any], str]]:
    fails = []
    first = lines[0] if lines else None
    if verdict == "accept":
        if isinstance(rc, str) and first == "OK":
            fails.append(("SameVerdictAllApis", {"cause": "cli-crashes-after-accepting", "variant": "cli"},
                          f"[{case_label}] in-process accept; CLI (PYTHONHASHSEED={seed}) prints 'OK' and then dies with {rc}"))
        elif rc != 0 or first != "OK":
            fails.append(("SameVerdictAllApis", {"cause": "cli-verdict-differs", "variant": "cli"},
                          f"[{case_label}] in-process accept, CLI (PYTHONHASHSEED={seed}) exit={rc} first line={first!r}"))
    elif verdict == "reject":
        if rc != 1 or first != "CONFIG INVALID":
            fails.append(("SameVerdictAllApis", {"cause": "cli-verdict-differs", "variant": "cli"},
                          f"[{case_label}] in-process reject, CLI (PYTHONHASHSEED={seed}) exit={rc} first line={first!r}"))
        elif lines[1:] != msgs:
            a = [_SUGG.sub("", m) for m in lines[1:]]
            b = [_SUGG.sub("", m) for m in msgs]
            srt = lambda ms: [re.sub(r"\{([^{}]*)\}", lambda m: "{" + ", ".join(sorted(x.strip() for x in m.group(1).split(","))) + "}", m) for m in ms]
            if a != b and srt(a) == srt(b):
                d = next((x, y) for x, y in zip(lines[1:], msgs) if x != y)
                fails.append(("SameVerdictAllApis", {"cause": "set-order-in-message-depends-on-hashseed", "variant": "cli"},
                              f"[{case_label}] same config, in-process (PYTHONHASHSEED={os.environ.get('PYTHONHASHSEED')}) says {d[1]!r}, "
                              f"CLI (PYTHONHASHSEED={seed}) says {d[0]!r}"))
            elif a == b:
                d = next((x, y) for x, y in zip(lines[1:], msgs) if x != y)
                fails.append(("SameVerdictAllApis", {"cause": "suggestion-depends-on-hashseed", "variant": "cli"},
                              f"[{case_label}] same config, in-process (PYTHONHASHSEED={os.environ.get('PYTHONHASHSEED')}) says {d[1]!r}, "
                              f"CLI (PYTHONHASHSEED={seed}) says {d[0]!r}"))
            else:
                fails.append(("SameVerdictAllApis", {"cause": "cli-messages-differ", "variant": "cli"},
                              f"[{case_label}] CLI (PYTHONHASHSEED={seed}) messages {lines[1:4]} != in-process {msgs[:3]}"))
    else:   # crash in-process: the CLI must not invent a verdict
        if not (isinstance(rc, str) and rc == f"crash:{exc}"):
            fails.append(("SameVerdictAllApis", {"cause": "cli-verdict-differs", "variant": "cli"},
                          f"[{case_label}] in-process {exc}, CLI (PYTHONHASHSEED={seed}) exit={rc} first line={first!r}"))
    return fails


def process_chunk(args) -> Dict[str, Any]:
    cid, cases, opts = args
    wd = opts["wd"]
    r = rng(opts["seed"], "c14chunk", cid)
    counts: collections.Counter = collections.Counter()
    fails: List[Tuple[str, Dict[str, Any], str, Any]] = []
    cli_items = []
    sample = None
    for case in cases:
        n = len(case["v"])
        corner = n == 1 and case["v"][0][0] == 0
        do_cli = r.random() < (opts["cli_single_frac"] if n <= 1 else opts["cli_frac"])
        spec_accepting = case["verdict"] != "REJECT"
        do_eng = spec_accepting and (corner or n == 0 or (n == 1 and r.random() < opts["eng_single_frac"]) or (n == 2 and r.random() < opts["eng_pair_frac"]))
        # an accepted vector the contract rejects is also executed (the clause quantifies over what the validator accepts)
        o = {"cli": do_cli, "engine": do_eng or (case["verdict"] == "REJECT" and n <= 1)}
        res = eval_vector(case, wd, o)
        if res["guarded"]:
            counts["guarded_out"] += 1
            continue
        counts["vectors"] += 1
        counts[f"verdict.{res['verdict']}"] += 1
        for c in res["ok"]:
            counts["ok." + c] += 1
        for clause, sig, msg in res["fails"]:
            fails.append((clause, sig, msg, case))
        if res["engine"] is not None:
            counts["engine.vectors"] += 1
            ef = engine_fails(case, res["engine"], opts.get("engine_base"))
            own = [x for x in ef]
            if not own:
                counts["ok.EngineRunsUnderAccepted"] += 1
            for clause, sig, msg in own:
                fails.append((clause, sig, msg, case))
            raw = sum(len(v or []) for v in res["engine"].values())
            if raw and not own:
                counts["engine.only_defaults_class"] += 1
        if do_cli:
            if res["yaml"] is None:
                counts["cli.not_yaml_expressible"] += 1
            else:
                cli_items.append((case, res))
        if sample is None and n == 2 and res["verdict"] == "reject":
            sample = {"vector": case["v"], "spec_verdict": case["verdict"], "validator": res["verdict"], "messages": res["msgs"][:3]}
    if cli_items:
        seeds = [s for s in (1, 2, 3, 4) if str(s) != os.environ.get("PYTHONHASHSEED", "")]
        seed = seeds[cid % 3]
        out = cli_batch([res["yaml"] for _c, res in cli_items], wd, seed, f"{cid}")
        if len(out["results"]) != len(cli_items) or out["seed"] != str(seed):
            raise RuntimeError("CLI batch driver returned a malformed result")
        for (case, res), (rc, lines) in zip(cli_items, out["results"]):
            counts["cli.vectors"] += 1
            elems = classes_of(case)
            label = " + ".join(f"{elem_name(e)}={CLS[c - 1] if e <= T.NF else T.SCLASSES[c - 1]}" for e, c in elems[:4])
            cf = compare_cli(label, res["verdict"], res["msgs"], res.get("exc"), rc, lines, seed)
            if not cf:
                counts["ok.SameVerdictAllApis.cli"] += 1
            for clause, sig, msg in cf:
                fails.append((clause, sig, msg, case))
    return {"counts": counts, "fails": fails, "sample": sample}


# =============================================================================================
# real entry points, one process per vector
# =============================================================================================


def real_cli(args) -> List[Tuple[str, Dict[str, Any], str, Any]]:
    case, wd, seed = args
    res = eval_vector(case, wd, {"cli": True})
    if res["guarded"] or res["yaml"] is None or res["verdict"] == "crash":
        return []
    d = os.path.join(wd, f"real_{os.getpid()}_{abs(hash(json.dumps(case['v']))) % 10 ** 8}")
    os.makedirs(d, exist_ok=True)
    path = os.path.join(d, "candidate.yaml")
    with open(path, "w") as f:
        f.write(res["yaml"])
    env = dict(os.environ)
    env["PYTHONHASHSEED"] = str(seed)
    env["PYTHONPATH"] = f"{VERIF_REPO}:/verif"
    env.pop("CLEMATIS_CONFIG", None)
    fails = []
    elems = classes_of(case)
    label = " + ".join(f"{elem_name(e)}={CLS[c - 1] if e <= T.NF else T.SCLASSES[c - 1]}" for e, c in elems[:4]) or "<nothing set>"
    for variant, cmd in (("python -m clematis.scripts.validate FILE", [sys.executable, "-m", "clematis.scripts.validate", path]),
                         ("python -m clematis validate FILE", [sys.executable, "-m", "clematis", "validate", path])):
        p = subprocess.run(cmd, cwd=d, env=env, stdout=subprocess.PIPE, stderr=subprocess.PIPE, text=True, timeout=120)
        lines = p.stdout.splitlines()
        cf = compare_cli(label, res["verdict"], res["msgs"], None, p.returncode, lines, seed)
        for clause, sig, msg in cf:
            sig = dict(sig)
            if variant.startswith("python -m clematis validate"):
                sig = {"cause": "cli-wrapper-ignores-path" if "config file not found: configs/config.yaml" in p.stderr else sig["cause"], "variant": "python -m clematis validate"}
                msg += f" | `{variant}` stderr: {p.stderr.strip().splitlines()[:1]}"
            fails.append((clause, sig, msg, case))
    shutil.rmtree(d, ignore_errors=True)
    return fails


def json_cli_fixed(args) -> List[Tuple[str, Dict[str, Any], str, Any]]:
    """`python -m clematis validate --json FILE` is a CLI variant too: same verdict as the API, the API's messages
    in its output, and never a traceback (an enumeration message contains braces, which the wrapper's JSON
    extraction must survive)"""
    wd, seed = args
    from configs.validate import validate_config_verbose
    docs = {"enum": {"t2": {"backend": "nosuch"}}, "enum2": {"scheduler": {"policy": "nosuch"}}, "range": {"t2": {"k_retrieval": 0}},
            "two": {"t2": {"backend": "nosuch", "k_retrieval": 0}}, "valid": {"t2": {"k_retrieval": 3}}, "empty": {},
            # explicit nulls (an empty `quality:` line in YAML): accepted by the API, so the CLI must report OK and exit 0
            "null_quality": {"t2": {"quality": None}}, "null_t1": {"t1": None}, "null_sched": {"scheduler": None},
            "null_perf": {"perf": None}, "null_graph": {"graph": None}, "null_t4_cache": {"t4": {"cache": None}},
            "null_budgets": {"scheduler": {"budgets": None}}, "null_hybrid": {"t2": {"hybrid": None}},
            # user strings that contain line-boundary characters other than \n and end up inside a message
            "ls_key": {"t2": {"k_retrieval": 0, "bad\u2028key": 1}}, "vt_key": {"un\x0bknown": 1, "t1": {"iter_cap\u0085": 3}},
            "ps_cooldown": {"t4": {"cooldowns": {"Edit\u2029Graph": -1}, "novelty_cap_per_node": -1.0}},
            # YAML-only leaf types in a free-form section: a date value, a date key
            "yaml_date": {"flags": {"when": __import__("datetime").date(2024, 1, 1)}}, "yaml_date_key": {"flags": {__import__("datetime").date(2024, 1, 1): 1}}}
    d = os.path.join(wd, f"jsoncli_{os.getpid()}")
    os.makedirs(d, exist_ok=True)
    env = dict(os.environ)
    env["PYTHONHASHSEED"] = str(seed)
    env["PYTHONPATH"] = f"{VERIF_REPO}:/verif"
    env.pop("CLEMATIS_CONFIG", None)
    fails = []
    for name, doc in docs.items():
        try:
            validate_config_verbose(copy.deepcopy(doc))
            verdict, msgs = "accept", []
        except Exception as e:  # noqa: BLE001
            verdict, msgs = "reject", [m for m in str(e).strip().split("\n")]
        # the list-returning API variants report exactly the lines of the typed error, one message per problem
        from configs.validate import validate_config_api, validate_config as _vc
        try:
            api = validate_config_api(copy.deepcopy(doc))
            compat = _vc(copy.deepcopy(doc), strict=True)
            api_msgs = [m for m in (api[1] or [])]
            compat_msgs = [m for m in (compat[0] or [])]
            for nm_, got_ in (("validate_config_api", api_msgs), ("validate_config(strict=True)", compat_msgs)):
                if (verdict == "accept") != (not got_) or (verdict == "reject" and "\n".join(got_) != "\n".join(msgs)):
                    fails.append(("SameVerdictAllApis", {"cause": "api-messages-differ", "variant": nm_},
                                  f"[{name}] {nm_} on {doc!r}: messages {got_!r}, the typed error carries {msgs!r}", {"v": {}, "doc": doc, "variant": nm_}))
                elif verdict == "reject" and len(got_) != len(msgs):
                    fails.append(("SameVerdictAllApis", {"cause": "api-message-count", "variant": nm_},
                                  f"[{name}] {nm_} on {doc!r}: {len(got_)} messages for {len(msgs)} problems: {got_!r}", {"v": {}, "doc": doc, "variant": nm_}))
        except Exception as e:  # noqa: BLE001
            fails.append(("TotalTyped", {"cause": "api-variant-raised", "variant": "list-returning"}, f"[{name}] list-returning API raised {type(e).__name__}: {e} on {doc!r}",
                          {"v": {}, "doc": doc}))
        path = os.path.join(d, f"{name}.yaml")
        with open(path, "w") as f:
            import yaml
            yaml.safe_dump(doc, f)       # (escaped output: the CLI must read exactly the document the API got)
        for variant, cmd in (("python -m clematis validate --json FILE", [sys.executable, "-m", "clematis", "validate", "--json", path]),
                             ("python -m clematis.scripts.validate --json FILE", [sys.executable, "-m", "clematis.scripts.validate", "--json", path]),
                             ("python -m clematis validate FILE", [sys.executable, "-m", "clematis", "validate", path]),
                             ("python -m clematis.scripts.validate FILE", [sys.executable, "-m", "clematis.scripts.validate", path])):
            p_ = subprocess.run(cmd, cwd=d, env=env, stdout=subprocess.PIPE, stderr=subprocess.PIPE, text=True, timeout=120)
            both = p_.stdout + "\n" + p_.stderr
            case = {"v": {}, "doc": doc, "variant": variant}
            if "Traceback (most recent call last)" in both:
                last = [ln for ln in p_.stderr.strip().splitlines() if ln.strip()][-1:]
                fails.append(("TotalTyped", {"cause": "cli-json-traceback" if "--json" in variant else "cli-traceback", "variant": variant.split(" FILE")[0]},
                              f"[{name}] `{variant}` on {doc} ends in a traceback: {last}", case))
                continue
            if (p_.returncode == 0) != (verdict == "accept"):
                fails.append(("SameVerdictAllApis", {"cause": "cli-json-verdict", "variant": variant.split(" FILE")[0]},
                              f"[{name}] `{variant}` on {doc}: exit status {p_.returncode}, the API says {verdict}", case))
            missing = [m for m in msgs if m.split(" ", 1)[0] not in both]
            if verdict == "reject" and missing:
                fails.append(("SameVerdictAllApis", {"cause": "cli-json-messages", "variant": variant.split(" FILE")[0]},
                              f"[{name}] `{variant}` on {doc}: the API's messages {missing[:2]} do not appear in the output {both.strip()[:200]!r}", case))
    shutil.rmtree(d, ignore_errors=True)
    return fails


def alias_and_purity_fixed(args) -> List[Tuple[str, Dict[str, Any], str, Any]]:
    """(a) a cache TTL has two spellings (ttl_s / ttl_sec); whichever wins, an accepted configuration carries no spelling
    whose value is outside the documented range or of the wrong type, and a value that cannot be read as a number is not
    silently replaced by the default; a number too large for a float is out of range, not 0.
    (b) purity under caller mutation: what a caller does to a returned configuration (append to its lists, add keys to its
    mappings) changes neither the result of validating the same document again nor the document itself."""
    from configs.validate import validate_config
    fails = []

    def run_(doc):
        try:
            return "accept", validate_config(copy.deepcopy(doc))
        except Exception as e:      # noqa: BLE001
            return ("reject" if type(e).__name__ in ("ConfigError", "ValueError") else "raise:" + type(e).__name__), str(e)
    bads = [-5, "soon", [], "5m", {"x": 1}]
    for sec in ("t1", "t2", "t4"):
        for win, lose in (("ttl_s", "ttl_sec"), ("ttl_sec", "ttl_s")):
            for bad in bads:
                for doc in ({sec: {"cache": {win: 70, lose: bad}}}, {sec: {"cache": {lose: bad}}}):
                    v, out = run_(doc)
                    case = {"v": {}, "doc": doc}
                    if v.startswith("raise"):
                        fails.append(("TotalTyped", {"cause": "ttl-alias-raised"}, f"validate_config({doc!r}) raised {v[6:]}: {out[:120]}", case))
                    elif v == "accept":
                        c_ = (out.get(sec) or {}).get("cache") or {}
                        for k_ in ("ttl_s", "ttl_sec"):
                            if k_ in c_ and not (isinstance(c_[k_], int) and not isinstance(c_[k_], bool) and c_[k_] >= 0):
                                fails.append(("AcceptedWithinRanges", {"cause": "ttl-alias-out-of-range", "section": sec},
                                              f"validate_config({doc!r}) is accepted and the normalised {sec}.cache carries {k_}={c_[k_]!r}", case))
                        if len(doc[sec]["cache"]) == 1 and isinstance(bad, str):
                            fails.append(("AcceptedWithinRanges", {"cause": "ttl-unreadable-accepted", "section": sec},
                                          f"validate_config({doc!r}) is accepted ({ {k_: c_.get(k_) for k_ in ('ttl_s', 'ttl_sec')} }): a value that is not a number was replaced silently", case))
    for doc in ({"t2": {"sim_threshold": 10 ** 400}}, {"t4": {"delta_norm_cap_l2": -10 ** 400}}):
        v, out = run_(doc)
        if v != "reject":
            fails.append(("AcceptedWithinRanges" if v == "accept" else "TotalTyped", {"cause": "huge-number"},
                          f"validate_config({ {k: {kk: '10**400' for kk in vv} for k, vv in doc.items()} }) -> {v} ({str(out)[:80]})", {"v": {}, "doc": {}}))

    # numbers that only BECOME non-finite when the validator coerces them (strings "nan" / "inf", YAML's unquoted 1e999 which
    # loads as a string, integers too large for a float) on keys whose range check is one-sided or blind to NaN: an
    # accepted configuration holds finite numbers only
    import math as _m

    def nonfinite(x, path=""):
        if isinstance(x, float) and not _m.isfinite(x):
            return [path]
        if isinstance(x, dict):
            return [q for k_, v_ in x.items() for q in nonfinite(v_, f"{path}.{k_}" if path else str(k_))]
        if isinstance(x, (list, tuple)):
            return [q for i_, v_ in enumerate(x) for q in nonfinite(v_, f"{path}[{i_}]")]
        return []
    leaves = [("t1", "node_budget"), ("t4", "delta_norm_cap_l2"), ("t2", "hybrid", "max_bonus"), ("graph", "decay", "floor"), ("graph", "update", "alpha"),
              ("t2", "quality", "lexical", "bm25_k1"), ("t2", "quality", "lexical", "bm25_b"), ("t2", "sim_threshold"), ("t2", "ranking", "alpha_sim")]
    for path in leaves:
        for bad in ("nan", "inf", "-Infinity", "1e999", 10 ** 400):
            doc: Dict[str, Any] = {}
            node = doc
            for k_ in path[:-1]:
                node = node.setdefault(k_, {})
            node[path[-1]] = bad
            if path[0] == "graph":
                doc["graph"]["enabled"] = True
            v, out = run_(doc)
            shown = {"path": ".".join(path), "value": str(bad)[:12]}
            if v.startswith("raise"):
                fails.append(("TotalTyped", {"cause": "coerced-nonfinite-raised"}, f"validate_config with {shown} raised {v[6:]}", {"v": {}, "doc": {}}))
            elif v == "accept":
                bad_paths = nonfinite(out)
                if bad_paths:
                    fails.append(("AcceptedWithinRanges", {"cause": "coerced-nonfinite-accepted", "leaf": ".".join(path)},
                                  f"validate_config with {shown} is accepted and the normalised configuration holds non-finite numbers at {bad_paths[:3]}", {"v": {}, "doc": {}}))
    # both spellings valid but different: the stage caches are built with the TTL the normalised configuration announces
    try:
        from .. import engine as E
        import clematis.engine.stages.t1 as t1_mod
        import clematis.engine.stages.t2.cache as t2c_mod
        from clematis.engine.stages.t1 import t1_propagate
        from clematis.engine.stages.t2.core import t2_semantic
        for sec, a_, b_ in (("t1", 30, 900), ("t1", 900, 30), ("t2", 20, 7), ("t2", 7, 20)):
            doc = {sec: {"cache": {"enabled": True, "ttl_s": a_, "ttl_sec": b_}}}
            try:
                cfg = E.validated_cfg(copy.deepcopy(doc))
            except Exception:      # noqa: BLE001 - rejected: outside the contract
                continue
            announced = cfg[sec]["cache"]["ttl_s"]
            E.reset_global_caches()
            st = E.mk_state(E.DEFAULT_GRAPHS, E.default_episodes())
            ctx = E.mk_ctx(cfg, "A", 1)
            t1r = t1_propagate(ctx, st, "apple banana")
            if sec == "t2":
                t2_semantic(ctx, st, "apple banana", t1r)
            used = t1_mod._T1_CACHE_CFG if sec == "t1" else t2c_mod._T2_CACHE_CFG
            if isinstance(used, tuple) and len(used) >= 3 and used[0] == "lru" and used[2] != announced:
                fails.append(("EngineRunsUnderAccepted", {"cause": "stage-cache-ttl-differs-from-normalised", "section": sec},
                              f"{doc!r}: the normalised configuration says {sec}.cache.ttl_s={announced!r}, the {sec} stage cache is built with {used!r}", {"v": {}, "doc": doc}))
        E.reset_global_caches()
    except Exception as e:      # noqa: BLE001
        fails.append(("EngineRunsUnderAccepted", {"cause": "stage-cache-probe-raised"}, f"stage cache probe raised {type(e).__name__}: {e}", {"v": {}, "doc": {}}))

    # (c) history independence: what the validator says about a document is a function of the document, not of what the
    # process validated before.  Keys that are equal as Python objects but spelled differently (1 / True / 1.0, 0 / False /
    # 0.0 - YAML produces all of them) are the sharpest probe of a process-global memo; each list is validated in both
    # orders in two fresh processes and the per-document outcomes are compared.
    probe = ("import sys, json\n"
             "from configs.validate import validate_config, validate_config_verbose\n"
             "docs = [{1: {}}, {True: {}}, {1.0: {}}, {0: {}}, {False: {}}, {0.0: {}}, {'t1': {1: 2}}, {'t1': {True: 2}}, {'t2': {0: 2}}, {'t2': {False: 2}},\n"
             "        {'t1x': {}}, {'t1': {'radius_cup': 3}}]\n"
             "order = list(range(len(docs)))\n"
             "if sys.argv[1] == 'rev': order.reverse()\n"
             "out = {}\n"
             "for i in order:\n"
             "    r = []\n"
             "    for f in (validate_config, validate_config_verbose):\n"
             "        try:\n"
             "            x = f(dict(docs[i]))\n"
             "            r.append(['accept', [str(w) for w in x[1]] if isinstance(x, tuple) else []])\n"
             "        except Exception as e:\n"
             "            r.append([type(e).__name__, str(e)])\n"
             "    out[str(i) + ' ' + repr(docs[i])] = r\n"
             "print(json.dumps(out, sort_keys=True))\n")
    env = dict(os.environ)
    env["PYTHONPATH"] = f"{VERIF_REPO}:/verif"
    outs_ = {}
    for order in ("fwd", "rev"):
        try:
            p_ = subprocess.run([sys.executable, "-c", probe, order], cwd=args[0], env=env, stdout=subprocess.PIPE, stderr=subprocess.PIPE, text=True, timeout=300)
            outs_[order] = json.loads(p_.stdout.strip().splitlines()[-1])
        except Exception as e:      # noqa: BLE001
            fails.append(("Deterministic", {"cause": "history-probe-failed"}, f"history probe ({order}) did not complete: {type(e).__name__}: {str(e)[:120]}", {"v": {}, "doc": {}}))
    if len(outs_) == 2:
        for k_ in sorted(outs_["fwd"]):
            if outs_["fwd"][k_] != outs_["rev"].get(k_):
                fails.append(("Deterministic", {"cause": "outcome-depends-on-process-history"},
                              f"document {k_.split(' ', 1)[1]}: validated after other documents in one order the process reports {outs_['fwd'][k_]!r}, in the "
                              f"reverse order {outs_['rev'].get(k_)!r}", {"v": {}, "doc": {}}))

    def scribble(x):
        if isinstance(x, dict):
            for v_ in list(x.values()):
                scribble(v_)
            x["__verif_scribble__"] = 1
        elif isinstance(x, list):
            for v_ in x:
                scribble(v_)
            x.append("__verif_scribble__")
    for doc in ({}, {"perf": {}}, {"t4": {"cache": {"namespaces": ["t2:semantic"]}}}, {"flags": {"x": [1], "y": {"z": 2}}},
                {"t2": {"tiers": ["exact_semantic"], "quality": {"enabled": True}}}, {"t1": {"edge_type_mult": {"supports": 1.0}}}):
        before = copy.deepcopy(doc)
        d_ = copy.deepcopy(doc)
        try:
            r1 = validate_config(d_)
            snap = copy.deepcopy(r1)
            scribble(r1)
            if d_ != before:
                fails.append(("InputNotMutated", {"cause": "output-shares-input"}, f"a caller's edits of the configuration returned for {before!r} reach the document that was validated: {d_!r}",
                              {"v": {}, "doc": before}))
            r2 = validate_config(copy.deepcopy(before))
        except Exception as e:      # noqa: BLE001
            fails.append(("Deterministic", {"cause": "output-shares-defaults"}, f"after a caller edited the configuration returned for {before!r}, validating the same document again "
                                                                                  f"raises {type(e).__name__}: {str(e)[:160]}", {"v": {}, "doc": before}))
            continue
        if r2 != snap:
            fails.append(("Deterministic", {"cause": "output-shares-defaults"}, f"after a caller edited the configuration returned for {before!r}, validating the same document again gives "
                                                                                  f"another result", {"v": {}, "doc": before}))
    return fails


# =============================================================================================
# check
# =============================================================================================
INVS = ["VerdictTotal", "OmittedEverythingAccepted", "RejectHasCause", "FaultsInsideVector", "InvalidLeafDominates",
        "AllMidCornerAccepted", "CornersAreDefinite"]


def check_table(tab) -> None:
    from ..tlc import TLCError
    if len(tab["table"]) != T.NF or len(tab["sections"]) != T.NS:
        raise TLCError(f"C14: spec table has {len(tab['table'])} fields / {len(tab['sections'])} sections, mirror {T.NF}/{T.NS}")
    for i, row in enumerate(tab["table"], 1):
        if row != T.spec_row(i):
            raise TLCError(f"C14: contract table row {i} differs between ConfigContract.tla and c14_table.py:\n spec   {row}\n mirror {T.spec_row(i)}")
    for j, row in enumerate(tab["sections"], 1):
        if row != T.spec_section_row(j):
            raise TLCError(f"C14: section row {j} differs: spec {row} mirror {T.spec_section_row(j)}")


def enumerate_vectors(run, consts, name):
    from ..tlc import TLCError
    cfg = make_cfg(consts, INVS, [], emit=False, view=None, constraint="EmitCase")
    res = run.tlc("ConfigContract", cfg, name=name, workers=8, timeout_s=1500, heap="6g")
    run.model_must_hold(res)
    tabs = [e for e in res.emitted if "table" in e]
    cases = [e for e in res.emitted if "v" in e]
    if not tabs:
        cfg2 = make_cfg({"Singles": False, "PairScope": "none", "FPairCls": [2], "NCorners": 0}, [], [], emit=False, view=None, constraint="EmitTable")
        r2 = run.tlc("ConfigContract", cfg2, name=name + "_table", workers=1, timeout_s=300)
        tabs = [e for e in r2.emitted if "table" in e]
    if not tabs:
        raise TLCError("C14: the spec did not print its table")
    check_table(tabs[0])
    if res.timed_out or len(cases) != res.distinct:
        raise TLCError(f"C14: enumeration incomplete ({len(cases)} emitted, {res.distinct} states, timed_out={res.timed_out})")
    return cases


def _small_pmap(chunks):
    """fork pool also for a few large chunks (util.pmap runs fewer than 64 items inline)"""
    import multiprocessing as mp
    if len(chunks) <= 1:
        return [process_chunk(c) for c in chunks]
    with mp.get_context("fork").Pool(min(16, len(chunks))) as pool:
        return pool.map(process_chunk, chunks, 1)


def check(run) -> None:
    q = run.quick
    wd = run.workdir
    run.rule = ("every vector TLC enumerates from ConfigContract (empty, all single faults, pairwise faults, corners) concretised and "
                "passed to 5 in-process API forms; CLI subprocess with another hash seed (sampled in quick, all in thorough); "
                "accepted vectors executed 2 turns x 2 worlds x {bare, engine-completed}; distinct = distinct vector")
    consts = {"Singles": True, "PairScope": "section" if q else "all",
              "FPairCls": [3, 5, 7, 8] if q else [2, 3, 5, 6, 7, 8], "NCorners": 9 if q else 30}
    run.constants = dict(consts, fields=T.NF, sections=T.NS, rules=len(T.RULES))
    cases = enumerate_vectors(run, consts, "ConfigContract")
    # ---- engine baseline: the omitted-everything config ---------------------------------------
    base_case = next(c for c in cases if c["v"] == [])
    base_res = eval_vector(base_case, wd, {"engine": True})
    engine_base = base_res["engine"]
    opts = {"wd": wd, "seed": run.seed, "engine_base": engine_base,
            "cli_frac": 0.03 if q else 1.0, "cli_single_frac": 0.5 if q else 1.0,
            "eng_single_frac": 1.0, "eng_pair_frac": 0.05 if q else 0.2}
    # phase 1: empty / single-fault / corner vectors (their violations define the per-element classes);
    # phase 2: pairwise vectors, a violation already shown by one of the pair's elements alone is the same class
    cases.sort(key=lambda c: (len(c["v"]), c["v"]))
    size = 120 if q else 400
    counts: collections.Counter = collections.Counter()
    per_sig: Dict[str, int] = collections.Counter()
    from ..core import canon
    single_sig: Dict[Tuple[str, str, int, int], Dict[str, Any]] = {}
    single_any: set = set()

    pending: Dict[str, List[Tuple]] = collections.OrderedDict()

    def record(clause, sig, msg, case, extra=None):
        s = dict(sig)
        s.setdefault("clause", clause)
        key = canon(s)
        per_sig[key] += 1
        if per_sig[key] <= MAX_WITNESS:
            pending.setdefault(key, []).append((clause, sig, {"vector": case["v"], "spec_verdict": case["verdict"], "spec_faults": case["faults"],
                                                              "spec_rules": case["rules"]}, msg, dict({"case": case}, **(extra or {}))))

    for phase, sel in ((1, [c for c in cases if len(c["v"]) <= 1]), (2, [c for c in cases if len(c["v"]) == 2])):
        if not sel:
            continue
        sz = size if phase == 1 else (400 if q else 1500)
        chunks = [(1000 * phase + i // sz, sel[i:i + sz], opts) for i in range(0, len(sel), sz)]
        for o in (pmap(process_chunk, chunks, chunk=1) if len(chunks) >= 64 else _small_pmap(chunks)):
            counts.update(o["counts"])
            if o["sample"]:
                run.sample(o["sample"], cap=5)
            for clause, sig, msg, case in o["fails"]:
                els = classes_of(case)
                corner = len(case["v"]) == 1 and case["v"][0][0] == 0
                if "_elems" in sig:
                    # a fault that is not named because the validator does not see it at all is the element's own
                    # AcceptedWithinRanges class (shown by its single-fault vector), not a new one
                    sig = dict(sig)
                    rest = [(e, c) for e, c in sig.pop("_elems") if ("AcceptedWithinRanges", e, c) not in single_any]
                    rules = [x for x in str(sig.get("field", "")).split("|") if re.fullmatch(r"R\d", x)]
                    if not rest and not rules:
                        counts["fault_not_named_explained_by_single"] += 1
                        continue
                    sig["field"] = "|".join([elem_name(e) for e, _c in rest] + rules)
                if phase == 1 and not corner and len(els) == 1:
                    single_any.add((clause, els[0][0], els[0][1]))
                    single_sig.setdefault((clause, sig.get("cause"), els[0][0], els[0][1]), sig)
                elif phase == 2 and ("field" not in sig or "|" in str(sig.get("field"))):
                    alt = ["raises-under-contract-valid-config", "raises-under-unchecked-value"] if clause == "EngineRunsUnderAccepted" else [sig.get("cause")]
                    known = [single_sig[(clause, ca, e, c)] for ca in alt for e, c in els if (clause, ca, e, c) in single_sig]
                    if known:
                        sig = known[0]
                        counts["pair_violation_explained_by_single"] += 1
                record(clause, sig, msg, case)
    # ---- real entry points (one interpreter per vector) ---------------------------------------
    pick = [c for c in cases if len(c["v"]) <= 1]
    r = rng(run.seed, "c14real")
    sel = [base_case] + r.sample(pick, 6 if q else 40)
    from concurrent.futures import ThreadPoolExecutor
    with ThreadPoolExecutor(8) as ex:
        rc_outs = list(ex.map(real_cli, [(c, wd, 5 + i % 3) for i, c in enumerate(sel)]))
    rc_outs.append(json_cli_fixed((wd, 5)))
    rc_outs.append(alias_and_purity_fixed((wd, 5)))
    nreal = 0
    for fl in rc_outs:
        nreal += 1
        if not fl:
            counts["ok.SameVerdictAllApis.real_cli"] += 1
        for clause, sig, msg, case in fl:
            record(clause, sig, msg, dict({"verdict": None, "faults": [], "rules": []}, **case), {"real_cli": True})
    for key, items in pending.items():
        for clause, sig, wit, msg, rep in items:
            run.fail(clause, sig, wit, f"{msg}  [{per_sig[key]} vector(s) show this class]", replay=rep)
    os.chdir("/verif")
    # ---- accounting -------------------------------------------------------------------------
    run.traces += counts["vectors"]
    for c in cases:
        run.case(json.dumps(c["v"]))
    for k, v in counts.items():
        if k.startswith("ok."):
            run.ok(k[3:], v)
    run.guarded_out += counts["guarded_out"]
    run.exhaustive = True
    run.extra["c14_counts"] = dict(counts)
    run.extra["violations_per_signature"] = dict(per_sig)
    run.extra["real_cli_vectors"] = nreal
    run.sample({"vector": [], "validator": base_res["verdict"], "engine": engine_base}, cap=6)
    run.assumptions += ["one concrete value per (field, class); at most two simultaneous deviations per vector, plus corner vectors",
                        "UNSPEC vectors (documented coercion without documented outcome) are not compared with a verdict; accepted ones are range-checked and executed",
                        "CLI batches call the real entry function clematis.scripts.validate.main once per vector inside one interpreter per batch; a sample runs one interpreter per vector"]
    if q:
        run.notes.append(f"quick: pairs restricted to faults below the same top-level key; CLI on {counts['cli.vectors']} vectors; engine on {counts['engine.vectors']} vectors")


def replay(rep) -> int:
    r = rep["replay"]
    case = r["case"]
    wd = os.path.join("/verif/.work", "C14_replay")
    shutil.rmtree(wd, ignore_errors=True)
    os.makedirs(wd, exist_ok=True)
    base_res = eval_vector({"v": [], "verdict": "ACCEPT", "faults": [], "rules": [], "cls": []}, wd, {"engine": True})
    out = process_chunk((0, [case], {"wd": wd, "seed": rep.get("seed", 0), "engine_base": base_res["engine"],
                                     "cli_frac": 1.0, "cli_single_frac": 1.0, "eng_single_frac": 1.0, "eng_pair_frac": 1.0}))
    fails = list(out["fails"])
    if r.get("real_cli"):
        fails += real_cli((case, wd, 5))
    want = rep.get("clause")
    hit = [f for f in fails if want is None or f[0] == want]
    for clause, sig, msg, _c in fails:
        print(f"{clause} {json.dumps(sig, sort_keys=True)}: {msg}")
    if hit:
        print(f"VIOLATION property=C14 replay={rep.get('_path', '?')}")
        return 1
    print("replay: conforms")
    return 0
