"""X12 (extra, beyond the listed properties) — the snapshot inspector, a read-only view on the writer's files.

(M)    Inspect.tla enumerates what lies in the snapshot directory (no file / garbage / {} / a body with or without a schema
       version, graph counts in the writer's form, as arrays, as a compact summary or nowhere; sidecar absent / v1 / other /
       garbage) x --strict, and computes exit code, report presence, warning / error and the reported fields; the docstring's
       exit-code rules and the fall-back rules are invariants.
(S->C)  every case is materialised in a scratch directory and inspected through clematis.scripts.inspect_snapshot.main
       (--format json and pretty) and through the umbrella CLI (clematis.cli.main.main(["inspect-snapshot", ...])): exit code,
       stdout / stderr, reported fields; the directory is byte-identical afterwards (read-only).
       Round trip with the real writer: snapshots written by real turns (GEL on) are inspected with --strict: exit 0 and the
       counts / version of the state that was written.
"""
from __future__ import annotations

import contextlib
import hashlib
import io
import json
import os
import shutil
import tempfile
from typing import Any, Dict, List, Tuple

from ..util import make_cfg, pmap

MANIFEST = {"technique": "TLA+ decision table of the snapshot inspector enumerated by TLC; every case materialised on disk and replayed on inspect_snapshot.main and the umbrella CLI; round trip with the real snapshot writer",
            "text": "extra spec beyond the listed properties", "note": "not a listed property; run with ./check X12"}

CLAUSES = ["ExitCodes", "FoundNonStrictNeverFails", "NotFoundIsTwo", "StrictFailsIffSchemaInvalid", "FailureIsSilentOnStdout", "WarnKeepsReport",
           "BodySchemaWins", "WriterFormCountsExact", "StrictOnlyGates"]


def _tree(d) -> Dict[str, str]:
    out = {}
    for root, _dirs, files in os.walk(d):
        for f in files:
            p = os.path.join(root, f)
            out[os.path.relpath(p, d)] = hashlib.sha256(open(p, "rb").read()).hexdigest()
    return out


def _call(fn, argv) -> Tuple[Any, str, str]:
    so, se = io.StringIO(), io.StringIO()
    with contextlib.redirect_stdout(so), contextlib.redirect_stderr(se):
        try:
            rc: Any = fn(list(argv))
        except SystemExit as e:
            rc = e.code
        except Exception as e:      # noqa: BLE001
            rc = f"raised {type(e).__name__}: {e}"
    return rc, so.getvalue(), se.getvalue()


def materialise(i, d) -> None:
    os.makedirs(d, exist_ok=True)
    p = os.path.join(d, "state_A.json")
    if i["file"] == "none":
        return
    if i["file"] == "garbage":
        open(p, "w").write("\x00not json at all{{")
    elif i["file"] == "empty":
        open(p, "w").write("{}")
    else:
        body: Dict[str, Any] = {"version_etag": "7", "store": {}, "t4_caps": {"delta_norm_cap_l2": 1.5}}
        if i["bodysv"] != "absent":
            body["schema_version"] = i["bodysv"]
        n, e = i["n"], i["e"]
        nodes = {f"n{k}": {"id": f"n{k}"} for k in range(n)}
        edges = {f"n0→x{k}": {"id": f"n0→x{k}", "src": "n0", "dst": f"x{k}", "weight": 0.5, "rel": "coact"} for k in range(e)}
        if i["shape"] == "maps":
            body["gel"] = {"nodes": nodes, "edges": edges, "meta": {"schema": "v1.1", "merges": [], "splits": [], "promotions": [], "concept_nodes_count": 0}}
            body["graph_schema_version"] = "v1.1"
        elif i["shape"] == "lists":
            body["gel"] = {"nodes": list(nodes.values()), "edges": list(edges.values())}
        elif i["shape"] == "summary":
            body["graph"] = {"nodes_count": n, "edges_count": e}
        json.dump(body, open(p, "w"))
    if i["side"] == "garbage":
        open(p + ".meta", "w").write("{{not json")
    elif i["side"] != "absent":
        json.dump({"schema_version": i["side"], "created_at": "2025-09-01T00:00:00Z"}, open(p + ".meta", "w"))


def run_case(case) -> List[Tuple[str, str]]:
    import clematis.scripts.inspect_snapshot as IS
    import clematis.cli.main as M
    i, o = case["c"]["inp"], case["c"]["out"]
    d = tempfile.mkdtemp(prefix="x12_", dir=case["workdir"])
    fails: List[Tuple[str, str]] = []
    where = f"directory: file={i['file']} body schema={i['bodysv']} sidecar={i['side']} counts {i['shape']} {i['n']}/{i['e']} strict={i['strict']}"
    try:
        snap = os.path.join(d, "snaps")
        materialise(i, snap)
        before = _tree(d)
        argv = ["--dir", snap, "--format", "json"] + (["--strict"] if i["strict"] else [])
        rc, so, se = _call(IS.main, argv)
        if isinstance(rc, str):
            return [("InspectorTotal", f"{where}: {rc}")]
        null = lambda v: None if v == -1 else v      # noqa: E731
        if rc != o["rc"]:
            clause = "NotFoundIsTwo" if i["file"] != "body" else ("StrictFailsIffSchemaInvalid" if i["strict"] else "FoundNonStrictNeverFails")
            fails.append((clause, f"{where}: exit code {rc}, spec {o['rc']} (stderr {se.strip()[:100]!r})"))
        if bool(so.strip()) != o["report"]:
            fails.append(("FailureIsSilentOnStdout" if not o["report"] else "WarnKeepsReport", f"{where}: stdout {'carries' if so.strip() else 'lacks'} a report, spec report={o['report']}"))
        if ("[warn]" in se) != o["warn"] or (o["err"] and not se.strip()):
            fails.append(("Diagnostics", f"{where}: stderr {se.strip()[:120]!r}, spec warn={o['warn']} error={o['err']}"))
        if o["report"] and so.strip():
            try:
                rep = json.loads(so)
            except Exception:
                return fails + [("ReportIsJson", f"{where}: --format json printed {so[:100]!r}")]
            got = (rep.get("schema_version"), rep.get("nodes"), rep.get("edges"), rep.get("gel_nodes"), rep.get("gel_edges"), rep.get("version_etag"))
            want = (o["sv"], null(o["nodes"]), null(o["edges"]), null(o["gn"]), null(o["ge"]), "7")
            if got != want:
                clause = "BodySchemaWins" if got[0] != want[0] else "WriterFormCountsExact" if i["shape"] == "maps" else "ReportedCounts"
                fails.append((clause, f"{where}: reported (schema, nodes, edges, gel_nodes, gel_edges, version) {got}, spec {want}"))
            # the pretty form: same exit code, the same counts
            rc2, so2, _se2 = _call(IS.main, [a for a in argv if a not in ("--format", "json")])
            if rc2 != rc or f"nodes/edges   :{rep.get('nodes')} / {rep.get('edges')}" not in so2:
                fails.append(("PrettyAgrees", f"{where}: pretty form exits {rc2} and prints {so2[:160]!r}; json form exits {rc} with nodes/edges {rep.get('nodes')}/{rep.get('edges')}"))
        # the umbrella CLI is the same inspector
        rc3, so3, _se3 = _call(M.main, ["inspect-snapshot", "--"] + argv)
        if rc3 != rc or so3 != so:
            fails.append(("UmbrellaAgrees", f"{where}: `clematis inspect-snapshot` exits {rc3} with stdout {so3[:80]!r}; the script exits {rc} with {so[:80]!r}"))
        if _tree(d) != before:
            fails.append(("ReadOnly", f"{where}: the inspector changed the directory"))
        return fails
    finally:
        shutil.rmtree(d, ignore_errors=True)


def roundtrip_case(case) -> List[Tuple[str, str]]:
    """real turns write the snapshot, the inspector reads it"""
    from ..turnrun import Session
    from .. import engine as E
    import clematis.scripts.inspect_snapshot as IS
    os.environ["CI"] = "true"
    work = tempfile.mkdtemp(prefix="x12r_", dir=case["workdir"])
    try:
        eps = [E.mk_episode(f"ep{j}", "A", "I like apple and banana", ts=f"2025-08-{10 + j:02d}T00:00:00Z", importance=0.5, cluster="c0") for j in range(case["neps"])]
        s = Session(os.path.join(work, "w"), base_cfg={"graph": {"coactivation_threshold": 0.0, "observe_top_k": 4}, "t2": {"sim_threshold": -1.0, "owner_scope": "any"}},
                    episodes=eps)
        for _ in range(case["turns"]):
            o = s.run({"graph": True})
            if o["raised"]:
                return [("__machinery__", f"turn raised {o['raised']}")]
        g = s.state.get("graph") or {}
        want = (len(g.get("nodes") or {}), len(g.get("edges") or {}), str(s.state.get("version_etag")))
        rc, so, se = _call(IS.main, ["--dir", s.snapdir, "--format", "json", "--strict"])
        if rc != 0:
            return [("WriterOutputPassesStrict", f"{case}: a snapshot written by the engine is rejected by --strict: exit {rc}, stderr {se.strip()[:160]!r}")]
        rep = json.loads(so)
        got = (rep.get("nodes"), rep.get("edges"), str(rep.get("version_etag")))
        if got != want or "[warn]" in se:
            return [("WriterFormCountsExact", f"{case}: state after the turns has (nodes, edges, version) {want}, the inspector reports {got} (stderr {se.strip()[:80]!r})")]
        return []
    finally:
        shutil.rmtree(work, ignore_errors=True)


def check(run) -> None:
    run.rule = "every directory content x --strict of Inspect.tla materialised and inspected (script, pretty form, umbrella CLI); snapshots written by real turns inspected with --strict"
    consts = {"Counts": [0, 2, 3] if run.quick else [0, 1, 2, 5]}
    cfg = make_cfg(consts, CLAUSES, [], emit=False, view=None, constraint="EmitCase")
    res = run.tlc("Inspect", cfg, name="Inspect", workers=4, timeout_s=900)
    run.model_must_hold(res)
    cases = [{"c": c, "workdir": run.workdir} for c in res.emitted]
    for c, fails in zip(cases, pmap(run_case, cases, chunk=16)):
        run.traces += 1
        run.case(json.dumps(c["c"]["inp"], sort_keys=True))
        if not fails:
            run.ok("Inspect.conforms")
        for clause, msg in fails:
            run.fail(clause, {"clause": clause}, c["c"]["inp"], msg, replay={"case": c["c"]})
    rcases = [{"neps": n, "turns": t, "workdir": run.workdir} for n in (0, 2, 4) for t in (1, 2)]
    for c, fails in zip(rcases, pmap(roundtrip_case, rcases, chunk=1)):
        cc = {k: v for k, v in c.items() if k != "workdir"}
        run.traces += 1
        run.case(("roundtrip", json.dumps(cc)))
        if fails and fails[0][0] == "__machinery__":
            from ..tlc import TLCError
            raise TLCError("X12: " + fails[0][1])
        if not fails:
            run.ok("Inspect.roundtrip_with_writer")
        for clause, msg in fails:
            run.fail(clause, {"clause": clause, "family": "roundtrip"}, cc, msg, replay={"roundtrip": cc})
    if cases:
        run.sample({"case": cases[len(cases) // 2]["c"]}, cap=3)
    run.exhaustive = True


def replay(rep) -> int:
    os.makedirs("/verif/.work/X12", exist_ok=True)
    r = rep["replay"]
    fails = run_case({"c": r["case"], "workdir": "/verif/.work/X12"}) if "case" in r else roundtrip_case(dict(r["roundtrip"], workdir="/verif/.work/X12"))
    for f in fails:
        print(": ".join(f))
    if fails:
        print(f"VIOLATION property=X12 replay={rep.get('_path', '?')}")
        return 1
    print("replay: conforms")
    return 0
