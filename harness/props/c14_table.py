"""C14 — Python side of the v1 config contract table (index -> dotted path + concrete values per class).

The *contract* (type, range/enum, default, the three valid corner values, cross-field rules) is frozen in
specs/ConfigContract.tla; this file mirrors it (double entry: `check_against_spec` compares every column
with the table TLC prints and aborts with a machinery failure on any difference) and adds what a TLA+
integer cannot carry: the dotted path, the path the validator's message uses, the enum strings and the
concrete Python value of every leaf class.

Source of every range (transcribed once at the pinned commit, never imported from the code):
  [msg]   the validator's own operator-facing constraint message for that path
          ("t2.k_retrieval must be >= 1", "t2.ranking.alpha_sim must be in [0, 1]", "... (or null)")
  [dflt]  the inline default tables/comments of configs/validate.py (DEFAULTS block, "# [0,1]", "# >= 1")
  [yaml]  configs/config.yaml (the shipped operator example; only source for the keys no message constrains:
          budgets.*, flags.*, t1.cache.enabled, t2.owner_scope, surface_method ...;
          these rows are `soft`: the example fixes a type, but no documented rule rejects anything, so the
          spec never demands a rejection there — an accepted value must still let the engine run)
  [m9]    docs/m9/overview.md (perf.parallel.*: max_workers "values <= 1 behave sequentially",
          "-3 normalizes to 0 by design")
  [m10]   docs/m10/reflection.md (t3.reflection.*, fixtures rule)
  [m11]   docs/m11/overview.md (graph.*)
  [m13]   docs/m13/config_freeze.md (top-level key list, version)
Revision 2 (after the validator repairs a8b9010..3647344): the stage keys t1.radius_cap, t1.decay.*,
t1.edge_type_mult, t2.tiers, t2.exact_recent_days, t2.clusters_top_m, t2.residual_cap_per_turn, k_surface
now carry messages and are hard, type-checked rows (`st`); "<path> must be a finite number" rejects
NaN/+-inf wherever a number survives normalisation (every float row); "<section> must be a mapping";
unknown keys below t1.decay; cross-field rule R9 clamp_min <= 0 <= clamp_max; t2.quality lexical/fusion
bounds apply to the provided values.  `cap`: the type check also enforces an implementation ceiling
(10**6 / 10**9) that the message does not print; only the `huge` class depends on it.
Numbers are written in the spec in milli-units (value * 1000) so that TLC integers carry 0.001 steps.
"""
from __future__ import annotations

import math
from typing import Any, Dict, List, Optional, Tuple

NAN = float("nan")
INF = float("inf")
HUGE_INT = 10 ** 30
HUGE_FLOAT = 1e308

CLASSES = ["absent", "vmin", "vmax", "vmid", "below", "above", "wrongtype", "nan", "pinf", "ninf", "huge", "empty"]
SCLASSES = ["unknown", "nonstr", "nondict"]
CI = {c: i + 1 for i, c in enumerate(CLASSES)}

# ---------------------------------------------------------------------------------------------
# sections of the v1 key tree: (path, free_form, nondict_rejected)
#   free_form = the contract places no restriction on the key names below it (no unknown-key message)
# ---------------------------------------------------------------------------------------------
SECTIONS: List[Tuple[str, int, int]] = [
    ("", 0, 0),                              # [m13] "Unknown top-level keys are rejected"
    ("t1", 0, 1), ("t1.cache", 0, 0),        # [msg] "t1.<k> unknown key"; "t1 must be a mapping"
    ("t1.decay", 0, 1),                      # [msg] "t1.decay must be a mapping"; "t1.decay.<k> unknown key" (mode, rate, floor, alpha)
    ("t1.edge_type_mult", 2, 1),             # [msg] "t1.edge_type_mult must be a mapping of relation name -> number": free names, string keys
    ("t2", 0, 1), ("t2.cache", 0, 0), ("t2.ranking", 0, 0), ("t2.hybrid", 0, 0), ("t2.reader", 0, 0),
    ("t2.lancedb", 1, 1),                    # [msg] "t2.lancedb must be an object"
    ("t2.lancedb.partitions", 1, 1),         # [msg] "t2.lancedb.partitions must be an object"
    ("t2.quality", 0, 1), ("t2.quality.normalizer", 0, 0), ("t2.quality.aliasing", 0, 0),
    ("t2.quality.lexical", 0, 0), ("t2.quality.lexical.bm25", 0, 0), ("t2.quality.fusion", 0, 0),
    ("t2.quality.mmr", 0, 0),
    ("t3", 0, 1), ("t3.dialogue", 0, 0), ("t3.policy", 0, 0), ("t3.reflection", 0, 0), ("t3.llm", 0, 0),
    ("t3.llm.fixtures", 0, 0),
    ("t4", 0, 1), ("t4.cache", 0, 0),
    ("t4.cooldowns", 2, 0),                  # [msg] "t4.cooldowns keys must be strings (op kinds)": free names, string keys
    ("graph", 0, 1), ("graph.update", 0, 0), ("graph.decay", 0, 0), ("graph.merge", 0, 0),
    ("graph.split", 0, 0), ("graph.promotion", 0, 0),
    ("scheduler", 1, 1), ("scheduler.budgets", 1, 0), ("scheduler.fairness", 1, 0),   # no unknown-key message exists for the scheduler tree
    # [msg] "<section> must be a mapping" for t1 t2 t3 t4 graph scheduler perf t2.quality
    ("perf", 0, 1), ("perf.t1", 0, 0), ("perf.t1.cache", 0, 0), ("perf.t1.caps", 0, 0),
    ("perf.t2", 0, 0), ("perf.t2.cache", 0, 0), ("perf.t2.reader", 0, 0), ("perf.t2.reader.partitions", 0, 0),
    ("perf.snapshots", 0, 0), ("perf.metrics", 0, 0), ("perf.parallel", 0, 0),
    ("budgets", 1, 0), ("flags", 1, 0),      # [m13]/[yaml] free-form top-level tables
]
SEC_INDEX = {p: i + 1 for i, (p, _f, _n) in enumerate(SECTIONS)}

FIELDS: List[Dict[str, Any]] = []


def _add(path, kind, src, **kw):
    sec = path.rsplit(".", 1)[0] if "." in path else ""
    assert sec in SEC_INDEX, path
    f = {"path": path, "kind": kind, "sec": sec, "src": src, "msg": kw.pop("msg", path),
         "lo": None, "hi": None, "lox": 0, "hix": 0, "nul": 0, "soft": 0, "ne": 0,
         "mn": None, "mx": None, "md": None, "dflt": None, "enum": None, "normlo": None, "al": None, "st": 0, "cap": None}
    f.update(kw)
    FIELDS.append(f)
    return f


def I(path, lo, hi, dflt, src, mn=None, mx=None, md=None, **kw):
    """integer field, inclusive bounds (None = unbounded)"""
    mn = mn if mn is not None else (lo if lo is not None else -1000)
    mx = mx if mx is not None else (hi if hi is not None else 1000)
    if md is None:
        md = (mn + mx) // 2 if (mx - mn) >= 2 else None
    return _add(path, "int", src, lo=lo, hi=hi, dflt=dflt, mn=mn, mx=mx, md=md, **kw)


def F(path, lo, hi, dflt, src, lox=0, hix=0, mn=None, mx=None, md=None, **kw):
    """float field; lox/hix = open bound"""
    if mn is None:
        mn = -1000.0 if lo is None else (lo + 0.001 if lox else lo)
    if mx is None:
        mx = 1000.0 if hi is None else (hi - 0.001 if hix else hi)
    if md is None:
        md = round((mn + mx) / 2, 3)
    return _add(path, "float", src, lo=lo, hi=hi, lox=lox, hix=hix, dflt=dflt, mn=mn, mx=mx, md=md, **kw)


def B(path, dflt, src, **kw):
    return _add(path, "bool", src, dflt=dflt, mn=False, mx=True, md=None, **kw)


def E(path, values, dflt, src, **kw):
    md = values[len(values) // 2] if len(values) >= 3 else None
    return _add(path, "enum", src, enum=list(values), dflt=dflt, mn=values[0], mx=values[-1], md=md, **kw)


def S(path, dflt, src, mn="a", mx=None, md=None, **kw):
    """non-empty string"""
    return _add(path, "str", src, dflt=dflt, mn=mn, mx=mx if mx is not None else "x" * 200, md=md, ne=1, **kw)


def L(path, members, dflt, src, ne=0, restricted=1, mn=None, mx=None, md=None, **kw):
    """list of strings (restricted=1: members must come from `members`)"""
    mn = mn if mn is not None else ([members[0]] if ne else [])
    mx = mx if mx is not None else list(members)
    md = md if md is not None else [members[0]]
    return _add(path, "list", src, enum=list(members), dflt=dflt, ne=ne, hi=(1 if restricted else None),
                mn=mn, mx=mx, md=md, **kw)


def M(path, lo, dflt, src, mn, mx, md, **kw):
    """string-keyed map of numbers (value lower bound lo or None)"""
    return _add(path, "map", src, lo=lo, dflt=dflt, mn=mn, mx=mx, md=md, **kw)


WD = "@WORK@"     # replaced by the run's scratch directory when a vector is concretised

# ---- top level ------------------------------------------------------------------------------
E("version", ["v1"], "v1", "[m13] must be 'v1' or omitted; [msg] version must be 'v1'")
I("k_surface", 1, None, 32, "[msg] k_surface must be an integer >= 1 (type-checked, capped at 10**6); [yaml] 32", mn=1, mx=64, md=32, st=1, cap=10 ** 6)
E("surface_method", ["PCA", "TopK"], "PCA", "[yaml] surface_method: PCA; engine types Literal PCA|TopK", soft=1)
I("budgets.time_ms", None, None, None, "[yaml] budgets.time_ms: 1000", mn=1, mx=100000, md=1000, soft=1)
I("budgets.ops", None, None, None, "[yaml] budgets.ops: 1000", mn=1, mx=100000, md=1000, soft=1)
I("budgets.tokens", None, None, None, "[yaml] budgets.tokens: 1024", mn=1, mx=100000, md=1024, soft=1)
I("budgets.time_ms_reflection", None, None, None, "[yaml] budgets.time_ms_reflection: 6000", mn=1, mx=100000, md=6000, soft=1)
B("flags.enable_world_memory", None, "[yaml] flags.enable_world_memory: false", soft=1)
B("flags.allow_reflection", None, "[yaml] flags.allow_reflection: false", soft=1)
# ---- t1 -------------------------------------------------------------------------------------
B("t1.cache.enabled", None, "[yaml] t1.cache.enabled: true", soft=1)
I("t1.cache.max_entries", 0, None, 512, "[msg] t1.cache.max_entries must be >= 0; [dflt] 512")
I("t1.cache.ttl_s", 0, None, 300, "[msg] t1.cache.ttl_s must be >= 0; [dflt] 300")
I("t1.cache.ttl_sec", 0, None, None, "[dflt] alias of ttl_s ('TTL alias precedence'); [msg] path t1.cache.ttl_s", msg="t1.cache.ttl_s", al="t1.cache.ttl_s")
I("t1.iter_cap", 0, None, None, "[msg] t1.iter_cap must be >= 0; [yaml] 50", md=50)
I("t1.queue_budget", 0, None, None, "[msg] t1.queue_budget must be >= 0; [yaml] 10000", mx=100000, md=10000)
F("t1.node_budget", 0.0, None, None, "[msg] t1.node_budget must be > 0; [yaml] 1.5", lox=1, md=1.5)
I("t1.radius_cap", 0, None, None, "[msg] t1.radius_cap must be an integer >= 0 (type-checked); [yaml] 4", mn=0, mx=64, md=4, st=1)
E("t1.decay.mode", ["exp_floor", "attn_quad"], None, "[msg] t1.decay.mode must be one of {exp_floor,attn_quad}; [yaml] exp_floor")
F("t1.decay.rate", 0.0, 1.0, None, "[msg] t1.decay.rate must be a number in [0, 1] (type-checked); [yaml] 0.6", md=0.6, st=1)
F("t1.decay.floor", 0.0, 1.0, None, "[msg] t1.decay.floor must be a number in [0, 1] (type-checked); [yaml] 0.05", md=0.05, st=1)
F("t1.decay.alpha", 0.0, None, None, "[msg] t1.decay.alpha must be a number >= 0 (type-checked; attn_quad mode)", mx=10.0, md=0.8, st=1)
M("t1.edge_type_mult", None, None, "[msg] t1.edge_type_mult must be a mapping of relation name -> number; [yaml] {supports: 1.0, associates: 0.6, contradicts: 0.8}",
  mn={}, mx={"supports": 1.0, "associates": 0.6, "contradicts": 0.8, "mentions": 0.25}, md={"supports": 1.0, "associates": 0.5}, st=1)
# ---- t2 -------------------------------------------------------------------------------------
E("t2.backend", ["inmemory", "lancedb"], "inmemory", "[msg] t2.backend must be one of {inmemory,lancedb}")
I("t2.k_retrieval", 1, None, 10, "[msg] t2.k_retrieval must be >= 1; [dflt] 10", md=64)
F("t2.sim_threshold", -1.0, 1.0, 0.0, "[msg] t2.sim_threshold must be in [-1.0, 1.0]; [dflt] 0.0", md=0.3)
L("t2.tiers", ["exact_semantic", "cluster_semantic", "archive"], None, "[msg] t2.tiers must be a list of tier names; [yaml] [exact_semantic, cluster_semantic, archive]",
  restricted=0)
I("t2.exact_recent_days", 0, None, None, "[msg] t2.exact_recent_days must be an integer >= 0 (type-checked, capped at 10**9); [yaml] 30", mn=0, mx=3650, md=30, st=1, cap=10 ** 9)
I("t2.clusters_top_m", 1, None, None, "[msg] t2.clusters_top_m must be an integer >= 1 (type-checked, capped at 10**9); [yaml] 3", mn=1, mx=64, md=3, st=1, cap=10 ** 9)
E("t2.owner_scope", ["any", "agent", "world"], None, "[yaml] t2.owner_scope: any; operator-guide owner_scope", soft=1)
I("t2.residual_cap_per_turn", 0, None, None, "[msg] t2.residual_cap_per_turn must be an integer >= 0 (type-checked, capped at 10**9); [yaml] 32", mn=0, mx=1000, md=32, st=1, cap=10 ** 9)
I("t2.reader_batch", 1, None, None, "[msg] t2.reader_batch must be >= 1", mx=100000, md=8192)
S("t2.embed_root", None, "[msg] t2.embed_root must be a non-empty string path", mn=WD + "/e", md=WD + "/embed_root", mx=WD + "/" + "e" * 120)
B("t2.cache.enabled", None, "[yaml] t2.cache.enabled: true", soft=1)
I("t2.cache.max_entries", 0, None, 512, "[msg] t2.cache.max_entries must be >= 0; [dflt] 512")
I("t2.cache.ttl_s", 0, None, 300, "[msg] t2.cache.ttl_s must be >= 0; [dflt] 300")
I("t2.cache.ttl_sec", 0, None, None, "[dflt] alias of ttl_s; [msg] path t2.cache.ttl_s", msg="t2.cache.ttl_s", al="t2.cache.ttl_s")
F("t2.ranking.alpha_sim", 0.0, 1.0, 1.0, "[msg] t2.ranking.alpha_sim must be in [0, 1]; [dflt] 1.0", md=0.75)
F("t2.ranking.beta_recency", 0.0, 1.0, 0.0, "[msg] t2.ranking.beta_recency must be in [0, 1]; [dflt] 0.0", md=0.2)
F("t2.ranking.gamma_importance", 0.0, 1.0, 0.0, "[msg] t2.ranking.gamma_importance must be in [0, 1]; [dflt] 0.0", md=0.05)
B("t2.hybrid.enabled", False, "[dflt] hybrid.enabled False")
B("t2.hybrid.use_graph", True, "[dflt] hybrid.use_graph True")
I("t2.hybrid.anchor_top_m", 1, None, 8, "[msg] t2.hybrid.anchor_top_m must be >= 1; [dflt] 8", md=8)
I("t2.hybrid.walk_hops", 1, 2, 1, "[msg] t2.hybrid.walk_hops must be 1 or 2; [dflt] 1  # 1 or 2")
F("t2.hybrid.edge_threshold", 0.0, 1.0, 0.10, "[msg] must be in [0, 1]; [dflt] 0.10  # [0,1]", md=0.1)
F("t2.hybrid.lambda_graph", 0.0, 1.0, 0.25, "[msg] must be in [0, 1]; [dflt] 0.25  # [0,1]", md=0.25)
F("t2.hybrid.damping", 0.0, 1.0, 0.50, "[msg] must be in [0, 1]; [dflt] 0.50  # [0,1]", md=0.5)
E("t2.hybrid.degree_norm", ["none", "invdeg"], "none", "[msg] must be one of {none,invdeg}; [dflt] none | invdeg")
F("t2.hybrid.max_bonus", 0.0, None, 0.50, "[msg] t2.hybrid.max_bonus must be >= 0; [dflt] 0.50  # >= 0", md=0.5)
I("t2.hybrid.k_max", 1, None, 128, "[msg] t2.hybrid.k_max must be >= 1; [dflt] 128  # >= 1", md=128)
E("t2.reader.mode", ["flat", "partition", "auto"], "flat", "[msg] t2.reader.mode must be one of {flat,partition,auto}")
L("t2.lancedb.partitions.by", ["owner", "quarter"], None, "[msg] t2.lancedb.partitions.by must be a list of strings (e.g., ['owner','quarter'])",
  restricted=0)
E("t2.lancedb.partitions.shard_order", ["lex", "score"], None, "[msg] t2.lancedb.partitions.shard_order must be 'lex' or 'score'")
B("t2.quality.enabled", False, "[yaml] t2.quality.enabled: false")
B("t2.quality.shadow", False, "[yaml] t2.quality.shadow: false")
S("t2.quality.trace_dir", "logs/quality", "[msg] t2.quality.trace_dir must be a non-empty string path", mn=WD + "/q", md=WD + "/quality", mx=WD + "/" + "q" * 120)
B("t2.quality.redact", True, "[yaml] t2.quality.redact: true")
B("t2.quality.normalizer.enabled", None, "[yaml] normalizer block")
E("t2.quality.normalizer.case", ["lower"], "lower", "[msg] t2.quality.normalizer.case must be 'lower'")
E("t2.quality.normalizer.unicode", ["NFKC"], "NFKC", "[msg] t2.quality.normalizer.unicode must be 'NFKC'")
S("t2.quality.normalizer.stopwords", None, "[msg] t2.quality.normalizer.stopwords must be a non-empty string", mn="b", md="builtin")
E("t2.quality.normalizer.stemmer", ["none", "porter-lite"], None, "[msg] must be one of {none,porter-lite}")
I("t2.quality.normalizer.min_token_len", 1, None, None, "[msg] t2.quality.normalizer.min_token_len must be >= 1", mx=64, md=2)
B("t2.quality.aliasing.enabled", None, "[yaml] aliasing.enabled")
S("t2.quality.aliasing.map_path", None, "[msg] t2.quality.aliasing.map_path must be a non-empty string path", mn=WD + "/m", md=WD + "/aliases.yaml", mx=WD + "/" + "m" * 120)
I("t2.quality.aliasing.max_expansions_per_token", 0, None, None, "[msg] must be >= 0", mx=64, md=2)
B("t2.quality.lexical.enabled", None, "[yaml] lexical.enabled")
F("t2.quality.lexical.bm25_k1", 0.0, None, 1.2, "[msg] t2.quality.lexical.bm25_k1 must be a number >= 0 (type-checked)", mx=10.0, md=1.2, st=1)
F("t2.quality.lexical.bm25_b", 0.0, 1.0, 0.75, "[msg] t2.quality.lexical.bm25_b must be a number in [0,1] (type-checked)", md=0.75, st=1)
E("t2.quality.lexical.stopwords", ["none", "en-basic"], "en-basic", "[msg] t2.quality.lexical.stopwords must be one of {\"none\",\"en-basic\"}")
F("t2.quality.lexical.bm25.k1", None, None, None, "[yaml] bm25: { k1: 1.2 } (number, coerced); [msg] must be a finite number", mn=0.0, mx=10.0, md=1.2)
F("t2.quality.lexical.bm25.b", None, None, None, "[yaml] bm25: { b: 0.75 } (number, coerced); [msg] must be a finite number", mn=0.0, mx=1.0, md=0.75)
I("t2.quality.lexical.bm25.doclen_floor", 0, None, None, "[msg] t2.quality.lexical.bm25.doclen_floor must be >= 0", mx=10000, md=10)
B("t2.quality.fusion.enabled", None, "[yaml] fusion.enabled")
E("t2.quality.fusion.mode", ["score_interp"], "score_interp", "[msg] t2.quality.fusion.mode only \"score_interp\" is supported in PR37")
F("t2.quality.fusion.alpha_semantic", 0.0, 1.0, 0.6, "[msg] t2.quality.fusion.alpha_semantic must be a number in [0,1] (type-checked)", md=0.7, st=1)
E("t2.quality.fusion.score_norm", ["zscore", "minmax"], None, "[msg] t2.quality.fusion.score_norm must be one of {zscore,minmax}")
B("t2.quality.mmr.enabled", None, "[yaml] mmr.enabled")
F("t2.quality.mmr.lambda", 0.0, 1.0, None, "[msg] t2.quality.mmr.lambda must be in [0,1]", md=0.5)
F("t2.quality.mmr.lambda_relevance", 0.0, 1.0, None, "[msg] (legacy alias) t2.quality.mmr.lambda must be in [0,1]", md=0.75, msg="t2.quality.mmr.lambda", al="t2.quality.mmr.lambda")
B("t2.quality.mmr.diversity_by_owner", None, "[yaml] mmr.diversity_by_owner")
B("t2.quality.mmr.diversity_by_token", None, "[yaml] mmr.diversity_by_token")
I("t2.quality.mmr.k", 1, None, None, "[msg] t2.quality.mmr.k must be >= 1", md=8)
I("t2.quality.mmr.k_final", 1, None, None, "[msg] t2.quality.mmr.k_final must be >= 1 (legacy alias: 'prefer canonical k, fall back to k_final')", md=8, al="t2.quality.mmr.k")
# ---- t3 -------------------------------------------------------------------------------------
I("t3.max_rag_loops", 0, 1, 1, "[msg] t3.max_rag_loops must be 0 or 1 (only one-shot supported); [dflt] 1")
I("t3.max_ops_per_turn", 1, 16, 8, "[msg] t3.max_ops_per_turn must be in [1, 16]; [dflt] 8", md=3)
E("t3.backend", ["rulebased", "llm"], "rulebased", "[msg] t3.backend must be one of {rulebased,llm}")
I("t3.tokens", 1, None, 256, "[msg] t3.tokens must be >= 1; [yaml] 256", md=256)
F("t3.temp", 0.0, 1.0, 0.7, "[msg] t3.temp must be in [0,1]", md=0.2)
B("t3.allow_reflection", False, "[dflt] allow_reflection False; [m10]")
B("t3.apply_ops", False, "[yaml] t3.apply_ops: false")
S("t3.dialogue.template", None, "[msg] t3.dialogue.template must be a non-empty string", mn="x", md="{style_prefix}| summary: {labels}. next: {intent}", mx="t" * 300)
I("t3.dialogue.include_top_k_snippets", 0, None, None, "[msg] t3.dialogue.include_top_k_snippets must be >= 0; [yaml] 2", mx=64, md=2)
F("t3.policy.tau_high", 0.0, 1.0, None, "[msg] t3.policy.tau_high must be in [0,1]; [yaml] 0.8", md=0.8)
F("t3.policy.tau_low", 0.0, 1.0, None, "[msg] t3.policy.tau_low must be in [0,1]; [yaml] 0.4", md=0.4)
F("t3.policy.epsilon_edit", 0.0, 1.0, None, "[msg] t3.policy.epsilon_edit must be in [0,1]; [yaml] 0.10", md=0.1)
E("t3.reflection.backend", ["rulebased", "llm"], "rulebased", "[msg] t3.reflection.backend must be one of {rulebased,llm}; [m10]")
I("t3.reflection.summary_tokens", 0, None, 128, "[msg] t3.reflection.summary_tokens must be >= 0; [dflt] 128", md=128)
B("t3.reflection.embed", True, "[dflt] reflection.embed True; [m10]")
B("t3.reflection.log", True, "[dflt] reflection.log True; [m10]")
I("t3.reflection.topk_snippets", 0, None, 3, "[msg] t3.reflection.topk_snippets must be >= 0; [dflt] 3", mx=64, md=3)
E("t3.llm.provider", ["fixture", "ollama"], "fixture", "[msg] t3.llm.provider must be one of {fixture,ollama}")
S("t3.llm.model", "qwen3:4b-instruct-q4_K_M", "[msg] t3.llm.model must be a non-empty string", mn="m", md="qwen3:4b-instruct")
S("t3.llm.endpoint", "http://localhost:11434/api/generate", "[msg] t3.llm.endpoint must be a non-empty string", mn="e", md="http://localhost:11434/api/generate")
I("t3.llm.max_tokens", 1, None, 256, "[msg] t3.llm.max_tokens must be >= 1; [dflt] 256", md=256)
F("t3.llm.temp", 0.0, 1.0, 0.2, "[msg] t3.llm.temp must be in [0,1]; [dflt] 0.2", md=0.2)
I("t3.llm.timeout_ms", 1, None, 10000, "[msg] t3.llm.timeout_ms must be >= 1; [dflt] 10000", mx=20000, md=10000)
B("t3.llm.fixtures.enabled", False, "[dflt] fixtures.enabled False; [m10] requires non-empty path")
S("t3.llm.fixtures.path", None, "[msg] t3.llm.fixtures.path must be a non-empty string when fixtures.enabled=true; [m10]",
  mn="@FIXTURE@", md="@FIXTURE@", mx="@FIXTURE@", nul=1, soft=1)
# ---- t4 -------------------------------------------------------------------------------------
B("t4.enabled", True, "[dflt] t4.enabled True")
F("t4.delta_norm_cap_l2", 0.0, None, 1.5, "[msg] t4.delta_norm_cap_l2 must be > 0; [dflt] 1.5", lox=1, md=1.5)
F("t4.novelty_cap_per_node", 0.0, 1.0, 0.3, "[msg] t4.novelty_cap_per_node must be in (0, 1]; [dflt] 0.3", lox=1, md=0.3)
I("t4.churn_cap_edges", 0, None, 64, "[msg] t4.churn_cap_edges must be >= 0; [dflt] 64", md=64)
M("t4.cooldowns", 0, {}, "[msg] t4.cooldowns[<k>] must be >= 0; keys must be strings (op kinds); [yaml] {EditGraph: 2, CreateGraph: 10}",
  mn={}, mx={"EditGraph": 2, "CreateGraph": 1000}, md={"EditGraph": 2})
F("t4.weight_min", -1.0, 1.0, -1.0, "[msg] t4.weight_min must be in [-1.0, 1.0]; [dflt] -1.0", md=-0.5)
F("t4.weight_max", -1.0, 1.0, 1.0, "[msg] t4.weight_max must be in [-1.0, 1.0]; [dflt] 1.0", md=0.5)
I("t4.snapshot_every_n_turns", 1, None, 1, "[msg] t4.snapshot_every_n_turns must be >= 1; [dflt] 1", md=2)
S("t4.snapshot_dir", "./.data/snapshots", "[msg] t4.snapshot_dir must be a non-empty string path", mn=WD + "/s", md=WD + "/snapshots", mx=WD + "/" + "s" * 120)
E("t4.cache_bust_mode", ["none", "on-apply"], "on-apply", "[msg] t4.cache_bust_mode must be one of {none,on-apply}")
B("t4.cache.enabled", True, "[dflt] t4.cache.enabled True")
L("t4.cache.namespaces", ["t2:semantic"], ["t2:semantic"], "[msg] t4.cache.namespaces must be a list of strings; unknown namespace (allowed: ['t2:semantic']); [yaml] []")
I("t4.cache.max_entries", 0, None, 512, "[msg] t4.cache.max_entries must be >= 0; [dflt] 512")
I("t4.cache.ttl_sec", 0, None, 600, "[msg] t4.cache.ttl_sec must be >= 0; [dflt] 600")
I("t4.cache.ttl_s", 0, None, None, "[dflt] alias of ttl_sec ('user ttl_sec > user ttl_s'); [msg] path t4.cache.ttl_sec", msg="t4.cache.ttl_sec", al="t4.cache.ttl_sec")
# ---- graph ----------------------------------------------------------------------------------
B("graph.enabled", False, "[dflt]/[m11] graph.enabled False")
F("graph.coactivation_threshold", 0.0, 1.0, 0.20, "[msg] graph.coactivation_threshold must be in [0, 1]; [dflt] 0.20", md=0.2)
I("graph.observe_top_k", 1, None, 64, "[msg] graph.observe_top_k must be >= 1; [dflt] 64", md=64)
I("graph.pair_cap_per_obs", 0, None, 2048, "[msg] graph.pair_cap_per_obs must be >= 0; [dflt] 2048", mx=4096, md=2048)
E("graph.update.mode", ["additive", "proportional"], "additive", "[msg] graph.update.mode must be one of {additive,proportional}")
F("graph.update.alpha", 0.0, None, 0.02, "[msg] graph.update.alpha must be > 0; [dflt] 0.02", lox=1, mx=1.0, md=0.02)
F("graph.update.clamp_min", None, None, -1.0, "[dflt]/[m11] clamp_min -1.0 (number; rules clamp_min < clamp_max, clamp_min <= 0 <= clamp_max)", mn=-1.0, mx=0.125, md=-0.9)
F("graph.update.clamp_max", None, None, 1.0, "[dflt]/[m11] clamp_max 1.0 (number; rules clamp_min < clamp_max, clamp_min <= 0 <= clamp_max)", mn=0.25, mx=1.0, md=0.9)
I("graph.decay.half_life_turns", 1, None, 200, "[msg] graph.decay.half_life_turns must be >= 1; [dflt] 200", md=200)
F("graph.decay.floor", 0.0, None, 0.0, "[msg] graph.decay.floor must be >= 0; must be <= graph.update.clamp_max; [dflt] 0.0", mx=0.25, md=0.01)
B("graph.merge.enabled", False, "[dflt] merge.enabled False")
I("graph.merge.min_size", 2, None, 3, "[msg] graph.merge.min_size must be >= 2; [dflt] 3", mx=64, md=3)
F("graph.merge.min_avg_w", 0.0, 1.0, 0.20, "[msg] graph.merge.min_avg_w must be in [0, 1]; [dflt] 0.20", mn=0.125, md=0.2)
I("graph.merge.max_diameter", 1, None, 2, "[msg] graph.merge.max_diameter must be >= 1; [dflt] 2", mx=64, md=2)
I("graph.merge.cap_per_turn", 0, None, 4, "[msg] graph.merge.cap_per_turn must be >= 0; [dflt] 4", mx=64, md=4)
B("graph.split.enabled", False, "[dflt] split.enabled False")
F("graph.split.weak_edge_thresh", 0.0, 1.0, 0.05, "[msg] graph.split.weak_edge_thresh must be in [0, 1]; should be <= graph.merge.min_avg_w; [dflt] 0.05", mx=0.125, md=0.05)
I("graph.split.min_component_size", 2, None, 2, "[msg] graph.split.min_component_size must be >= 2; [dflt] 2", mx=64, md=3)
I("graph.split.cap_per_turn", 0, None, 4, "[msg] graph.split.cap_per_turn must be >= 0; [dflt] 4", mx=64, md=4)
B("graph.promotion.enabled", False, "[dflt] promotion.enabled False")
E("graph.promotion.label_mode", ["lexmin", "concat_k"], "lexmin", "[msg] graph.promotion.label_mode must be one of {lexmin,concat_k}")
I("graph.promotion.topk_label_ids", 1, None, 3, "[msg] graph.promotion.topk_label_ids must be >= 1; [dflt] 3", mx=64, md=3)
F("graph.promotion.attach_weight", -1.0, 1.0, 0.5, "[msg] graph.promotion.attach_weight must be in [-1, 1]; [dflt] 0.5  # [-1,1]", md=0.5)
I("graph.promotion.cap_per_turn", 0, None, 2, "[msg] graph.promotion.cap_per_turn must be >= 0; [dflt] 2", mx=64, md=2)
# ---- scheduler ------------------------------------------------------------------------------
B("scheduler.enabled", False, "[dflt] scheduler.enabled False")
E("scheduler.policy", ["round_robin", "fair_queue"], "round_robin", "[msg] scheduler.policy must be one of {round_robin, fair_queue}")
I("scheduler.quantum_ms", 1, None, 20, "[msg] scheduler.quantum_ms must be >= 1; [dflt] 20", mx=200, md=20)
I("scheduler.budgets.t1_pops", 0, None, None, "[msg] scheduler.budgets.t1_pops must be >= 0 (or null); [dflt] None", nul=1, md=10)
I("scheduler.budgets.t1_iters", 0, None, 50, "[msg] scheduler.budgets.t1_iters must be >= 0 (or null); [dflt] 50", nul=1, md=50)
I("scheduler.budgets.t2_k", 0, None, 64, "[msg] scheduler.budgets.t2_k must be >= 0 (or null); [dflt] 64", nul=1, md=64)
I("scheduler.budgets.t3_ops", 0, None, 3, "[msg] scheduler.budgets.t3_ops must be >= 0 (or null); [dflt] 3", nul=1, md=3)
I("scheduler.budgets.time_ms_reflection", 1, None, 6000, "[msg] scheduler.budgets.time_ms_reflection must be >= 1 (or null); [dflt] 6000", nul=1, mx=100000, md=6000)
I("scheduler.budgets.ops_reflection", 0, None, 5, "[msg] scheduler.budgets.ops_reflection must be >= 0 (or null); [dflt] 5", nul=1, md=5)
I("scheduler.budgets.wall_ms", 1, None, 200, "[msg] scheduler.budgets.wall_ms must be >= 1 (or null); must be >= scheduler.quantum_ms; [dflt] 200",
  nul=1, mn=200, mx=100000, md=400)
I("scheduler.fairness.max_consecutive_turns", 1, None, 1, "[msg] scheduler.fairness.max_consecutive_turns must be >= 1; [dflt] 1", mx=64, md=2)
I("scheduler.fairness.aging_ms", 0, None, 200, "[msg] scheduler.fairness.aging_ms must be >= 0; [dflt] 200", md=200)
# ---- perf -----------------------------------------------------------------------------------
B("perf.enabled", False, "[dflt] perf.enabled False")
I("perf.t1.queue_cap", 1, None, None, "[msg] perf.t1.queue_cap must be >= 1; [yaml] 10000", mx=100000, md=10000)
I("perf.t1.dedupe_window", 1, None, None, "[msg] perf.t1.dedupe_window must be >= 1; [yaml] 8192", mx=100000, md=8192)
I("perf.t1.cache.max_entries", 0, None, None, "[msg] perf.t1.cache.max_entries must be >= 0; [yaml] 512", md=512)
I("perf.t1.cache.max_bytes", 0, None, None, "[msg] perf.t1.cache.max_bytes must be >= 0; [yaml] 64000000", mx=1000000, md=64000)
I("perf.t1.caps.frontier", 1, None, None, "[msg] perf.t1.caps.frontier must be >= 1", mx=100000, md=100)
I("perf.t1.caps.visited", 1, None, None, "[msg] perf.t1.caps.visited must be >= 1", mx=100000, md=100)
E("perf.t2.embed_dtype", ["fp32", "fp16"], None, "[msg] perf.t2.embed_dtype must be one of {fp32,fp16}")
E("perf.t2.embed_store_dtype", ["fp32", "fp16"], None, "[msg] perf.t2.embed_store_dtype must be one of {fp32,fp16}")
B("perf.t2.precompute_norms", None, "[yaml] perf.t2.precompute_norms: true")
I("perf.t2.cache.max_entries", 0, None, None, "[msg] perf.t2.cache.max_entries must be >= 0; [yaml] 512", md=512)
I("perf.t2.cache.max_bytes", 0, None, None, "[msg] perf.t2.cache.max_bytes must be >= 0; [yaml] 128000000", mx=1000000, md=128000)
B("perf.t2.reader.partitions.enabled", None, "[yaml]/PR33 partitions.enabled")
E("perf.t2.reader.partitions.layout", ["owner_quarter", "none"], None, "[msg] perf.t2.reader.partitions.layout must be one of {owner_quarter,none}")
S("perf.t2.reader.partitions.path", None, "[msg] perf.t2.reader.partitions.path must be a non-empty string", mn=WD + "/p", md=WD + "/parts", mx=WD + "/" + "p" * 120)
L("perf.t2.reader.partitions.by", ["owner", "quarter"], None, "[msg] perf.t2.reader.partitions.by must be a non-empty list of strings; unknown partition field (allowed: ['owner', 'quarter'])",
  ne=1)
E("perf.snapshots.compression", ["none", "zstd"], None, "[msg] perf.snapshots.compression must be one of {none,zstd}")
I("perf.snapshots.level", 1, 19, None, "[msg] perf.snapshots.level must be in [1,19]; [yaml] 3", md=3)
B("perf.snapshots.delta_mode", None, "[yaml] perf.snapshots.delta_mode: false")
I("perf.snapshots.every_n_turns", 1, None, None, "[msg] perf.snapshots.every_n_turns must be >= 1; [yaml] 1", mx=64, md=2)
B("perf.metrics.report_memory", False, "[dflt] perf.metrics.report_memory False")
B("perf.parallel.enabled", False, "[m9] perf.parallel.enabled bool false")
I("perf.parallel.max_workers", None, None, 0, "[m9] max_workers int; '<=1 => sequential'; '-3 normalizes to 0 (sequential) by design'",
  mn=-3, mx=4, md=1, normlo=0)
B("perf.parallel.t1", None, "[m9] perf.parallel.t1 bool false")
B("perf.parallel.t2", None, "[m9] perf.parallel.t2 bool false")
B("perf.parallel.agents", None, "[m9] perf.parallel.agents bool false")

NF = len(FIELDS)
NS = len(SECTIONS)
FI = {f["path"]: i + 1 for i, f in enumerate(FIELDS)}
assert len(FI) == NF

# cross-field rules (spec RuleOK): name -> (fields involved, message path used by the validator)
RULES = {
    "R1": (["t4.weight_min", "t4.weight_max"], "t4.weight_min/weight_max"),           # [msg] must satisfy weight_min < weight_max
    "R2": (["t3.policy.tau_high", "t3.policy.tau_low"], "t3.policy"),                 # [msg] tau_high should be >= tau_low (both present)
    "R3": (["scheduler.budgets.wall_ms", "scheduler.quantum_ms"], "scheduler.budgets.wall_ms"),   # [msg] must be >= scheduler.quantum_ms
    "R4": (["graph.update.clamp_min", "graph.update.clamp_max"], "graph.update.clamp_min/clamp_max"),  # [msg] clamp_min < clamp_max
    "R5": (["graph.decay.floor", "graph.update.clamp_max"], "graph.decay.floor"),     # [msg] must be <= graph.update.clamp_max
    "R6": (["graph.split.weak_edge_thresh", "graph.merge.min_avg_w"], "graph.split.weak_edge_thresh"),  # [msg] should be <= graph.merge.min_avg_w
    "R7": (["t3.llm.fixtures.enabled", "t3.llm.fixtures.path"], "t3.llm.fixtures.path"),   # [msg]/[m10] non-empty string when fixtures.enabled=true
    "R8": (["t3.allow_reflection", "t3.reflection.backend", "t3.llm.fixtures.enabled", "t3.llm.fixtures.path"], "t3.llm.fixtures"),  # [msg]/[m10]
    "R9": (["graph.update.clamp_min", "graph.update.clamp_max"], "graph.update.clamp_min/clamp_max"),  # [msg] must satisfy clamp_min <= 0 <= clamp_max (weights decay towards 0)
}


def milli(v) -> int:
    """the spec's integer image of a valid corner value / default"""
    if v is None:
        return 0
    if isinstance(v, bool):
        return 1000 if v else 0
    if isinstance(v, (int, float)):
        return int(round(v * 1000))
    return 0


def spec_row(i: int) -> Dict[str, Any]:
    """the columns that must equal the spec's table row i (1-based)"""
    f = FIELDS[i - 1]
    k = f["kind"]
    row = {"n": f["path"], "k": k, "sec": SEC_INDEX[f["sec"]],
           "hl": int(f["lo"] is not None), "lv": milli(f["lo"]) if k in ("int", "float", "map") else 0, "lx": int(f["lox"]),
           "hh": int(f["hi"] is not None), "hv": milli(f["hi"]) if k in ("int", "float") else 0, "hx": int(f["hix"]),
           "nul": int(f["nul"]), "soft": int(f["soft"]), "ne": int(f["ne"]), "hm": int(f["md"] is not None),
           "al": FI[f["al"]] if f["al"] else 0, "st": int(f["st"]), "cap": int(f["cap"] is not None)}
    if k in ("int", "float", "bool"):
        row.update(d=milli(f["dflt"]), hd=int(f["dflt"] is not None), mn=milli(f["mn"]), mx=milli(f["mx"]), md=milli(f["md"]))
    elif k == "enum":
        e = f["enum"]
        ix = lambda v: (e.index(v) + 1) * 1000 if v in e else 0
        row.update(d=ix(f["dflt"]), hd=int(f["dflt"] is not None), mn=ix(f["mn"]), mx=ix(f["mx"]), md=ix(f["md"]))
    else:
        row.update(d=0, hd=int(f["dflt"] is not None), mn=1000, mx=1000, md=1000)
    return row


def spec_section_row(j: int) -> Dict[str, Any]:
    p, free, nd = SECTIONS[j - 1]
    parent = 0
    if p:
        pp = p.rsplit(".", 1)[0] if "." in p else ""
        parent = SEC_INDEX[pp]
    return {"n": p, "parent": parent, "free": free, "ndrej": nd}
