"""C06 — snapshots round-trip the state they were written from.

(M)    Snapshot.tla: version x store weights x GEL (nodes dict/list, edge listings in dict/list form,
       either orientation, duplicate pairs, weight classes on an exact 1e-7 grid, meta shapes) x
       configured bounds (graph.* / t4.* / defaults / epsilon).  `Sanitise` is transcribed from the
       documentation; TLC checks Idempotent, RestoreVersion/Weights/Gel, WriteLoadWriteFixpoint,
       KeysCanonical, OnGrid6, InBounds on every enumerated state.  SnapshotDir.tla: every subset of
       a table of bodies / sidecars / temporaries / strangers x modification orders with the
       documented discovery precedence; DiscoveryNeverSidecarOrTemp.
(S->C)  every enumerated state: write_snapshot -> bytes1 -> fresh state + load_latest_snapshot ->
       projection (version, weights, GEL nodes/edges/meta) compared with the spec -> write_snapshot
       again -> bytes2; byte equality of body and sidecar; schema marker in body and sidecar.  Every
       enumerated directory is built on disk and _pick_latest_snapshot_path /
       get_latest_snapshot_info / load_latest_snapshot are compared with the admissible set.
(rand) states produced by random GEL histories (gel.observe_retrieval / gel.tick) plus perturbations
       (ties, huge, non-finite, flipped orientation, list form) are round-tripped through a chain
       write-load-write-load-write against an exact decimal oracle.  See c06_random.py.
"""
from __future__ import annotations

import json
import math
import os
import shutil
from types import SimpleNamespace
from typing import Any, Dict, List, Tuple

from ..util import Def, make_cfg, pmap, split_defs

MANIFEST = {
    "technique": "TLA+ model of snapshot write/load with a documentation-derived Sanitise on an exact 1e-7 weight grid, model-checked with TLC (idempotence, restore, fixpoint) over all small states; every enumerated state and every enumerated snapshot directory replayed on the real write_snapshot / load_latest_snapshot / discovery; random GEL histories round-tripped against an exact decimal oracle",
    "text": "Exhaustive small-scope enumeration (TLC) of versions, store weight maps, GEL nodes/edges/meta shapes, weight classes (in range, 7 decimals, below/above bounds, NaN, +-inf, tiny) and bound configurations; for each state the real code writes, loads into a fresh state and writes again: restored version, weights and GEL are compared with the spec's sanitised projection, bodies and sidecars are compared byte for byte, schema markers are checked; every subset of a directory table (bodies, sidecars, atomic-writer temporaries, strangers) under several modification orders is built on disk and discovery is compared with the documented admissible set; random GEL histories are round-tripped through write-load chains.",
    "note": "Only codec 'none' (zstandard is not installed). Weights in the exhaustive part are multiples of 1e-7 without a 7th digit 5 (exact rounding ties are exercised only in the random part, where both neighbours are admitted). For duplicate canonical pairs any listed candidate is admitted. Ids containing the canonical-key arrow in a colliding way are outside the alphabet.",
}

EPOCH = 315532800
CREATED_AT = "1980-01-01T00:00:00Z"
SCHEMA = "v1"                       # docs/m13/snapshot_freeze.md (frozen)
U7 = 1e7

# concretisation tables (integer order == python string order)
IDSETS = {
    "uni": {0: "", 1: "B:1", 2: "a.b", 3: "é→x"},
    "us": {0: "", 1: "a", 2: "a__a", 3: "a__a__a"},     # separator-looking ids
}
RELS = {1: "coact", 2: "assoc"}
VERSIONS = {"num": "7", "alpha": "v-é7", "empty": ""}
AGENTS = {"A": "A", "uni": "Ägent 1"}
WKEYS = {1: ("node", "n:é", "weight"), 2: ("edge", "a→b", "weight"), 3: ("node", "", "bias")}
_ABSENT = object()
METAS = {
    "absent": _ABSENT,
    "none": None,
    "good": {"schema": "v1", "merges": [{"into": "n1", "from": ["n2", "é"]}], "splits": [], "promotions": [["p", 1]],
             "concept_nodes_count": 2},
    "partial": {"merges": [{"m": 1}], "last_update": "2024-01-01T00:00:00Z"},
    "badfields": {"merges": "x", "splits": None, "promotions": {"a": 1}, "concept_nodes_count": "z"},
    "list": ["m"],
    "str": "m",
}
META_EXP = {
    "good": {"merges": [{"into": "n1", "from": ["n2", "é"]}], "splits": [], "promotions": [["p", 1]], "concept_nodes_count": 2},
    "partial": {"merges": [{"m": 1}], "splits": [], "promotions": [], "concept_nodes_count": 0},
    "default": {"merges": [], "splits": [], "promotions": [], "concept_nodes_count": 0},
}


# ---------------------------------------------------------------------------------------------
# store doubles (the shapes used by the repository's own loader tests)
class WStore:
    """weights-only store: snapshot falls back to the `.w` map"""
    def __init__(self):
        self.w: Dict[tuple, float] = {}


class ExpImpStore:
    """store with export_state / import_state"""
    def __init__(self):
        self.w: Dict[tuple, float] = {}

    def export_state(self):
        return {"weights": [{"target_kind": k, "target_id": i, "attr": a, "value": float(v)} for (k, i, a), v in self.w.items()]}

    def import_state(self, obj):
        self.w.clear()
        for it in (obj or {}).get("weights", []):
            self.w[(str(it["target_kind"]), str(it["target_id"]), str(it["attr"]))] = float(it["value"])


def mk_store(kind):
    return None if kind == "none" else (WStore() if kind == "w" else ExpImpStore())


def tokf(t) -> float:
    c = t["c"]
    if c == "fin":
        return t["v"] / U7
    return {"nan": math.nan, "pinf": math.inf, "ninf": -math.inf}[c]


def feq(a, b) -> bool:
    if isinstance(a, float) and isinstance(b, float) and math.isnan(a) and math.isnan(b):
        return True
    return a == b


def fresh_dir(d: str) -> None:
    if os.path.isdir(d):
        for e in os.scandir(d):
            if e.is_dir(follow_symlinks=False):
                shutil.rmtree(e.path, ignore_errors=True)
            else:
                os.unlink(e.path)
    else:
        os.makedirs(d, exist_ok=True)


def worker_dir(base: str) -> str:
    d = os.path.join(base, f"w{os.getpid()}")
    fresh_dir(d)
    return d


def mk_ctx(d: str, agent: str, bnd: Dict[str, Any]):
    """cfg for a bounds record [name, lo, hi, eps] (1e-7 units)"""
    t4: Dict[str, Any] = {"snapshot_dir": d}
    graph: Dict[str, Any] = {"enabled": True}
    name = bnd["name"]
    lo, hi = bnd["lo"] / U7, bnd["hi"] / U7
    if name == "t4default":
        assert (bnd["lo"], bnd["hi"]) == (-10 ** 7, 10 ** 7)
    elif name.startswith("t4"):
        t4["weight_min"], t4["weight_max"] = lo, hi
    elif name.startswith("graph"):
        graph["weight_min"], graph["weight_max"] = lo, hi
        t4["weight_min"], t4["weight_max"] = -0.0625, 0.0625        # decoy: graph.* wins when present
    else:
        raise ValueError(name)
    if bnd["eps"]:
        graph["decay"] = {"epsilon_prune": bnd["eps"] / U7}
    return SimpleNamespace(cfg={"t4": t4, "graph": graph}, agent_id=agent, turn_id=3)


def sget(state, key, default=None):
    return state.get(key, default) if isinstance(state, dict) else getattr(state, key, default)


def mk_state(sform: str, gkey: str, gel, store):
    st: Dict[str, Any] = {}
    if gel is not None:
        st[gkey] = gel
    if store is not None:
        st["store"] = store
    return st if sform == "dict" else SimpleNamespace(**st)


def node_rec(nid: str) -> Dict[str, Any]:
    return {"id": nid, "label": "L:" + nid, "attrs": {"k": 1}}


def build_gel(g: Dict[str, Any], ids: Dict[int, str]) -> Dict[str, Any]:
    nids = [ids[i] for i in sorted(g["nodes"])]
    nodes: Any = {n: node_rec(n) for n in nids} if g["nform"] == "dict" else [node_rec(n) for n in nids]
    recs = []
    for i, e in enumerate(g["edges"]):
        recs.append({"src": ids[e["s"]], "dst": ids[e["d"]], "rel": RELS[e["r"]], "weight": tokf(e["w"]),
                     "updated_at": None, "attrs": {"coact": i + 1, "last_seen_turn": None}})
    if g["eform"] == "list":
        edges: Any = recs
    else:
        edges = {}
        for i, r in enumerate(recs):
            if g["eform"] == "dictk":
                lo, hi = sorted((r["src"], r["dst"]))
                k = f"{lo}→{hi}"
                if k in edges:
                    k = f"{k}#{i}"
            else:
                k = f"e{i}"
            edges[k] = dict(r, id=k)
    gel: Dict[str, Any] = {"nodes": nodes, "edges": edges}
    m = METAS[g["meta"]]
    if m is not _ABSENT:
        gel["meta"] = json.loads(json.dumps(m))
    return gel


def wclass(tok, bnd) -> str:
    c = tok["c"]
    if c != "fin":
        return c
    v = tok["v"]
    if v < bnd["lo"]:
        return "below"
    if v > bnd["hi"]:
        return "above"
    if abs(v) < 10:
        return "tiny"
    if v % 10:
        return "dec7"
    return "inrange"


WCLASS_PRIORITY = ["nan", "pinf", "ninf", "below", "above", "tiny", "dec7", "inrange"]


def top_class(classes) -> str:
    """the most special weight class among the edges listed for one canonical pair"""
    return next((c for c in WCLASS_PRIORITY if c in classes), "none")


def signature(case, diff: str, pair=None, dropped=False) -> Dict[str, Any]:
    """why a clause failed, from the features of the case (one signature per defect class)"""
    g, bnd = case["gel"], case["bnd"]
    if dropped and g["meta"] in ("list", "str"):
        return {"feature": "meta-not-dict"}
    if diff == "weight" and pair is not None:
        cls = {wclass(e["w"], bnd) for e in g["edges"] if tuple(sorted((e["s"], e["d"]))) == tuple(pair)}
        return {"feature": "weight:" + top_class(cls), "zero_in_bounds": bnd["lo"] <= 0 <= bnd["hi"]}
    if diff in ("edge-lost", "edge-extra"):
        return {"feature": diff, "ids": case["aux"]["ids"], "empty_id": any(0 in (e["s"], e["d"]) for e in g["edges"])}
    return {"feature": diff}


def gel_projection_fails(case, gel_obj, ids, orig_nodes) -> List[Tuple[str, Any, str]]:
    """RestoreGel: compare a restored GEL with the spec's expected projection -> [(diff, pair, msg)]"""
    out: List[Tuple[str, Any, str]] = []
    exp = case["exp"]
    if not isinstance(gel_obj, dict):
        return [("gel-missing", None, f"restored graph is {type(gel_obj).__name__}")]
    # nodes
    got_nodes = gel_obj.get("nodes")
    want_ids = [ids[i] for i in sorted(exp["nodes"])]
    if not isinstance(got_nodes, dict) or sorted(got_nodes) != sorted(want_ids):
        out.append(("nodes", None, f"nodes {sorted(got_nodes) if isinstance(got_nodes, dict) else got_nodes!r}, spec says {want_ids}"))
    else:
        for n in want_ids:
            if got_nodes[n] != orig_nodes[n]:
                out.append(("node-record", None, f"node {n!r}: {got_nodes[n]!r} != written {orig_nodes[n]!r}"))
                break
    # edges
    got_edges = gel_obj.get("edges")
    if not isinstance(got_edges, dict):
        return out + [("edges-missing", None, f"edges container is {type(got_edges).__name__}")]
    want = {(ids[e["lo"]], ids[e["hi"]]): (e, [(a["w"] / U7, RELS[a["r"]]) for a in e["adm"]]) for e in exp["edges"]}
    seen = {}
    for k, rec in got_edges.items():
        if not isinstance(rec, dict):
            out.append(("edge-record", None, f"edge {k!r} is not a record"))
            continue
        s, d = rec.get("src"), rec.get("dst")
        pr = tuple(sorted((s, d))) if isinstance(s, str) and isinstance(d, str) else (s, d)
        # one edge per canonical pair; the documentation is silent about pairs with an empty end-point
        # (no canonical "src→dst" key exists), there one record per rel is tolerated
        tag = pr if (pr[0] and pr[1]) else (pr, rec.get("rel"))
        if tag in seen:
            out.append(("edge-extra", None, f"canonical pair {pr} restored twice ({seen[tag]!r} and {k!r})"))
            continue
        seen[tag] = k
        seen.setdefault(pr, k)
        if pr not in want:
            out.append(("edge-extra", None, f"edge {k!r} {pr} was never written"))
            continue
        e, adm = want[pr]
        w = rec.get("weight")
        if not any(isinstance(w, float) and w == aw and rec.get("rel") == ar for aw, ar in adm):
            out.append(("weight", (e["lo"], e["hi"]), f"edge {k!r}: (weight, rel) = ({w!r}, {rec.get('rel')!r}), spec admits {adm}"))
        if pr[0] and pr[1]:
            ck = f"{pr[0]}→{pr[1]}"
            if k != ck or rec.get("id") != ck:
                out.append(("key-not-canonical", None, f"edge {pr}: key {k!r} id {rec.get('id')!r}, canonical key is {ck!r}"))
    for pr in want:
        if pr not in seen:
            out.append(("edge-lost", None, f"edge {pr} was written but is not restored (restored keys {list(got_edges)})"))
    # meta
    me = META_EXP[exp["meta"]]
    gm = gel_obj.get("meta")
    if not isinstance(gm, dict):
        out.append(("meta", None, f"meta is {gm!r}"))
    else:
        for f, v in me.items():
            if gm.get(f) != v or type(gm.get(f)) is not type(v):
                out.append(("meta", None, f"meta.{f} = {gm.get(f)!r}, spec says {v!r}"))
                break
    return out


def first_diff(a, b, path="") -> str:
    if type(a) is not type(b):
        return path or "/"
    if isinstance(a, dict):
        if list(a) != list(b):
            return (path or "/") + "<keys>"
        for k in a:
            d = first_diff(a[k], b[k], f"{path}/{k}")
            if d:
                return d
        return ""
    if isinstance(a, list):
        if len(a) != len(b):
            return (path or "/") + "<len>"
        for i, (x, y) in enumerate(zip(a, b)):
            d = first_diff(x, y, f"{path}/{i}")
            if d:
                return d
        return ""
    return "" if feq(a, b) and repr(a) == repr(b) else (path or "/")


def marker_fails(path: str, body: bytes) -> List[str]:
    """SchemaMarker: frozen marker in the body and in the sidecar"""
    msgs = []
    try:
        sv = json.loads(body).get("schema_version")
    except Exception as e:
        return [f"body is not JSON: {e}"]
    if sv != SCHEMA:
        msgs.append(f"body schema_version = {sv!r}, frozen marker is {SCHEMA!r}")
    try:
        raw = open(path + ".meta", "rb").read()
        meta = json.loads(raw)
        if meta.get("schema_version") != SCHEMA:
            msgs.append(f"sidecar schema_version = {meta.get('schema_version')!r}")
        if meta.get("created_at") != CREATED_AT:
            msgs.append(f"sidecar created_at = {meta.get('created_at')!r} (SOURCE_DATE_EPOCH={EPOCH})")
        if not raw.endswith(b"\n") or raw.endswith(b"\n\n") or b"\r" in raw:
            msgs.append("sidecar does not end with a single LF")
    except Exception as e:
        msgs.append(f"sidecar unreadable: {type(e).__name__}: {e}")
    return msgs


Fail = Tuple[str, Dict[str, Any], str]


def replay_state(args) -> List[Fail]:
    base, case = args
    os.environ["SOURCE_DATE_EPOCH"] = str(EPOCH)
    from clematis.engine import snapshot as S
    aux, g, bnd = case["aux"], case["gel"], case["bnd"]
    ids = IDSETS[aux["ids"]]
    d = worker_dir(base)
    agent = AGENTS[aux["agent"]]
    ctx = mk_ctx(d, agent, bnd)
    gel = build_gel(g, ids)
    orig_nodes = {ids[i]: node_rec(ids[i]) for i in g["nodes"]}
    store = mk_store(case["skind"])
    wm = {}
    for i, t in enumerate(case["wmap"]):
        if t["c"] != "absent":
            wm[WKEYS[i + 1]] = tokf(t)
    if store is not None:
        store.w.update(wm)
    ver = VERSIONS[case["ver"]]
    st1 = mk_state(aux["sform"], aux["gkey"], gel, store)
    fails: List[Fail] = []
    try:
        p1 = S.write_snapshot(ctx, st1, ver)
        b1 = open(p1, "rb").read()
        m1 = open(p1 + ".meta", "rb").read() if os.path.exists(p1 + ".meta") else None
    except Exception as e:
        return [("RestoreVersion", {"feature": f"write-raised:{type(e).__name__}"}, f"write_snapshot raised {type(e).__name__}: {e}")]
    for m in marker_fails(p1, b1):
        fails.append(("SchemaMarker", {"feature": "marker"}, m))
    if os.path.basename(p1) != f"state_{agent}.json" or os.path.dirname(os.path.abspath(p1)) != os.path.abspath(d):
        fails.append(("SchemaMarker", {"feature": "path"}, f"snapshot written to {p1!r}"))
    stray = sorted(n for n in os.listdir(d) if n not in (os.path.basename(p1), os.path.basename(p1) + ".meta"))
    if stray:
        fails.append(("DiscoveryNeverSidecarOrTemp", {"feature": "writer-leaves-files"}, f"writer left {stray}"))
    # load into a fresh state
    st2 = mk_state(aux["sform"], aux["gkey"], None, mk_store(case["skind"]))
    try:
        info = S.load_latest_snapshot(ctx, st2)
    except Exception as e:
        return fails + [("RestoreVersion", {"feature": f"load-raised:{type(e).__name__}"}, f"load_latest_snapshot raised {type(e).__name__}: {e}")]
    if info.get("path") is None or os.path.abspath(info["path"]) != os.path.abspath(p1):
        fails.append(("DiscoveryNeverSidecarOrTemp", {"feature": "load-picked-other"}, f"loader picked {info.get('path')!r}, written {p1!r} (dir: {sorted(os.listdir(d))})"))
    if not info.get("loaded"):
        fails.append(("RestoreVersion", {"feature": "not-loaded"}, f"load_latest_snapshot reports {info}"))
    # RestoreVersion
    v2 = sget(st2, "version_etag", None)
    if v2 != ver or info.get("version_etag") != ver:
        fails.append(("RestoreVersion", {"feature": "version:" + case["ver"]}, f"written version {ver!r}, restored {v2!r} (info {info.get('version_etag')!r})"))
    # RestoreWeights
    s2 = sget(st2, "store", None)
    if s2 is not None:
        got = dict(s2.w)
        if set(got) != set(wm) or any(not feq(got[k], wm[k]) or type(got[k]) is not float for k in wm):
            fails.append(("RestoreWeights", {"feature": "weights:" + case["skind"]}, f"written weights {wm!r}, restored {got!r}"))
    # RestoreGel
    g2, g2b = sget(st2, "graph", None), sget(st2, "gel", None)
    if g2 != g2b and not (g2 is g2b):
        if first_diff(g2, g2b):
            fails.append(("RestoreGel", {"feature": "graph-gel-mirror"}, "state.graph and state.gel differ after load"))
    # symptom "the whole GEL block was replaced by the empty fallback"
    dropped = isinstance(g2, dict) and not g2.get("nodes") and not g2.get("edges") and bool(g["nodes"] or g["edges"])
    for diff, pair, msg in gel_projection_fails(case, g2, ids, orig_nodes):
        fails.append(("RestoreGel", signature(case, diff, pair, dropped), msg))
    # write again
    try:
        p2 = S.write_snapshot(ctx, st2, v2)
        b2 = open(p2, "rb").read()
        m2 = open(p2 + ".meta", "rb").read() if os.path.exists(p2 + ".meta") else None
    except Exception as e:
        return fails + [("WriteLoadWriteFixpoint", {"feature": f"rewrite-raised:{type(e).__name__}"}, f"second write_snapshot raised {type(e).__name__}: {e}")]
    if b1 != b2:
        fails.append(fixpoint_fail(case, b1, b2))
    elif m1 != m2:
        fails.append(("WriteLoadWriteFixpoint", {"feature": "sidecar-bytes"}, f"sidecars differ: {m1!r} vs {m2!r}"))
    return fails


def fixpoint_diff(b1: bytes, b2: bytes):
    """-> (json path of the first difference, parsed first body or None, message)"""
    try:
        j1, j2 = json.loads(b1), json.loads(b2)
        path = first_diff(j1, j2) or "<bytes-only>"
    except Exception:
        j1 = None
        path = "<not-json>"
    i = next((k for k in range(min(len(b1), len(b2))) if b1[k] != b2[k]), min(len(b1), len(b2)))
    a, b = b1[max(0, i - 60):i + 60], b2[max(0, i - 60):i + 60]
    return path, j1, f"write(load(write(s))) differs from write(s) at {path}: ...{a!r}... vs ...{b!r}..."


def weight_path_edge(path: str, j1):
    """the edge record of the first body when the first difference is gel.edges.<key>.weight"""
    parts = path.split("/")
    if j1 is not None and len(parts) >= 5 and parts[1:3] == ["gel", "edges"] and parts[-1] == "weight":
        return j1["gel"]["edges"].get("/".join(parts[3:-1]), {})
    return None


def generalise(path: str) -> str:
    parts = path.split("/")
    if parts[1:3] in (["gel", "edges"], ["gel", "nodes"]) and len(parts) > 3:
        return "/".join(parts[:3] + ["*", parts[-1]]) if len(parts) > 4 else "/".join(parts[:3] + ["*"])
    return path


def fixpoint_fail(case, b1: bytes, b2: bytes) -> Fail:
    path, j1, msg = fixpoint_diff(b1, b2)
    rec = weight_path_edge(path, j1)
    if rec is not None:
        inv = {v: k for k, v in IDSETS[case["aux"]["ids"]].items()}
        pair = tuple(sorted((inv.get(rec.get("src")), inv.get(rec.get("dst")))))
        sig = signature(case, "weight", pair)
    else:
        sig = signature(case, "fixpoint:" + generalise(path), dropped=(path == "/gel/meta<keys>"))
    return ("WriteLoadWriteFixpoint", sig, msg)


# ---------------------------------------------------------------------------------------------
# discovery
BODY = {"state": '{"turn": 0, "agent": "A", "version_etag": "1", "schema_version": "v1", "store": {}, "gel": {"nodes": {}, "edges": {}}}',
        "pr34": '{"codec":"none","etag_to":"e","level":0,"mode":"full","schema":"snapshot:v1"}\n{"version_etag":"e","gel":{"nodes":{},"edges":{}}}'}


def dir_content(name: str) -> str:
    if name.endswith(".meta"):
        return json.dumps({"created_at": CREATED_AT, "schema_version": SCHEMA}, sort_keys=True) + "\n"
    if name.endswith(".txt"):
        return "operator notes\n"
    if not name.endswith(".json"):
        return BODY["state"][:37]                      # a temporary holds a prefix of a body
    return BODY["pr34"] if name.startswith("snapshot-") else BODY["state"]


def replay_dir(args) -> List[Fail]:
    base, case = args
    from clematis.engine import snapshot as S
    d = worker_dir(base)
    present = set(case["present"])
    for rank, name in enumerate(case["order"]):
        if name in present:
            p = os.path.join(d, name)
            with open(p, "w", encoding="utf-8", newline="\n") as f:
                f.write(dir_content(name))
            t = 1_700_000_000 + 60 * rank
            os.utime(p, (t, t))
    adm = set(case["adm"])
    forb = set(case["forbidden"])
    fails: List[Fail] = []
    ctx = SimpleNamespace(cfg={"t4": {"snapshot_dir": d}}, agent_id="A")
    picks = {}
    try:
        picks["_pick_latest_snapshot_path"] = S._pick_latest_snapshot_path(d)
        info = S.get_latest_snapshot_info(d)
        picks["get_latest_snapshot_info"] = None if info is None else info.get("path")
        picks["load_latest_snapshot"] = S.load_latest_snapshot(ctx, {}).get("path")
    except Exception as e:
        return [("DiscoveryNeverSidecarOrTemp", {"feature": f"discovery-raised:{type(e).__name__}"}, f"discovery raised {type(e).__name__}: {e} on {sorted(present)}")]
    for fn, p in picks.items():
        b = "" if not p else os.path.basename(p)
        if b and (b in forb or not b.endswith(".json")):
            kind = "sidecar" if b.endswith(".meta") else "temp"
            fails.append(("DiscoveryNeverSidecarOrTemp", {"feature": f"picked-{kind}"}, f"{fn} picked {b!r} in {sorted(present)} (newest last: {[n for n in case['order'] if n in present]})"))
        elif b and b not in present:
            fails.append(("DiscoveryNeverSidecarOrTemp", {"feature": "picked-absent"}, f"{fn} returned {p!r} which is not in the directory"))
        elif (b == "") != (adm == {""}):
            fails.append(("DiscoveryNeverSidecarOrTemp", {"feature": "body-not-found" if not b else "found-without-body"}, f"{fn} -> {b!r}, spec admits {sorted(adm)} in {sorted(present)}"))
        elif b not in adm:
            fails.append(("DiscoveryPrecedence", {"feature": "precedence"}, f"{fn} -> {b!r}, documented precedence admits {sorted(adm)} in {sorted(present)} (newest last: {[n for n in case['order'] if n in present]})"))
    return fails


def real_temp_case(args) -> List[Fail]:
    """temporaries as the atomic writer really names them never shadow a body"""
    base, i = args
    from pathlib import Path
    from clematis.engine import snapshot as S
    from clematis.io import atomic as A
    d = worker_dir(base)
    final = ["state_A.json", "snap_000003.json", "snapshot-e.full.json", "state_A.json.meta"][i % 4]
    body = "state_A.json" if not final.endswith(".meta") else "state_A.json"
    fails: List[Fail] = []
    with open(os.path.join(d, body), "w") as f:
        f.write(BODY["state"])
    os.utime(os.path.join(d, body), (1_600_000_000, 1_600_000_000))
    tmps = []
    for _ in range(8):
        t = A._make_tmp(Path(d) / final)
        with open(t, "w") as f:
            f.write(BODY["state"][:20])
        tmps.append(os.path.basename(str(t)))
    for t in tmps:
        if t.endswith(".json") or not t.startswith(final + "."):
            fails.append(("DiscoveryNeverSidecarOrTemp", {"feature": "temp-name-looks-like-body"}, f"atomic writer temporary {t!r} for {final!r}"))
    p = S._pick_latest_snapshot_path(d)
    want = {"state_A.json"} if final != "snap_000003.json" else {"state_A.json"}
    if not p or os.path.basename(p) not in want:
        fails.append(("DiscoveryNeverSidecarOrTemp", {"feature": "picked-temp"}, f"picked {p!r} with real temporaries {tmps} next to {body!r}"))
    return fails


def multi_agent_case(args) -> List[Fail]:
    """several agents share one snapshot directory and write in turn; an agent re-snapshotting a state that did not
    change writes a body identical to the file already there.  After every write, loading into a fresh state restores
    what the LAST writer wrote (discovery = newest write)."""
    base, i = args
    import time as _time
    os.environ["SOURCE_DATE_EPOCH"] = str(EPOCH)
    from clematis.engine import snapshot as S
    d = worker_dir(base)
    bnd = {"name": "t4default", "lo": -10 ** 7, "hi": 10 ** 7, "eps": 0}
    orders = [["A", "B", "A"], ["B", "A", "B", "A"], ["A", "A", "B", "B", "A"], ["Bé", "A", "Bé"], ["A", "B", "C", "A", "B"], ["A", "B", "A", "A"]]
    order = orders[i % len(orders)]
    skind = ["w", "expimp"][(i // len(orders)) % 2]
    world = {}
    for j, ag in enumerate(sorted(set(order))):
        store = mk_store(skind)
        store.w[("node", f"n:{ag}", "weight")] = 0.25 * (j + 1)
        gel = {"nodes": {f"n:{ag}": node_rec(f"n:{ag}"), "n:z": node_rec("n:z")},
               "edges": {f"n:z→n:{ag}": {"id": f"n:z→n:{ag}", "src": "n:z", "dst": f"n:{ag}", "weight": 0.5 - 0.125 * j, "rel": "coact", "attrs": {}}},
               "meta": {"schema": "v1.1", "merges": [], "splits": [], "promotions": [], "concept_nodes_count": 0, "edges_count": 1}}
        world[ag] = (mk_state("dict", "graph", gel, store), str(3 + 4 * j))
    fails: List[Fail] = []
    for step, ag in enumerate(order):
        st, ver = world[ag]
        ctx = mk_ctx(d, ag, bnd)
        try:
            S.write_snapshot(ctx, st, ver)
        except Exception as e:      # noqa: BLE001
            return [("RestoreVersion", {"feature": f"write-raised:{type(e).__name__}"}, f"write_snapshot raised {type(e).__name__}: {e}")]
        st2 = mk_state("dict", "graph", None, mk_store(skind))
        try:
            info = S.load_latest_snapshot(ctx, st2)
        except Exception as e:      # noqa: BLE001
            return [("RestoreVersion", {"feature": f"load-raised:{type(e).__name__}"}, f"load_latest_snapshot raised {type(e).__name__}: {e}")]
        where = f"writes so far {order[:step + 1]} (store {skind})"
        if sget(st2, "version_etag") != ver:
            fails.append(("RestoreVersion", {"feature": "multi-agent-latest"}, f"{where}: loaded version {sget(st2, 'version_etag')!r} from {os.path.basename(str(info.get('path')))}, "
                                                                                f"the last writer {ag!r} wrote {ver!r}"))
            break
        got_w = dict(sget(st2, "store").w)
        if got_w != dict(st["store"].w):
            fails.append(("RestoreWeights", {"feature": "multi-agent-latest"}, f"{where}: loaded weights {got_w}, the last writer wrote {dict(st['store'].w)}"))
            break
        _time.sleep(0.03)       # distinct modification times (the kernel's file clock ticks in milliseconds)
    return fails


def auto_writer_case(args) -> List[Fail]:
    """PR34 writer: sidecar carries the frozen marker, header is snapshot:v1, discovery picks the body"""
    base, i = args
    os.environ["SOURCE_DATE_EPOCH"] = str(EPOCH)
    from clematis.engine import snapshot as S
    d = worker_dir(base)
    payload = [{"version_etag": "e1", "gel": {"nodes": {}, "edges": {}}}, {"a": {"é→x": 0.5}}, {}, {"version_etag": "7", "store": {"weights": []}},
               # NEL / LS / PS inside ids: the header+payload format is line based
               {"version_etag": "8", "gel": {"nodes": {"l\u2028s": {"id": "l\u2028s"}, "n\u0085l": {"id": "n\u0085l", "label": "p\u2029s"}}, "edges": {}}}][i % 5]
    fails: List[Fail] = []
    try:
        p, wrote_delta = S.write_snapshot_auto(d, etag_from=None, etag_to=f"e{i}", payload=payload, compression="none", delta_mode=bool(i & 1))
    except Exception as e:      # noqa: BLE001
        return [("RestoreGel", {"feature": "pr34-write"}, f"write_snapshot_auto raised {type(e).__name__}: {e} for {payload!r}")]
    raw = open(p, "rb").read()
    head = json.loads(raw.split(b"\n", 1)[0])
    if head.get("schema") != "snapshot:v1" or wrote_delta:
        fails.append(("SchemaMarker", {"feature": "pr34-header"}, f"header {head}"))
    ms = [m for m in marker_fails(p, b'{"schema_version": "v1"}')]
    for m in ms:
        fails.append(("SchemaMarker", {"feature": "pr34-sidecar"}, m))
    try:
        back = S.read_snapshot(path=p)
    except Exception as e:      # noqa: BLE001 - the file was just written by the real writer: failing to read it back is the violation
        back = f"<raised {type(e).__name__}: {e}>"
    if back != payload:
        fails.append(("RestoreGel", {"feature": "pr34-read"}, f"read_snapshot returned {back!r} for {payload!r}"))
    pk = S._pick_latest_snapshot_path(d)
    if not pk or os.path.abspath(pk) != os.path.abspath(p):
        fails.append(("DiscoveryNeverSidecarOrTemp", {"feature": "picked-sidecar"}, f"picked {pk!r} after write_snapshot_auto wrote {p!r}"))
    return fails


# ---------------------------------------------------------------------------------------------
def W(*ks):
    return "{" + ", ".join(f'[c |-> "fin", v |-> {k}]' if isinstance(k, int) else f'[c |-> "{k}", v |-> 0]' for k in ks) + "}"


def B(*bs):
    return "{" + ", ".join(f'[name |-> "{n}", lo |-> {lo}, hi |-> {hi}, eps |-> {eps}]' for n, lo, hi, eps in bs) + "}"


def AUX(sforms=("dict",), gkeys=("graph",), agents=("A",), ids=("uni",)):
    return "{" + ", ".join(f'[sform |-> "{s}", gkey |-> "{g}", agent |-> "{a}", ids |-> "{i}"]'
                           for s in sforms for g in gkeys for a in agents for i in ids) + "}"


B_DEF = ("t4default", -10 ** 7, 10 ** 7, 0)
B_T4 = ("t4", -5000000, 5000000, 0)
B_GRAPH = ("graph", -2500000, 7500000, 0)
B_T4POS = ("t4pos", 2500000, 10 ** 7, 0)            # 0.0 lies outside the bounds (validator admits it)
B_OFF = ("graphoff", -1234567, 1234567, 0)           # bounds that are not six-decimal values
B_EPS = ("t4eps", -10 ** 7, 10 ** 7, 10000)          # graph.decay.epsilon_prune = 0.001
B_POSEPS = ("t4poseps", 2500000, 10 ** 7, 5000000)
B_T4ZLO = ("t4zlo", 0, 10 ** 7, 0)                   # a bound of exactly 0 is a bound, not "unset"
B_T4ZHI = ("t4zhi", -10 ** 7, 0, 0)
B_GRAPHZ = ("graphzlo", 0, 7500000, 0)

W_QUICK = (1250000, -2500000, 1234567, -1234564, -15000000, 20000000, "nan", "pinf", "ninf", 4, -6, 0)
W_FULL = W_QUICK + (9999999, 10000001, -10000000, 5000004, 7500000, 3, 9999, 10000, -9996, 2499996, -1234567)
W_FIVE = (1234567, 20000000, "nan", 4)
W_SIX = (1250000, -1234564, 20000000, "nan", -6)

BASE = {"Ids": Def("{1, 2}"), "Rels": Def("{1, 2}"), "WVals": Def(W(*W_QUICK)), "MaxE": 1, "EForms": ["dict", "dictk", "list"],
        "NodeSets": Def("{{}}"), "NForms": ["dict"], "Metas": ["good"], "Bounds": Def(B(B_DEF)), "Versions": ["num"],
        "SKinds": ["none"], "WKeys": 1, "SVals": Def(W(1234567)), "Auxs": Def(AUX()), "NanRule": "clamp0"}
INVS = ["Idempotent", "RestoreVersion", "RestoreWeights", "RestoreGel", "WriteLoadWriteFixpoint", "SchemaMarked",
        "KeysCanonical", "OnGrid6", "InBounds", "ChosenAdmissible", "NothingLost"]


def state_configs(q: bool):
    allb = B(B_DEF, B_T4, B_GRAPH, B_T4POS, B_OFF, B_EPS, B_POSEPS, B_T4ZLO, B_T4ZHI, B_GRAPHZ)
    cfgs = [
        ("one", dict(BASE, Ids=Def("{0, 1, 2}"), WVals=Def(W(*(W_QUICK if q else W_FULL))), Bounds=Def(allb),
                     Auxs=Def(AUX(ids=("uni",) if q else ("uni", "us"))))),
        ("two", dict(BASE, MaxE=2, WVals=Def(W(*W_FIVE)), Bounds=Def(B(B_DEF, B_GRAPH)))),
        ("collide", dict(BASE, MaxE=2, Ids=Def("{1, 2, 3}"), Rels=Def("{1}"), WVals=Def(W(1250000, -1234564)),
                         Auxs=Def(AUX(ids=("us",))))),
        ("empty2", dict(BASE, MaxE=2, Ids=Def("{0, 1}"), WVals=Def(W(1250000, -1234564)))),
        ("nodes_meta", dict(BASE, Ids=Def("{1, 2}"), Rels=Def("{1}"), WVals=Def(W(1234567)), EForms=["dictk", "list"],
                            NodeSets=Def("{{}, {2}, {1, 2, 3}}"), NForms=["dict", "list"],
                            Metas=["absent", "none", "good", "partial", "badfields", "list", "str"],
                            Auxs=Def(AUX(("dict", "ns"), ("graph", "gel"))))),
        ("store", dict(BASE, MaxE=1, Ids=Def("{1}"), Rels=Def("{1}"), WVals=Def(W(1234567)), EForms=["dictk"],
                       NodeSets=Def("{{1}}"), Versions=["num", "alpha", "empty"], SKinds=["none", "w", "expimp"],
                       WKeys=2 if q else 3, SVals=Def(W(1234567, "nan", -30000000) if q else W(1234567, "nan", "pinf", -30000000)),
                       Auxs=Def(AUX(("dict", "ns"), ("graph", "gel"), ("A", "uni"))))),
    ]
    if not q:
        cfgs += [
            ("two_wide", dict(BASE, MaxE=2, Ids=Def("{0, 1, 2}"), WVals=Def(W(*W_SIX)), Bounds=Def(B(B_DEF, B_T4, B_EPS)))),
            ("three", dict(BASE, MaxE=3, Ids=Def("{1, 2, 3}"), Rels=Def("{1}"), WVals=Def(W(1250000, 1234567, "pinf")),
                           EForms=["dict", "list"], Bounds=Def(B(B_T4)))),
            ("collide3", dict(BASE, MaxE=3, Ids=Def("{1, 2, 3}"), Rels=Def("{1}"), WVals=Def(W(1250000)), EForms=["dictk", "list"],
                              Auxs=Def(AUX(ids=("us", "uni"))))),
        ]
    return cfgs


def scratch_base(workdir: str) -> str:
    """<workdir>/cases; when /dev/shm is usable it is a symlink into it: every case performs six
    fsync'ed atomic writes and durability is not what this property is about (C08 covers it)"""
    base = os.path.join(workdir, "cases")
    if os.path.lexists(base):
        if os.path.islink(base):
            shutil.rmtree(os.path.realpath(base), ignore_errors=True)
            os.unlink(base)
        else:
            shutil.rmtree(base, ignore_errors=True)
    shm = "/dev/shm"
    if os.environ.get("VERIF_C06_DISK") != "1" and os.path.isdir(shm) and os.access(shm, os.W_OK):
        try:
            import tempfile
            target = tempfile.mkdtemp(prefix="verif_c06_", dir=shm)
            os.symlink(target, base)
            return base
        except OSError:
            pass
    os.makedirs(base, exist_ok=True)
    return base


def drop_scratch(base: str) -> None:
    if os.path.islink(base):
        shutil.rmtree(os.path.realpath(base), ignore_errors=True)
        os.unlink(base)
    else:
        shutil.rmtree(base, ignore_errors=True)


def perms(n: int, which: List[str]) -> str:
    import random
    out = []
    ident = list(range(1, n + 1))
    for w in which:
        if w == "asc":
            p = ident
        elif w == "desc":
            p = ident[::-1]
        elif w == "forbidden_newest":          # bodies oldest, sidecars/temps newest
            p = [1, 4, 5, 6, 8, 10, 11, 2, 7, 9, 3, 12]
        else:
            p = ident[:]
            random.Random(w).shuffle(p)
        out.append("<<" + ", ".join(map(str, p)) + ">>")
    return "{" + ", ".join(out) + "}"


def _account(run, clause_ok: str, cases, outs, family: str, mk_replay, keyf=None):
    for i, (case, fails) in enumerate(zip(cases, outs)):
        run.traces += 1
        run.case((family, keyf(case) if keyf else i))
        if not fails:
            run.ok(clause_ok)
        for clause, sig, msg in fails:
            run.fail(clause, sig, {"family": family, "case": case}, msg, replay=mk_replay(case))


def check(run) -> None:
    from . import c06_random
    q = run.quick
    os.environ["SOURCE_DATE_EPOCH"] = str(EPOCH)
    run.rule = ("every state enumerated by Snapshot.tla is written, loaded into a fresh state and written again by the real code; "
                "every directory enumerated by SnapshotDir.tla is built on disk and discovered; random GEL histories are "
                "round-tripped through write-load chains; distinct = distinct state / directory / history")
    import time
    base = scratch_base(run.workdir)
    nstate = 0
    phases: Dict[str, float] = {}
    t_ph = time.time()

    def phase(name):
        nonlocal t_ph
        phases[name] = round(time.time() - t_ph, 1)
        t_ph = time.time()
    for name, cs in state_configs(q):
        cfg = make_cfg(cs, INVS, [], emit=False, view=None, constraint="EmitCase")
        res = run.tlc("Snapshot", cfg, name=f"Snapshot_{name}", workers=8, timeout_s=900, defs=split_defs(cs))
        run.model_must_hold(res)
        if not res.emitted:
            from ..tlc import TLCError
            raise TLCError(f"Snapshot_{name}: no state emitted")
        outs = pmap(replay_state, [(base, c) for c in res.emitted])
        _account(run, "State.roundtrip_conforms", res.emitted, outs, "state:" + name,
                 lambda c: {"state": c}, keyf=lambda c: json.dumps(c, sort_keys=True))
        for cl in ("RestoreVersion", "RestoreWeights", "RestoreGel", "WriteLoadWriteFixpoint", "SchemaMarker"):
            run.clauses[cl + ".evaluated"] += len(res.emitted)
        nstate += len(res.emitted)
        run.sample({"family": "state:" + name, "case": res.emitted[len(res.emitted) * 2 // 3]}, cap=4)
        run.constants[f"Snapshot_{name}"] = {k: str(v) for k, v in cs.items()}
        phase("state:" + name)
    # control: "NaN -> 0.0 after the clamp" (what an unclamped replacement does) is not idempotent when 0
    # lies outside the bounds - TLC must refute it, which also shows the invariants are not vacuous
    cs = dict(BASE, WVals=Def(W(1250000, "nan")), Bounds=Def(B(B_T4POS)), NanRule="zero")
    res = run.tlc("Snapshot", make_cfg(cs, ["Idempotent", "WriteLoadWriteFixpoint", "InBounds"], [], emit=False, view=None),
                  name="Snapshot_nanrule_control", workers=2, timeout_s=300, defs=split_defs(cs))
    if res.violation is None:
        from ..tlc import TLCError
        raise TLCError("control: the NaN->0-after-clamp rule should violate Idempotent/InBounds in the model")
    run.ok("Model.unclamped_nan_rule_refuted")
    phase("control")
    # ---- discovery ----
    orders = ["asc", "forbidden_newest"] if q else ["asc", "desc", "forbidden_newest", "s1", "s2", "s3"]
    cs = {"Orders": Def(perms(12, orders)), "MaxFiles": 5 if q else 12}
    cfg = make_cfg(cs, ["DiscoveryNeverSidecarOrTemp", "DiscoveryFindsBody", "DiscoveryPicksPresent"], [], emit=False, view=None,
                   constraint="EmitCase")
    res = run.tlc("SnapshotDir", cfg, name="SnapshotDir", workers=8, timeout_s=600, defs=split_defs(cs))
    run.model_must_hold(res)
    outs = pmap(replay_dir, [(base, c) for c in res.emitted])
    _account(run, "Discovery.conforms", res.emitted, outs, "dir", lambda c: {"dir": c}, keyf=lambda c: json.dumps(c, sort_keys=True))
    run.clauses["DiscoveryNeverSidecarOrTemp.evaluated"] += 3 * len(res.emitted)
    run.sample({"family": "dir", "case": res.emitted[len(res.emitted) // 2]}, cap=5)
    n = 8 if q else 64
    outs = pmap(real_temp_case, [(base, i) for i in range(n)], procs=1)
    _account(run, "Discovery.real_temporaries_ignored", list(range(n)), outs, "realtmp", lambda i: {"realtmp": i})
    n = 12 if q else 48
    outs = pmap(multi_agent_case, [(base, i) for i in range(n)], procs=4)
    _account(run, "Discovery.last_writer_restored", list(range(n)), outs, "multiagent", lambda i: {"multiagent": i})
    outs = pmap(auto_writer_case, [(base, i) for i in range(10)], procs=1)
    _account(run, "SchemaMarker.pr34_writer", list(range(8)), outs, "auto", lambda i: {"auto": i})
    run.exhaustive = True
    phase("discovery")
    # ---- random GEL histories ----
    n = 1500 if q else 40000
    args = [(base, run.seed, i) for i in range(n)]
    outs = pmap(c06_random.random_case, args)
    _account(run, "Random.chain_conforms", [list(a[1:]) for a in args], outs, "random", lambda a: {"random": a})
    run.sample({"family": "random", "example": c06_random.describe(run.seed, 0)}, cap=6)
    phase("random")
    run.extra["states_replayed"] = nstate
    run.extra["phase_wall_s"] = phases
    run.assumptions += [
        "small-scope hypothesis for the exhaustive part (<=3 ids, <=3 listed edges, <=3 store weights)",
        "weights of the exhaustive part are multiples of 1e-7 whose 7th digit is not 5; exact ties only in the random part (both neighbours admitted)",
        "duplicate canonical pairs: any listed candidate is admitted as the survivor",
        "SOURCE_DATE_EPOCH fixed; codec 'none' only (zstandard missing)",
        "store doubles export floats (WeightsOnly / ExportImport shapes of tests/test_snapshot_loader.py)",
    ]
    drop_scratch(base)


def replay(rep) -> int:
    from . import c06_random
    r = rep["replay"]
    base = os.path.join("/verif/.work", "C06_replay")
    os.makedirs(base, exist_ok=True)
    if "state" in r:
        fails = replay_state((base, r["state"]))
    elif "dir" in r:
        fails = replay_dir((base, r["dir"]))
    elif "realtmp" in r:
        fails = real_temp_case((base, r["realtmp"]))
    elif "auto" in r:
        fails = auto_writer_case((base, r["auto"]))
    elif "multiagent" in r:
        fails = multi_agent_case((base, r["multiagent"]))
    else:
        fails = c06_random.random_case((base, r["random"][0], r["random"][1]))
    shutil.rmtree(base, ignore_errors=True)
    for clause, sig, msg in fails:
        print(f"{clause}: {json.dumps(sig, sort_keys=True)}: {msg}")
    if fails:
        print(f"VIOLATION property=C06 replay={rep.get('_path', '?')}")
        return 1
    print("replay: conforms")
    return 0
