"""C12 — propagation follows the documented spreading rule within its budgets.

(M)    Propagation.tla: the documented T1 algorithm as a step machine (Seed, Pop, Relax(edge), Finish) on
       an exact fixed-point grid, run by TLC over families of small worlds (graphs <= 4 nodes / <= 5
       edges incl. cycles, self-loops, parallel edges, negative / zero / tiny weights, unknown
       relations, tags; caps from {0, 1, tight, loose}; slice caps; perf caps).  Budgets are invariants
       of every intermediate state, reachability / order / seeds invariants of the final state,
       SpreadRule is checked against an independent recursive definition on acyclic worlds.
(S->C)  every enumerated world is built in a real InMemoryGraphStore and run through t1_propagate (stage
       cache off); alpha = (touched ids in order, delta shape, pops, iters, propagations, *_hits,
       max_delta) is compared with the spec's result; the budget / order / reachability / seed clauses
       are also evaluated directly on the returned values; the store is deep-compared before/after;
       several worlds in one call (several active graphs) must give the concatenation / sums.
(C->S)  c12_traces: seeded random graphs (<= 200 nodes, arbitrary float weights and caps), one trace per
       call with per-graph records, validated by PropagationTrace.tla (budgets, uniqueness, order,
       reachability by BFS on the logged graph, seeds, counter sanity, totals), negative controls.
"""
from __future__ import annotations

import copy
import json
import math
import os
from types import SimpleNamespace
from typing import Any, Dict, List, Tuple

from ..util import Def, make_cfg, pmap, split_defs

MANIFEST = {
    "technique": "TLA+ step-machine of the documented T1 propagation (seed, max-heap pop, per-edge relax, finish) on an exact fixed-point grid, model-checked with TLC over families of small worlds with every budget as an invariant of every intermediate state and an independent recursive spreading definition on acyclic worlds; every enumerated world replayed on the real t1_propagate over a real InMemoryGraphStore; random large graphs trace-validated by TLC (budgets, order, BFS reachability, seeds)",
    "text": "Small-scope exhaustive model checking of the documented propagation algorithm (graphs up to 4 nodes / 5 edges with cycles, self-loops, parallel edges, negative/zero/tiny weights, unknown relations, tags; every cap from {0,1,tight,loose}; slice caps; perf caps; both decay modes), bound to the code by running every enumerated world through t1_propagate with the stage cache off and comparing touched ids in order, counters and max contribution with the spec's prediction, by evaluating the budget/order/reachability/seed clauses directly on the returned values, by deep-comparing the store before and after, and by TLC trace validation of random graphs up to 200 nodes with arbitrary float weights.",
    "note": "Activations themselves are not observable (deltas carry ids only): SpreadRule is bound through the touched set (EPS cut-off, cancellation), max_delta, budget hits and the pop order under caps. Exact conformance uses dyadic weights (+-1, +-1/2, 0, 3, 2^-18, 2^-19), rate 1/2, floor 0 or 1/8; worlds with the built-in multipliers 0.6/0.8 or attn_quad run on a 2^12*5^3 grid and are excluded from exact comparison when a decision hinges on an exact tie of non-dyadic values (counted as guarded_out). The order of out-edges is the insertion order of the edge dict. Loose pop budget is 40, loose node budget 8.",
}

NOCAP = 99999
IDS = {1: "a", 2: "a10", 3: "a2", 4: "b:\u00e9", 5: "c", 6: "d"}      # integer order = string order
INV_IDS = {v: k for k, v in IDS.items()}
LABELS = {1: "Kappa1", 2: "lambda Two", 3: "MU-3", 4: "nu4\u00e9", 5: "Omicron5", 6: "pi6"}    # lower-cased order = node order
TAGS = {1: "tango1", 2: "Tango2", 3: "TANGO3", 4: "tango4", 5: "Tango5", 6: "tango6"}           # all sort after the labels
RELS = {1: "supports", 2: "associates", 3: "contradicts", 4: "mystery", 5: "blocks"}
DYADIC_MULT = {"supports": 1.0, "associates": 0.5, "contradicts": 0.25, "blocks": 0.0}
GRID_D = {"dyadic": 4194304, "five": 512000}
EPS = 1e-6                                                           # documented cut-off (not imported)


# ------------------------------------------------------------------------------------------------
# concretisation
# ------------------------------------------------------------------------------------------------
def _repo_t1():
    from clematis.engine.stages import t1
    return t1


def build_store(worlds: List[dict], gids: List[str]):
    """one graph per world in a fresh InMemoryGraphStore; returns (store, text)"""
    from clematis.graph.store import InMemoryGraphStore
    from clematis.engine.types import Node, Edge
    store = InMemoryGraphStore()
    parts = []
    for k, (w, gid) in enumerate(zip(worlds, gids)):
        sfx = "" if len(worlds) == 1 else f"#{k}"
        lab, tag = set(w["lab"]), set(w["tag"])
        nodes = []
        nn = int(w.get("N", 4))
        for n in [x for x in (3, 1, 6, 4, 2, 5) if x <= nn]:           # listing order is not id order
            tags: List[Any] = []
            if n in tag:
                tags.append(TAGS[n] + sfx)
            if n % 2 == 0:
                tags = ["zz-never" + sfx, "", 7] + tags               # junk that must not seed
            attrs = {"tags": tags} if (tags or n == 1) else {}
            nodes.append(Node(id=IDS[n], label=LABELS[n] + sfx, attrs=attrs))
        store.upsert_nodes(gid, nodes)
        edges = []
        for i, e in enumerate(w["g"]):
            edges.append(Edge(id=f"e{(7 * i + 3) % 11}", src=IDS[e["s"]], dst=IDS[e["d"]],
                              weight=e["w"][0] / e["w"][1], rel=RELS[e["r"]]))
        if edges:
            store.upsert_edges(gid, edges)
        else:
            store.ensure(gid)
        for n in range(1, nn + 1):
            lb = (LABELS[n] + sfx)
            parts.append(lb.upper() if n in lab else lb[:-1] + "_")   # near miss when absent
            tg = TAGS[n] + sfx
            parts.append("x" + tg.swapcase() + "y" if n in tag else tg[1:-1])
    text = " ".join(parts) if parts else "nothing"
    return store, text


def build_ctx(cp: dict, grid: str, variant: int = 0):
    t1cfg: Dict[str, Any] = {
        "cache": {"enabled": False},
        "decay": {"mode": cp["mode"], "rate": 0.5, "floor": cp["floor"][0] / cp["floor"][1], "alpha": 1.0},
        "queue_budget": cp["queue"], "node_budget": cp["nb"] / 8.0, "radius_cap": cp["radius"],
        "iter_cap": cp["iter"], "iter_cap_layers": cp["layers"],
    }
    if variant in (1, 4):      # leave out settings that equal the documented defaults (configs/config.yaml, t1.py)
        for key, dflt in (("radius_cap", 4), ("iter_cap", 50), ("iter_cap_layers", 50), ("node_budget", 1.5)):
            if t1cfg[key] == dflt:
                del t1cfg[key]
    if cp["relax"] != NOCAP:
        t1cfg["relax_cap"] = cp["relax"]
    elif variant % 2:
        t1cfg["relax_cap"] = None
    if grid == "dyadic":
        t1cfg["edge_type_mult"] = dict(DYADIC_MULT)
    perf_on = bool(cp["fr"] or cp["vis"] or cp["ded"])
    perf = {"enabled": perf_on, "metrics": {"report_memory": False},
            "t1": {"caps": {"frontier": cp["fr"], "visited": cp["vis"]}, "dedupe_window": cp["ded"]}}
    ctx = SimpleNamespace(cfg=SimpleNamespace(t1=t1cfg, perf=perf if (perf_on or variant % 3 == 0) else {}))
    if cp["siter"] != NOCAP or cp["spops"] != NOCAP:
        ctx.slice_budgets = {"t1_iters": None if cp["siter"] == NOCAP else cp["siter"],
                             "t1_pops": None if cp["spops"] == NOCAP else cp["spops"], "t2_k": 1}
    elif variant % 3 == 1:
        ctx.slice_budgets = None
    elif variant % 3 == 2:
        ctx.slice_budgets = {"t2_k": 3}
    return ctx


def snapshot_store(store):
    gs = store._graphs
    return (copy.deepcopy(gs), [(gid, list(g.nodes), list(g.edges), g.version_etag) for gid, g in gs.items()])


def store_unchanged(store, snap) -> bool:
    gs = store._graphs
    return gs == snap[0] and [(gid, list(g.nodes), list(g.edges), g.version_etag) for gid, g in gs.items()] == snap[1]


def call_t1(store, gids, ctx, text):
    t1 = _repo_t1()
    t1._T1_CACHE = None
    t1._T1_CACHE_CFG = None
    t1._T1_CACHE_KIND = None
    state = {"store": store, "active_graphs": list(gids)}
    return t1.t1_propagate(ctx, state, text)


def alpha(res) -> Dict[str, Any]:
    m = res.metrics
    return {"touched": [d.get("id") for d in res.graph_deltas],
            "shape_ok": all(isinstance(d, dict) and d.get("op") == "upsert_node" and set(d) == {"op", "id"}
                            for d in res.graph_deltas),
            "pops": m.get("pops"), "iters": m.get("iters"), "props": m.get("propagations"),
            "rhits": m.get("radius_cap_hits"), "lhits": m.get("layer_cap_hits"), "nhits": m.get("node_budget_hits"),
            "maxd": m.get("max_delta"), "cache_enabled": m.get("cache_enabled"), "graphs": m.get("graphs_touched")}


# ------------------------------------------------------------------------------------------------
# clauses evaluated directly on what the implementation returned (no oracle needed)
# ------------------------------------------------------------------------------------------------
def pop_cap(cp):
    return min(cp["queue"], cp["spops"])


def layer_cap(cp):
    return min(cp["iter"], cp["layers"], cp["siter"])


def reach(edges: List[Tuple[Any, Any]], seeds, k: int):
    seen = set(seeds)
    frontier = set(seeds)
    for _ in range(max(0, k)):
        nxt = {d for (s, d) in edges if s in frontier} - seen
        if not nxt:
            break
        seen |= nxt
        frontier = nxt
    return seen


def direct_clauses(a: dict, w: dict) -> List[Tuple[str, dict, str]]:
    cp = w["cp"]
    fails: List[Tuple[str, dict, str]] = []
    if a["pops"] > pop_cap(cp):
        fails.append(("PopBudget", {"cause": "pops>cap"}, f"pops={a['pops']} > min(queue_budget={cp['queue']}, slice t1_pops={cp['spops']})"))
    if a["iters"] > layer_cap(cp):
        fails.append(("LayerBudget", {"cause": "iters>cap"}, f"iters={a['iters']} > layer cap {layer_cap(cp)}"))
    if cp["relax"] != NOCAP and a["props"] > cp["relax"]:
        fails.append(("RelaxBudget", {"cause": "relax_cap=0" if cp["relax"] == 0 else "relax_cap>0"},
                      f"propagations={a['props']} > relax_cap={cp['relax']}"))
    if (cp["spops"] != NOCAP and a["pops"] > cp["spops"]) or (cp["siter"] != NOCAP and a["iters"] > cp["siter"]):
        fails.append(("SliceCapsTighten", {"cause": "slice cap exceeded"},
                      f"pops={a['pops']} iters={a['iters']} with slice caps pops={cp['spops']} iters={cp['siter']}"))
    ids = a["touched"]
    if not a["shape_ok"]:
        fails.append(("TouchedOnceSortedPerGraph", {"cause": "delta shape"}, f"unexpected delta records for {ids}"))
    if any(not (ids[i] < ids[i + 1]) for i in range(len(ids) - 1)):
        fails.append(("TouchedOnceSortedPerGraph", {"cause": "duplicate" if len(set(ids)) < len(ids) else "order"},
                      f"touched ids not strictly increasing: {ids}"))
    seeds = {IDS[n] for n in set(w["lab"]) | set(w["tag"])}
    edges = [(IDS[e["s"]], IDS[e["d"]]) for e in w["g"]]
    ok = reach(edges, seeds, min(cp["radius"], layer_cap(cp)))
    bad = [i for i in ids if i not in ok]
    if bad:
        fails.append(("ReachableWithinCaps", {"cause": "unreachable touched"}, f"touched {bad} not reachable from seeds {sorted(seeds)} within {min(cp['radius'], layer_cap(cp))} hops"))
    indeg0 = {IDS[n] for n in range(1, int(w.get("N", 4)) + 1)} - {d for (_s, d) in edges}
    if (set(ids) & indeg0) != (seeds & indeg0):
        fails.append(("SeedsExact", {"cause": "seed set"}, f"source nodes touched {sorted(set(ids) & indeg0)}, seeds among them {sorted(seeds & indeg0)}"))
    if not seeds and (ids or a["pops"] or a["props"]):
        fails.append(("SeedsExact", {"cause": "work without seeds"}, f"no keyword occurs in the text but touched={ids} pops={a['pops']}"))
    if a["cache_enabled"]:
        fails.append(("Construct", {"cause": "cache on"}, "stage cache was not disabled"))
    return fails


FIELD_CLAUSE = {"touched": "SpreadRule", "maxd": "SpreadRule", "pops": "CountersMatchWork", "iters": "CountersMatchWork",
                "props": "CountersMatchWork", "rhits": "CountersMatchWork", "lhits": "CountersMatchWork",
                "nhits": "NodeBudgetStopsExpansion"}


def compare_with_spec(a: dict, w: dict) -> List[Tuple[str, dict, str]]:
    o = w["out"]
    want = {"touched": [IDS[n] for n in o["touched"]], "pops": o["pops"], "iters": o["iters"], "props": o["props"],
            "rhits": o["rhits"], "lhits": o["lhits"], "nhits": o["nhits"], "maxd": o["maxd"] / GRID_D[w["grid"]]}
    fails = []
    for f in ("touched", "pops", "iters", "props", "rhits", "lhits", "nhits", "maxd"):
        got = a[f]
        if f == "maxd" and w["grid"] != "dyadic":
            same = math.isclose(got, want[f], rel_tol=1e-12, abs_tol=0.0)
        else:
            same = got == want[f]
        if not same:
            clause = FIELD_CLAUSE[f]
            if f == "touched" and sorted(got) == sorted(want[f]):
                clause = "TouchedOnceSortedPerGraph"
            fails.append((clause, {"field": f}, f"{f}: implementation {got!r}, spec {want[f]!r}"))
    return fails


def replay_world(w: dict) -> List[Tuple[str, dict, str]]:
    """S->C for one enumerated world"""
    variant = (len(w["g"]) + sum(w["lab"]) + w["cp"]["queue"]) % 6
    try:
        store, text = build_store([w], ["g:main"])
        ctx = build_ctx(w["cp"], w["grid"], variant)
        snap = snapshot_store(store)
        cfg_snap = copy.deepcopy((ctx.cfg.t1, ctx.cfg.perf, getattr(ctx, "slice_budgets", None)))
        res = call_t1(store, ["g:main"], ctx, text)
    except Exception as e:  # noqa: BLE001
        return [("Construct", {"cause": type(e).__name__}, f"t1_propagate raised {type(e).__name__}: {e}")]
    a = alpha(res)
    fails = direct_clauses(a, w)
    if not store_unchanged(store, snap):
        fails.append(("StoreUnmodified", {"cause": "store changed"}, "the graph store differs after t1_propagate"))
    if cfg_snap != (ctx.cfg.t1, ctx.cfg.perf, getattr(ctx, "slice_budgets", None)):
        fails.append(("StoreUnmodified", {"cause": "config changed"}, "t1_propagate mutated its configuration / slice budgets"))
    relax_broken = any(c == "RelaxBudget" for c, _s, _m in fails)
    if not w["guard"] and not relax_broken:
        cmp = compare_with_spec(a, w)
        if cmp and (w["cp"]["vis"] or w["cp"]["ded"]):
            # the documented visited set / dedupe ring: does the implementation ignore them altogether?
            cp0 = dict(w["cp"], vis=0, ded=0)
            store0, text0 = build_store([w], ["g:main"])
            a0 = alpha(call_t1(store0, ["g:main"], build_ctx(cp0, w["grid"], variant), text0))
            if a0 == a:
                return fails + [("_obs", {"cause": "visited/dedupe inert"}, cmp[0][2])]
        fails += cmp
    # the budgets must also bind when the stage cache is warm: the same world is first propagated without
    # slice caps (looser) and then, in the same process with the cache on and not reset, with them
    if not fails and not w["guard"] and (w["cp"]["siter"] != NOCAP or w["cp"]["spops"] != NOCAP):
        fails += warm_cache_case(w, variant, a)
    return fails


def warm_cache_case(w: dict, variant: int, cold: dict) -> List[Tuple[str, dict, str]]:
    t1 = _repo_t1()
    t1._T1_CACHE = None
    t1._T1_CACHE_CFG = None
    t1._T1_CACHE_KIND = None
    try:
        store, text = build_store([w], ["g:main"])
        state = {"store": store, "active_graphs": ["g:main"]}
        loose = build_ctx(dict(w["cp"], siter=NOCAP, spops=NOCAP), w["grid"], variant)
        tight = build_ctx(w["cp"], w["grid"], variant)
        for c in (loose, tight):
            c.cfg.t1["cache"] = {"enabled": True, "max_entries": 64, "ttl_s": 3600}
        t1.t1_propagate(loose, state, text)
        warm = alpha(t1.t1_propagate(tight, state, text))
    except Exception as e:  # noqa: BLE001
        return [("Construct", {"cause": type(e).__name__}, f"t1_propagate (warm cache) raised {type(e).__name__}: {e}")]
    finally:
        t1._T1_CACHE = None
        t1._T1_CACHE_CFG = None
        t1._T1_CACHE_KIND = None
    out = []
    for f in ("touched", "pops", "iters", "props", "rhits", "lhits", "nhits"):     # max_delta is a fresh-only gauge
        if warm[f] != cold[f]:
            out.append(("SliceCapsTighten", {"cause": "warm stage cache", "field": f},
                        f"{f}: with a warm stage cache (same world propagated before without slice caps) {warm[f]!r}, "
                        f"cold / spec {cold[f]!r} under slice caps pops={w['cp']['spops']} iters={w['cp']['siter']}"))
    return out


def replay_multi(ws: List[dict]) -> List[Tuple[str, dict, str]]:
    """several worlds (same caps) as several active graphs of one call = concatenation / sums of the
    single-graph calls (tree against itself)"""
    gids = ["g:zeta", "g:alpha", "g:mid"][:len(ws)]
    singles = []
    for k, w in enumerate(ws):
        store, text = build_store(ws, gids)
        ctx = build_ctx(w["cp"], w["grid"], k)
        singles.append(alpha(call_t1(store, [gids[k]], ctx, text)))
    store, text = build_store(ws, gids)
    ctx = build_ctx(ws[0]["cp"], ws[0]["grid"], 1)
    snap = snapshot_store(store)
    a = alpha(call_t1(store, gids, ctx, text))
    fails = []
    if not store_unchanged(store, snap):
        fails.append(("StoreUnmodified", {"cause": "store changed", "graphs": len(ws)}, "the graph store differs after a multi-graph call"))
    cat = [i for s in singles for i in s["touched"]]
    if a["touched"] != cat:
        fails.append(("TouchedOnceSortedPerGraph", {"cause": "per-graph concatenation"},
                      f"multi-graph deltas {a['touched']} != concatenation in active_graphs order {cat}"))
    for f in ("pops", "iters", "props", "rhits", "lhits", "nhits"):
        if a[f] != sum(s[f] for s in singles):
            fails.append(("CountersMatchWork", {"cause": "per-graph sum", "field": f},
                          f"{f}: multi-graph {a[f]} != sum of single-graph calls {[s[f] for s in singles]}"))
    if a["maxd"] != max(s["maxd"] for s in singles) or a["graphs"] != len(ws):
        fails.append(("CountersMatchWork", {"cause": "per-graph max"}, f"max_delta/graphs_touched {a['maxd']}/{a['graphs']} vs singles {[s['maxd'] for s in singles]}"))
    # the same multi-graph call twice with the stage cache ON: the cache holds per-graph results, so a warm call reports
    # exactly what the cold call reported (each touched node once per graph)
    if not fails and len(ws) > 1:
        t1m = _repo_t1()
        for attr in ("_T1_CACHE", "_T1_CACHE_CFG", "_T1_CACHE_KIND"):
            setattr(t1m, attr, None)
        try:
            store, text = build_store(ws, gids)
            state = {"store": store, "active_graphs": list(gids)}
            ctxw = build_ctx(ws[0]["cp"], ws[0]["grid"], 1)
            ctxw.cfg.t1["cache"] = {"enabled": True, "max_entries": 64, "ttl_s": 3600}
            t1m.t1_propagate(ctxw, state, text)
            warm = alpha(t1m.t1_propagate(ctxw, state, text))
            for f in ("touched", "pops", "iters", "props", "rhits", "lhits", "nhits"):
                if warm[f] != a[f]:
                    fails.append(("TouchedOnceSortedPerGraph" if f == "touched" else "CountersMatchWork", {"cause": "warm stage cache, several graphs", "field": f},
                                  f"{f}: second call with the stage cache on {warm[f]!r}, cold call {a[f]!r}"))
                    break
        except Exception as e:  # noqa: BLE001
            fails.append(("Construct", {"cause": type(e).__name__, "driver": "warm"}, f"warm multi-graph call raised {type(e).__name__}: {e}"))
        finally:
            for attr in ("_T1_CACHE", "_T1_CACHE_CFG", "_T1_CACHE_KIND"):
                setattr(t1m, attr, None)
    # the same call through the stage's parallel per-graph driver (perf.parallel.t1): the spreading rule and the
    # budgets are per graph whichever driver runs the graphs
    if not fails and len(ws) > 1:
        try:
            store, text = build_store(ws, gids)
            ctxp = build_ctx(ws[0]["cp"], ws[0]["grid"], 1)
            perf = dict(getattr(ctxp.cfg, "perf", {}) or {})
            perf.update({"enabled": True, "parallel": {"enabled": True, "t1": True, "max_workers": 2}})
            perf.setdefault("metrics", {"report_memory": False})
            ctxp.cfg.perf = perf
            ap = alpha(call_t1(store, gids, ctxp, text))
        except Exception as e:  # noqa: BLE001
            return fails + [("Construct", {"cause": type(e).__name__, "driver": "parallel"}, f"parallel T1 driver raised {type(e).__name__}: {e}")]
        perf_caps_on = bool(ws[0]["cp"]["fr"] or ws[0]["cp"]["vis"] or ws[0]["cp"]["ded"])
        if not perf_caps_on:       # switching perf on must not switch perf caps on that the world does not have
            for f in ("touched", "pops", "iters", "props", "rhits", "lhits", "nhits"):
                if ap[f] != a[f]:
                    fails.append(("SpreadRule" if f == "touched" else "CountersMatchWork", {"cause": "parallel per-graph driver", "field": f},
                                  f"{f}: parallel per-graph driver {ap[f]!r}, sequential driver {a[f]!r}"))
    return fails


# ------------------------------------------------------------------------------------------------
# world families (TLA+ expressions)
# ------------------------------------------------------------------------------------------------
def S(*xs) -> str:
    return "{" + ", ".join(str(x) for x in xs) + "}"


W1, WM1, WH, WMH, W0, W3, WT18, WT19 = "<<1,1>>", "<<-1,1>>", "<<1,2>>", "<<-1,2>>", "<<0,1>>", "<<3,1>>", "<<1,262144>>", "<<1,524288>>"
F0, F8 = "<<0,1>>", "<<1,8>>"
EXP, ATT = '"exp_floor"', '"attn_quad"'


def shape(*pairs) -> str:
    return "<<" + ", ".join(f"<<{s},{d}>>" for s, d in pairs) + ">>"


CURATED = {
    "chain": shape((1, 2), (2, 3), (3, 4)),
    "rchain": shape((4, 3), (3, 2), (2, 1)),
    "diamond": shape((1, 2), (1, 3), (2, 4), (3, 4)),
    "diamond_back": shape((1, 2), (1, 3), (2, 4), (3, 4), (4, 1)),
    "star": shape((1, 4), (1, 3), (1, 2)),
    "cycle2_tail": shape((1, 2), (2, 1), (2, 3)),
    "self_chain": shape((1, 1), (1, 2), (2, 3)),
    "parallel": shape((1, 2), (1, 2), (2, 3)),
    "triangle_tail": shape((1, 2), (2, 3), (3, 1), (3, 4)),
    "converge": shape((1, 3), (2, 3), (3, 4)),
    "shortcut": shape((1, 2), (2, 3), (3, 4), (1, 4)),
    "shortcut2": shape((2, 3), (1, 2), (1, 3), (3, 4)),
    "five": shape((1, 2), (1, 3), (2, 3), (3, 2), (3, 4)),
    "par_self": shape((2, 2), (2, 2), (1, 2)),
}
ACYCLIC = ["chain", "rchain", "diamond", "star", "parallel", "converge", "shortcut", "shortcut2"]


def shapes(names=None) -> str:
    return S(*[CURATED[n] for n in (names or CURATED)])


def caps(rad=(4,), it=(50,), ly=(50,), si=(NOCAP,), q=(24,), sp=(NOCAP,), rx=(NOCAP,), nb=(64,), fl=(F0,), md=(EXP,),
         fr=(0,), vi=(0,), de=(0,)) -> str:
    return "CapProduct(" + ", ".join(S(*x) for x in (rad, it, ly, si, q, sp, rx, nb, fl, md, fr, vi, de)) + ")"


def union(*xs) -> str:
    return "(" + " \\cup ".join(xs) + ")"


def tup(*xs) -> str:
    return "<<" + ", ".join(xs) + ">>"


def product(grid: str, graphs: str, labs: str, tags: str, cps: str) -> str:
    return f'WorldProduct({{"{grid}"}}, {graphs}, {labs}, {tags}, {cps})'


RAD, ITC, LYC, SIT, QB, SPO, RLX, NBS = (0, 1, 2, 4), (0, 1, 2, 50), (0, 1, 50), (NOCAP, 0, 1), (0, 1, 3, 24), (NOCAP, 0, 2), (NOCAP, 0, 1, 2, 40), (2, 8, 12, 64)


def cap_sweeps(floors=(F0,)) -> str:
    """each cap on its own through {0, 1, tight, loose}, then the interacting pairs"""
    return union(caps(rad=RAD, fl=floors), caps(it=ITC, fl=floors), caps(ly=LYC), caps(si=SIT), caps(q=QB, fl=floors),
                 caps(sp=SPO), caps(rx=RLX, fl=floors), caps(nb=NBS, fl=floors),
                 caps(q=QB, rx=RLX), caps(rad=RAD, it=ITC), caps(nb=NBS, rx=RLX), caps(q=QB, sp=SPO),
                 caps(it=ITC, ly=LYC, si=SIT), caps(nb=NBS, q=QB), caps(rad=RAD, nb=NBS), caps(q=QB, it=(0, 1, 50), rx=(NOCAP, 1)))


# two routes of different length to one node, the longer one over the stronger edges: the node is first reached (and
# expanded) over the long route and only later over the short one, which must still lower its hop distance so that what
# lies behind it is within the radius / layer cap - needs 6 nodes
TWO_ROUTES = shape((1, 2), (2, 3), (3, 5), (1, 4), (4, 5), (5, 6))


def families6(quick: bool) -> List[Tuple[str, str]]:
    w6 = S(W1, W3, WH) if not quick else S(W3, WH)
    return [("tworoutes", tup(product("dyadic", f"Dress({S(TWO_ROUTES)}, {w6}, {{1}})", "{{1}}", "{{}}",
                                      union(caps(rad=(2, 3, 4)), caps(rad=(3,), ly=(2, 3))) if not quick else caps(rad=(3, 4)))))]


def families(quick: bool) -> List[Tuple[str, str]]:
    """[(name, Worlds expression)] — one TLC run each"""
    allw = S(W1, WM1, WH, WMH, W0, W3, WT18, WT19)
    fam: List[Tuple[str, str]] = []
    lab12 = "{{1}, {1, 2}}"
    if quick:
        main = tup(
            # topology: every edge list over 3 nodes / 2 edges, over 2 nodes / 3 edges
            product("dyadic", f"Dress(AllShapes(3, 2), {S(W1, WMH)}, {{1}})", "{{1}, {1, 2}, {2, 3}, {}}", "{{}}", caps()),
            product("dyadic", f"Dress(AllShapes(2, 3), {S(W1, WM1)}, {{1}})", lab12, "{{}}", caps(nb=(12,))),
            # weights and relations, one edge at a time, on the curated shapes
            product("dyadic", f"DressOne({shapes()}, {allw}, {{1, 2, 3, 5}})", "{{1}, {2, 4}}", "{{}}", caps(fl=(F0, F8), nb=(12,))),
            # caps
            product("dyadic", f"Dress({shapes()}, {S(W1)}, {{1}})", lab12, "{{}}", cap_sweeps()),
            product("dyadic", f"Dress({shapes(['diamond', 'cycle2_tail', 'five'])}, {S(WMH)}, {{1}})", "{{1}}", "{{}}", cap_sweeps((F0, F8))),
            # perf caps, seed order
            product("dyadic", f"Dress({shapes()}, {S(W1)}, {{1}})", "{{1}, {2, 3}}", "{{}, {1, 4}}",
                    caps(q=(3, 24), fr=(0, 1, 2), vi=(0, 1, 2), de=(0, 1, 2))),
            product("dyadic", f"Dress(AllShapes(3, 1), {S(W1)}, {{1}})", "SUBSET (1..3)", "SUBSET (1..3)",
                    union(caps(), caps(de=(1,), fr=(1, 2)), caps(q=(1, 2)))),
            # built-in multipliers (0.6 / 0.8 / unknown relation) and attn_quad on the 2^12 5^3 grid
            product("five", f"DressOne({shapes()}, {S(W1, WMH, WH)}, {{1, 2, 3, 4}})", "{{1}}", "{{}}",
                    union(caps(fl=(F0, F8), nb=(12,)), caps(md=(ATT,), nb=(12,), rad=(2, 4)), caps(nb=(8,), rad=(2,)), caps(md=(ATT,), rad=(1,)))),
        )
        fam.append(("quick", main))
    else:
        fam.append(("topo3", tup(
            product("dyadic", f"Dress(AllShapes(3, 3), {S(W1, WMH)}, {{1}})", "(SUBSET (1..3)) \\ {{}}", "{{}}", caps(nb=(12,))),
            product("dyadic", f"Dress(AllShapes(2, 3), {S(W1, WM1, WH)}, {{1}})", "{{1}, {1, 2}}", "{{}}", caps(nb=(12,), fl=(F0, F8))))))
        fam.append(("topo4", tup(product("dyadic", f"Dress(AllShapes(4, 2), {S(W1, WMH, W3)}, {{1}})", "{{1}, {1, 2}, {2, 4}, {3}}", "{{}, {4}}", caps(nb=(12, 64), fl=(F0, F8))))))
        fam.append(("weights", tup(
            product("dyadic", f"Dress({shapes()}, {S(W1, WMH)}, {{1, 2}})", "{{1}, {1, 2}}", "{{}}", caps(fl=(F0, F8), nb=(12, 64))),
            product("dyadic", f"DressOne({shapes()}, {allw}, {{1, 2, 3, 5}})", "{{1}, {1, 2}, {2, 4}, {3}, {1, 2, 3, 4}}", "{{}}", caps(fl=(F0, F8), nb=(8, 12, 64), rad=(2, 4))))))
        fam.append(("caps1", tup(product("dyadic", f"Dress({shapes()}, {S(W1, WMH)}, {{1}})", "{{1}, {1, 2}, {2, 3}}", "{{}}", cap_sweeps((F0, F8))))))
        fam.append(("caps2", tup(product("dyadic", f"Dress({shapes(['diamond_back', 'five', 'shortcut', 'par_self'])}, {S(W1)}, {{1}})", "{{1}, {1, 2}}", "{{}}",
                                     caps(rad=RAD, it=(1, 50), ly=(0, 2, 50), si=SIT, q=QB, sp=SPO, rx=RLX, nb=(8, 12, 64))))))
        fam.append(("perf", tup(
            product("dyadic", f"Dress({shapes()}, {S(W1, WMH)}, {{1}})", "{{1}, {2, 3}, {1, 2, 3}}", "{{}, {1, 4}}",
                    caps(q=(3, 24), fr=(0, 1, 2), vi=(0, 1, 2), de=(0, 1, 2))),
            product("dyadic", f"Dress(AllShapes(3, 2), {S(W1)}, {{1}})", "SUBSET (1..3)", "SUBSET (1..3)",
                    union(caps(), caps(de=(1, 2), fr=(0, 1, 2)), caps(q=(1, 2)))))))
        fam.append(("five", tup(product("five", f"DressOne({shapes()}, {S(W1, WMH, WH, WM1)}, {{1, 2, 3, 4}})", "{{1}, {2, 4}}", "{{}}",
                                    union(caps(fl=(F0, F8), nb=(8, 12, 64), rad=(1, 2, 4)), caps(md=(ATT,), nb=(8, 12, 64), rad=(1, 2, 4)),
                                          caps(md=(EXP, ATT), q=QB, rx=(NOCAP, 1, 2)))))))
    return fam


INVARIANTS = ["PopBudget", "LayerBudget", "RelaxBudget", "NodeBudgetStopsExpansion", "SliceCapsTighten", "FrontierBound",
              "HeapSorted", "TouchedOnceSortedPerGraph", "ReachableWithinCaps", "SeedsExact", "CountersMatchWork",
              "SpreadRule", "SpreadStep"]


# ------------------------------------------------------------------------------------------------
OBS_NOTE = ("perf.t1.caps.visited and perf.t1.dedupe_window have no effect in the implementation (results equal the run with "
            "both set to 0; `if ring` / `if visited_lru` test the truthiness of an empty container) - outside C12's clauses, "
            "recorded as an observation; those worlds are judged by the directly evaluated clauses")


def _report(run, fails, witness, replay, family):
    for clause, sig, msg in fails:
        if clause == "_obs":
            run.ok("Observation.visited_and_dedupe_caps_inert")
            if OBS_NOTE not in run.notes:
                run.notes.append(OBS_NOTE)
            continue
        s = dict(sig)
        s["clause"] = clause
        run.fail(clause, s, witness, msg, replay=replay)


def check(run) -> None:
    q = run.quick
    run.rule = ("every world of the TLC-enumerated families (graph x matching labels/tags x caps) run through t1_propagate on a real "
                "InMemoryGraphStore and compared with the spec's final state; groups of worlds as several active graphs of one call; "
                "random graphs trace-validated; distinct = distinct world / group / trace")
    applicable = 0
    for name, expr, nn in [(n_, e_, 4) for n_, e_ in families(q)] + [(n_, e_, 6) for n_, e_ in families6(q)]:
        consts = {"N": nn, "Worlds": Def(expr)}
        cfg = make_cfg(consts, INVARIANTS, [], emit=False, view=None, constraint="EmitCase")
        res = run.tlc("Propagation", cfg, name=f"Propagation_{name}", workers=16 if not q else 8, timeout_s=3000,
                      defs=split_defs(consts), heap="12g" if not q else "4g")
        run.model_must_hold(res)
        worlds = res.emitted
        del res
        for w in worlds:
            w["N"] = nn
        outs = pmap(replay_world, worlds)
        for w, fails in zip(worlds, outs):
            run.traces += 1
            run.case(("w", json.dumps([w["grid"], w["g"], w["lab"], w["tag"], w["cp"]], sort_keys=True)))
            if w["guard"]:
                run.guarded_out += 1
                run.ok("Propagation.direct_only(" + w["guard"] + ")")
            elif not [f for f in fails if f[0] != "_obs"]:
                run.ok("Propagation.conforms" if not fails else "Propagation.direct_only(perf structure inert)")
            if w["applicable"]:
                applicable += 1
            _report(run, fails, {"world": w}, {"kind": "world", "world": w}, name)
        # several active graphs in one call
        groups: Dict[str, List[dict]] = {}
        for w in worlds:
            groups.setdefault(json.dumps([w["grid"], w["cp"]], sort_keys=True), []).append(w)
        multi = []
        for ws in groups.values():
            for i in range(0, min(len(ws), 9 if q else 30) - 2, 3):
                multi.append(ws[i:i + 3])
        for ws, fails in zip(multi, pmap(replay_multi, multi)):
            run.traces += 1
            run.case(("m", json.dumps([[w["g"], w["lab"], w["tag"]] for w in ws] + [ws[0]["cp"]], sort_keys=True)))
            if not fails:
                run.ok("MultiGraph.concatenation_and_sums")
            _report(run, fails, {"worlds": ws}, {"kind": "multi", "worlds": ws}, name)
        if worlds:
            run.sample({"world": worlds[len(worlds) // 2]}, cap=3)
    run.clauses["SpreadRule.independent_recursion_worlds"] = applicable
    # observation outside the quantifier (the property ranges over graphs that are in the store)
    st, text = build_store([], [])
    call_t1(st, ["g:not-there"], build_ctx({"mode": "exp_floor", "floor": [0, 1], "queue": 24, "nb": 12, "radius": 4, "iter": 50,
                                            "layers": 50, "relax": NOCAP, "fr": 0, "vis": 0, "ded": 0, "siter": NOCAP,
                                            "spops": NOCAP}, "dyadic"), text)
    if "g:not-there" in st._graphs:
        run.notes.append("naming an active graph id that is not in the store makes t1_propagate create an empty graph under that id "
                         "(get_graph = ensure); outside C12's quantifier (graphs of the store), recorded as an observation only")
    run.exhaustive = True
    run.constants = {"families": [n for n, _ in families(q)] + [n + " (N=6)" for n, _ in families6(q)], "N": 4, "D": GRID_D}
    from . import c12_traces
    c12_traces.check(run)
    run.assumptions += [
        "exact conformance on the fixed-point grids only; arbitrary floats are judged by the budget / order / reachability / seed clauses",
        "worlds whose outcome hinges on an exact tie of non-dyadic values, or that leave the grid, are compared on the directly evaluated clauses only (guarded_out)",
        "out-edges are relaxed in insertion order of the store's edge dict",
    ]


def replay(rep) -> int:
    r = rep["replay"]
    if r["kind"] == "world":
        fails = replay_world(r["world"])
    elif r["kind"] == "multi":
        fails = replay_multi(r["worlds"])
    else:
        from . import c12_traces
        fails = c12_traces.replay(r)
    for clause, sig, msg in fails:
        print(f"{clause}: {msg} {sig}")
    if fails:
        print(f"VIOLATION property=C12 replay={rep.get('_path', '?')}")
        return 1
    print("replay: conforms")
    return 0
