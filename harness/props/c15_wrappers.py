"""C15 wrappers: ThreadSafeCache / ThreadSafeBytesCache under real threads with an instrumented
re-entrant lock and a recording inner proxy; the event trace is validated by TLC (LruBytesTrace /
NsCacheTrace: MutualExclusion on every inner call, SerialEquivalent results in lock order,
NoLostUpdate on the final state).  merge_caches_deterministic: every TLC-enumerated
(worker set, conflicting keys, policy) case is replayed under all listing permutations."""
from __future__ import annotations

import itertools
import sys
import threading
from typing import Any, Dict, List, Tuple

from ..util import make_cfg, rng
from .c15_traces import _judge

FAMILIES = ("ThreadSafeBytesCache", "ThreadSafeCache", "merge")


class RecLock:
    """re-entrant lock that logs acq/rel while the lock is held"""

    def __init__(self, log):
        self._l = threading.RLock()
        self._log = log

    def acquire(self, *a, **k):
        r = self._l.acquire(*a, **k)
        self._log.append({"op": "acq", "th": threading.current_thread().name})
        return r

    def release(self):
        self._log.append({"op": "rel", "th": threading.current_thread().name})
        self._l.release()

    def __enter__(self):
        self.acquire()
        return self

    def __exit__(self, *a):
        self.release()


class BytesProxy:
    def __init__(self, inner, log):
        self.i, self.log = inner, log

    def get(self, k):
        r = self.i.get(k)
        self.log.append({"op": "get", "k": k, "hit": r is not None, "v": r if r is not None else 0,
                         "th": threading.current_thread().name})
        return r

    def put(self, k, v, c):
        evn, evb = self.i.put(k, v, c)
        self.log.append({"op": "put", "k": k, "v": v, "c": c, "evn": evn, "evb": evb,
                         "th": threading.current_thread().name})
        return evn, evb

    def __contains__(self, k):
        r = k in self.i
        self.log.append({"op": "contains", "k": k, "r": bool(r), "th": threading.current_thread().name})
        return r

    def items(self):
        # LRUBytes.items() is a generator: nothing of the cache is read before the consumer iterates.  The proxy keeps
        # that laziness and records the read where it really happens, so a wrapper that hands the live iterator out of
        # its critical section shows up as an inner read without the lock (and as a listing that is not the call-time one)
        def gen():
            r = list(self.i.items())
            self.log.append({"op": "items", "ks": [k for k, _ in r], "th": threading.current_thread().name})
            yield from r
        return gen()


class LruProxy:
    """inner = LRUCache (ttl 0): get/put/contains/items as the CacheProtocol wants"""

    def __init__(self, inner, log):
        self.i, self.log = inner, log

    def get(self, k):
        r = self.i.get(k)
        self.log.append({"op": "get", "ns": "n1", "k": k, "hit": r is not None, "v": r if r is not None else 0,
                         "th": threading.current_thread().name})
        return r

    def put(self, k, v):
        e0 = self.i.stats["evicted"]
        self.i.put(k, v)
        self.log.append({"op": "set", "ns": "n1", "k": k, "v": v, "evicted": self.i.stats["evicted"] - e0,
                         "th": threading.current_thread().name})

    def __contains__(self, k):
        r = k in self.i
        self.log.append({"op": "contains", "ns": "n1", "k": k, "r": bool(r), "th": threading.current_thread().name})
        return r

    def items(self):
        r = list(self.i.items())
        self.log.append({"op": "items", "ns": "n1", "ks": [k for k, _ in r], "th": threading.current_thread().name})
        return r


def _threads_run(workers):
    old = sys.getswitchinterval()
    sys.setswitchinterval(1e-6)
    try:
        ts = [threading.Thread(target=w, name=f"t{i}") for i, w in enumerate(workers)]
        for t in ts:
            t.start()
        for t in ts:
            t.join()
    finally:
        sys.setswitchinterval(old)


def bytes_trace(seed, tidn, maxe, maxb, nthreads, nops):
    from clematis.engine.util.lru_bytes import LRUBytes
    from clematis.engine.cache import ThreadSafeBytesCache
    log: List[Dict[str, Any]] = []
    inner = LRUBytes(maxe, maxb)
    w = ThreadSafeBytesCache(BytesProxy(inner, log), lock=RecLock(log))
    keys = [f"k{i}" for i in range(6)]

    def mk(i):
        r = rng(seed, "tb", tidn, i)

        def work():
            for _ in range(nops):
                x = r.random()
                k = r.choice(keys)
                if x < 0.5:
                    w.put(k, r.randrange(1, 99), r.randrange(0, max(2, maxb // 2 or 8)))
                elif x < 0.85:
                    w.get(k)
                elif x < 0.95:
                    k in w
                else:
                    snap = w.items()
                    if x < 0.975:
                        w.put(k, r.randrange(1, 99), 1)      # the listing is the one of the call, whatever happens next
                    list(snap)
        return work
    _threads_run([mk(i) for i in range(nthreads)])
    log.append({"op": "final", "items": [[k, v] for k, v in inner.items()], "bytes": inner.size_bytes(),
                "entries": inner.size_entries()})
    return {"tid": tidn, "ev": log}


def lru_trace(seed, tidn, mx, nthreads, nops):
    from clematis.engine.cache import LRUCache, ThreadSafeCache
    log: List[Dict[str, Any]] = []
    inner = LRUCache(max_entries=mx, ttl_s=0)
    w = ThreadSafeCache(LruProxy(inner, log), lock=RecLock(log))
    keys = [f"k{i}" for i in range(6)]

    def mk(i):
        r = rng(seed, "tl", tidn, i)

        def work():
            for _ in range(nops):
                x = r.random()
                k = r.choice(keys)
                if x < 0.5:
                    w.put(k, r.randrange(1, 99))
                elif x < 0.8:
                    w.get(k)
                elif x < 0.9:
                    k in w
                else:
                    w.items()
        return work
    _threads_run([mk(i) for i in range(nthreads)])
    log.append({"op": "final", "items": {"n1": [[k, v] for k, v in inner.items()]}})
    return {"tid": tidn, "ev": log}


# ---- merge -------------------------------------------------------------------------------------
class DictCache:
    def __init__(self):
        self.d: Dict[Any, Any] = {}
        self.puts: List[Any] = []

    def get(self, k):
        return self.d.get(k)

    def put(self, k, v):
        self.d[k] = v
        self.puts.append((k, v))

    def __contains__(self, k):
        return k in self.d

    def items(self):
        return list(self.d.items())


def replay_merge(case) -> List[Tuple[str, str]]:
    """case = {target: {k:v}, workers: {w: {k:v}}, policy, expect: {k:v}, conflict: bool}"""
    from clematis.engine.cache import merge_caches_deterministic
    fails: List[Tuple[str, str]] = []
    D = lambda x: x if isinstance(x, dict) else {}      # ToJson renders an empty function as []
    case = dict(case, target=D(case["target"]), expect=D(case["expect"]),
                workers={w: D(c) for w, c in D(case["workers"]).items()})
    # value 0 of the model stands for a cached None (a legal cached value: "present" is decided by membership)
    NV = lambda v: None if v == 0 else v
    case = dict(case, target={k: NV(v) for k, v in case["target"].items()}, expect={k: NV(v) for k, v in case["expect"].items()},
                workers={w: {k: NV(v) for k, v in c.items()} for w, c in case["workers"].items()},
                puts=[[p[0], NV(p[1])] for p in case["puts"]])
    ws = sorted(case["workers"])
    results = set()
    # a skipped key is left untouched in a real recency-ordered target as well: after a first_wins merge into a
    # DeterministicLRU the old entries keep their order and the new ones follow in put order
    if case["policy"] == "first_wins":
        from clematis.engine.util.lru_det import DeterministicLRU
        real = DeterministicLRU(64)
        for k, v in sorted(case["target"].items(), reverse=True):       # any fixed order: here descending keys
            real.put(k, v)
        before = [k for k, _ in real.items()]
        wl0 = []
        for w in ws:
            c0 = DictCache()
            for k in sorted(case["workers"][w]):
                c0.d[k] = case["workers"][w][k]
            wl0.append((w, c0))
        try:
            merge_caches_deterministic(real, wl0, worker_order_key=lambda x: x, key_order_key=lambda x: x, on_conflict="first_wins")
            after = [k for k, _ in real.items()]
            want_order = before + [str(p[0]) for p in case["puts"]]
            if after != want_order or dict(real.items()) != case["expect"]:
                fails.append(("MergeDeterministic", f"merge into a DeterministicLRU: entries (LRU first) {list(real.items())}, spec: old entries in place "
                                                    f"then the new ones in put order {want_order} with values {case['expect']} for {case}"))
        except Exception as e:      # noqa: BLE001
            fails.append(("MergeDeterministic", f"merge into a DeterministicLRU raised {type(e).__name__}: {e} for {case}"))
    for perm in itertools.permutations(ws):
        for rev in (False, True):
            tgt = DictCache()
            for k, v in case["target"].items():
                tgt.d[k] = v
            wl = []
            for w in perm:
                c = DictCache()
                ks = sorted(case["workers"][w], reverse=rev)
                for k in ks:
                    c.d[k] = case["workers"][w][k]
                wl.append((w, c))
            try:
                merge_caches_deterministic(tgt, wl, worker_order_key=lambda x: x, key_order_key=lambda x: x,
                                           on_conflict=case["policy"])
                out = ("ok", tuple(sorted(tgt.d.items())), tuple(tgt.puts))
            except AssertionError:
                out = ("assert", None, None)
            results.add(out)
            if case["policy"] == "assert_equal" and case["conflict"]:
                if out[0] != "assert":
                    fails.append(("MergeDeterministic", f"assert_equal did not flag a conflicting merge: {case}"))
            else:
                if out[0] != "ok":
                    fails.append(("MergeDeterministic", f"merge raised on {case}"))
                elif dict(out[1]) != case["expect"]:
                    fails.append(("MergeDeterministic", f"merge result {dict(out[1])}, spec says {case['expect']} for {case}"))
                elif [list(p) for p in out[2]] != [[str(p[0]), p[1]] for p in case["puts"]]:
                    fails.append(("MergeDeterministic", f"merge put order {out[2]}, spec says {case['puts']}"))
    if len(results) != 1:
        fails.append(("MergeDeterministic", f"merge outcome depends on listing order: {len(results)} distinct outcomes for {case}"))
    return fails


def check(run) -> None:
    q = run.quick
    tidn = 100000
    per = 6 if q else 40
    nthreads = 4 if q else 8
    nops = 60 if q else 150
    for (e, b) in ([(3, 0), (4, 20)] if q else [(3, 0), (4, 20), (0, 12), (2, 6)]):
        traces = []
        for _ in range(per):
            tidn += 1
            traces.append(bytes_trace(run.seed, tidn, e, b, nthreads, nops))
        consts = {"Keys": ["a"], "Costs": [0], "Vals": [0], "MaxE": e, "MaxB": b}
        ctl = _drop_lock_events(traces[0])
        v = run.validate_traces("LruBytesTrace", consts, traces + [ctl], name=f"Wrap_LruBytes_e{e}_b{b}")
        _judge(run, "ThreadSafeBytesCache", consts, traces + [ctl], v)
        run.sample({"family": "ThreadSafeBytesCache.trace", "constants": consts, "first_events": traces[0]["ev"][:8]}, cap=14)
    for mx in ([3] if q else [3, 5, 1]):
        traces = []
        for _ in range(per):
            tidn += 1
            traces.append(lru_trace(run.seed, tidn, mx, nthreads, nops))
        consts = {"NS": ["n1"], "Keys": ["a"], "Vals": [0], "Max": mx, "Ttl": 0, "Ticks": [1]}
        ctl = _drop_lock_events(traces[0])
        v = run.validate_traces("NsCacheTrace", consts, traces + [ctl], name=f"Wrap_NsCache_m{mx}")
        _judge(run, "ThreadSafeCache", consts, traces + [ctl], v)
    # ---- LockWrapper design model + merge model ----
    for nt, no in ([(2, 2), (3, 1)] if q else [(2, 2), (3, 1), (2, 3), (3, 2)]):
        cfg = make_cfg({"Threads": [f"t{i}" for i in range(nt)], "NOps": no, "Keys": ["a", "b"]},
                       ["MutualExclusion", "TypeOK"], ["SerialEquivalent"], emit=False, view=None)
        res = run.tlc("LockWrapper", cfg, name=f"LockWrapper_{nt}x{no}", workers=4, timeout_s=600)
        run.model_must_hold(res)
    cfg = make_cfg({"Workers": [1, 2, 3] if not q else [1, 2], "Keys": [1, 2], "Vals": [0, 1, 2] if q else [0, 1]},
                   ["OrderIndependent"], [], emit=False, view=None, constraint="EmitCase")
    res = run.tlc("MergeCaches", cfg, name="MergeCaches", workers=4, timeout_s=600)
    run.model_must_hold(res)
    from ..util import pmap
    outs = pmap(replay_merge, res.emitted)
    for case, fails in zip(res.emitted, outs):
        run.traces += 1
        run.case(("merge", str(case)))
        if not fails:
            run.ok("merge.conforms")
        for clause, msg in fails:
            run.fail(clause, {"family": "merge", "policy": case["policy"]}, case, msg,
                     replay={"family": "merge", "case": case})
    if res.emitted:
        run.sample({"family": "merge", "case": res.emitted[len(res.emitted) // 2]}, cap=14)


def _drop_lock_events(t):
    """negative control: the same trace with every lock event removed must be rejected with
    MutualExclusion (this is what a wrapper method that forgets the lock looks like)"""
    return {"tid": -t["tid"], "ev": [e for e in t["ev"] if e["op"] not in ("acq", "rel")]}


def replay(r) -> List[Tuple[str, str]]:
    if r["family"] == "merge":
        return replay_merge(r["case"])
    return [("TraceRejected", "thread traces are schedule dependent; re-run ./check C15")]
